#!/usr/bin/env python3
"""rewrites the obligation counts of DESIGN.md §10.2 from the evidence files of the last quick run (helper used when finishing a round)"""
import json, re
p = '/verif/DESIGN.md'
s = open(p).read()
tot_ob = tot_paths = tot_q = 0
for n in range(1, 19):
    i = f'C{n:02d}'
    d = json.load(open(f'/verif/evidence/{i}.json'))
    c = d['coverage']
    ob = c['obligations']; kn = len(c.get('known_findings_hit') or [])
    tot_ob += ob; tot_paths += c['states']; tot_q += c['queries_discharged']
    m = re.search(rf'^\| {i} \| ([^|]*) \|', s, re.M)
    if m:
        old = m.group(1)
        extra = re.search(r'(\(\+\d+ Kani, thorough\))', old)
        new = f'{ob}' + (f' ({kn} known)' if kn else '') + (f' {extra.group(1)}' if extra else '')
        s = s[:m.start(1)] + new + s[m.end(1):]
open(p, 'w').write(s)
print('obligations', tot_ob, 'paths', tot_paths, 'queries', tot_q)
