#!/usr/bin/env python3
"""Runs every seeded change under /verif/seeded against the checks named in seeded/PLAN.json (scratch copies, never /repo) and writes
seeded/<id>/result.json.  usage: python3 seedall.py [jobs] [only-substring]"""
import json, os, subprocess, sys, re
from concurrent.futures import ThreadPoolExecutor
V = os.path.dirname(os.path.abspath(__file__))
plan = json.load(open(os.path.join(V, 'seeded', 'PLAN.json')))
jobs = int(sys.argv[1]) if len(sys.argv) > 1 else 3
only = sys.argv[2] if len(sys.argv) > 2 else None


def run(item):
    sid, checks = item
    d = os.path.join(V, 'seeded', sid)
    p = subprocess.run([os.path.join(V, 'seedtest.sh'), os.path.join(d, 'patch.diff')] + checks, cwd=V, stdout=subprocess.PIPE, stderr=subprocess.STDOUT, text=True)
    out = p.stdout
    res = {'seed': sid, 'checks': {}, 'caught_by': []}
    cur = None
    for l in out.split('\n'):
        m = re.match(r'^== (C\d\d) rc=(\d+)', l)
        if m:
            cur = m.group(1); res['checks'][cur] = {'rc': int(m.group(2)), 'verdict': 'missed', 'lines': []}
            continue
        if cur is None:
            continue
        if l.startswith('VIOLATION'):
            res['checks'][cur]['verdict'] = 'VIOLATION'
        elif l.startswith('UNCONFIRMED') and res['checks'][cur]['verdict'] == 'missed':
            res['checks'][cur]['verdict'] = 'UNCONFIRMED (solver flags it, no native reproduction)'
        if l.startswith(('VIOLATION', 'UNCONFIRMED', '  obligation', '  native', '[' + cur)):
            res['checks'][cur]['lines'].append(l[:400])
    if 'PATCH DOES NOT APPLY' in out:
        res['error'] = 'patch does not apply'
    res['caught_by'] = [c for c, r in res['checks'].items() if r['verdict'] == 'VIOLATION']
    json.dump(res, open(os.path.join(d, 'result.json'), 'w'), indent=1)
    print(sid, {c: r['verdict'].split(' ')[0] for c, r in res['checks'].items()}, flush=True)
    return res


items = [(k, v) for k, v in sorted(plan.items()) if only is None or only in k]
with ThreadPoolExecutor(max_workers=jobs) as ex:
    list(ex.map(run, items))
