#!/bin/bash
# usage: seedtest.sh <patch.diff> <check id>...   — runs the named checks against a scratch copy of /repo with the patch applied
# (the scratch copy lives under the cache dir and is removed afterwards; evidence goes to the scratch dir, never to /verif/evidence)
set -u
patch=$(readlink -f "$1"); shift
cd "$(dirname "$0")"
CACHE=${VERIF_CACHE:-/var/tmp/fjall-verif-cache}
tag=$(echo "$patch" | sha256sum | cut -c1-8)
root=$CACHE/seeds/$tag
rm -rf "$root"; mkdir -p "$root"
rsync -a --exclude target --exclude .git /repo/ "$root/"
# a hook line added to /repo after a seed was written can shift a hunk's context: fall back to a fuzzy apply of the same change
( cd "$root" && { git apply "$patch" 2>/dev/null || patch -p1 -F3 --no-backup-if-mismatch -s < "$patch"; } ) || { echo "PATCH DOES NOT APPLY"; rm -rf "$root"; exit 3; }
tier=${TIER:-quick}
for id in "$@"; do
  VERIF_REPO=$root VERIF_EVIDENCE_DIR=$root/_evidence VERIF_REPLAY_TARGET=$CACHE/seeds/replay-target-$tag ./check "$id" --tier "$tier" > "$root/out_$id.log" 2>&1
  rc=$?
  echo "== $id rc=$rc"
  grep -E "^(VIOLATION|UNCONFIRMED|KNOWN-FINDING|  obligation|  native|\[$id\])" "$root/out_$id.log" | cut -c1-400
done
rm -rf "$root" "$CACHE/seeds/replay-target-$tag"
