#!/bin/bash
# Offline setup after a fresh restore: warm the MIR cache and build the native replay driver from /repo.
cd "$(dirname "$0")"
export CARGO_NET_OFFLINE=true
python3-vt -m msx.mirdump >/dev/null || exit 1
python3-vt -c "from msx.core import build_replay; print(build_replay())" || exit 1
exit 0
