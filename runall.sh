#!/bin/bash
# runs every registered check (tier $1, default quick), $2 checks at a time; prints one summary line per check
cd "$(dirname "$0")"
tier=${1:-quick}; jobs=${2:-4}
ids=$(python3 -c "import json;print(' '.join(c['property_id'] for c in json.load(open('MANIFEST.json'))['checks']))")
mkdir -p /var/tmp/fv
printf '%s\n' $ids | xargs -P "$jobs" -I{} sh -c "./check {} --tier $tier > /var/tmp/fv/run_{}.log 2>&1; echo \"{} rc=\$? \$(tail -n 1 /var/tmp/fv/run_{}.log | cut -c1-220)\""
