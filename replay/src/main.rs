//! Native replay driver: interprets a line-oriented scenario against the real fjall build
//! (compiled with `--cfg fjall_verif`) and prints one result line per command.
//!
//! Output:  `R <line> <command> => <result>`
use fjall::{
    Database, Keyspace, KeyspaceCreateOptions, OptimisticTxDatabase, OptimisticTxKeyspace, PersistMode, Readable,
    SingleWriterTxDatabase, SingleWriterTxKeyspace, Snapshot,
};
use std::collections::HashMap;
use std::path::PathBuf;

fn hex(b: &[u8]) -> String {
    if b.is_empty() {
        return "-".into();
    }
    b.iter().map(|x| format!("{x:02x}")).collect()
}

fn unhex(s: &str) -> Vec<u8> {
    if s == "-" {
        return vec![];
    }
    (0..s.len() / 2).map(|i| u8::from_str_radix(&s[2 * i..2 * i + 2], 16).expect("hex")).collect()
}

fn res<T>(r: &Result<T, fjall::Error>) -> String {
    match r {
        Ok(_) => "ok".into(),
        Err(e) => format!("err:{}", errname(e)),
    }
}

fn errname(e: &fjall::Error) -> String {
    let s = format!("{e:?}");
    s.split(|c: char| !c.is_alphanumeric()).next().unwrap_or("Error").to_string()
}

/// deterministic filter decided from the key: keys starting with 'x' are removed, keys starting with 'r' get the value "R", others are kept
struct KeyFilter;

impl fjall::compaction::filter::CompactionFilter for KeyFilter {
    fn filter_item(
        &mut self,
        item: fjall::compaction::filter::ItemAccessor<'_>,
        _ctx: &fjall::compaction::filter::Context,
    ) -> fjall::compaction::filter::CompactionFilterResult {
        use fjall::compaction::filter::Verdict;
        let k = item.key();
        if k.starts_with(b"x") {
            Ok(Verdict::Remove)
        } else if k.starts_with(b"r") {
            Ok(Verdict::ReplaceValue(b"R".to_vec().into()))
        } else {
            Ok(Verdict::Keep)
        }
    }
}

struct KeyFilterFactory;

impl fjall::compaction::filter::Factory for KeyFilterFactory {
    fn name(&self) -> &str {
        "keyfilter"
    }

    fn make_filter(&self, _ctx: &fjall::compaction::filter::Context) -> Box<dyn fjall::compaction::filter::CompactionFilter> {
        Box::new(KeyFilter)
    }
}

enum Db {
    Plain(Database),
    Opt(OptimisticTxDatabase),
    Single(SingleWriterTxDatabase),
}

impl Db {
    fn inner(&self) -> &Database {
        match self {
            Db::Plain(d) => d,
            Db::Opt(d) => d.inner(),
            Db::Single(d) => d.inner(),
        }
    }
}

enum Ks {
    Plain(Keyspace),
    Opt(OptimisticTxKeyspace),
    Single(SingleWriterTxKeyspace),
}

impl Ks {
    fn inner(&self) -> &Keyspace {
        match self {
            Ks::Plain(k) => k,
            Ks::Opt(k) => k.inner(),
            Ks::Single(k) => k.inner(),
        }
    }
}

struct World {
    dir: PathBuf,
    kind: String,
    opts: HashMap<String, String>,
    db: Option<Db>,
    ks: HashMap<String, Ks>,
    snaps: HashMap<String, Snapshot>,
    iters: HashMap<String, fjall::Iter>,
    batches: HashMap<String, fjall::OwnedWriteBatch>,
    otx: HashMap<String, fjall::OptimisticWriteTx>,
    stx: HashMap<String, fjall::SingleWriterWriteTx<'static>>,
}

fn kv(args: &[&str]) -> HashMap<String, String> {
    args.iter()
        .filter_map(|a| a.split_once('=').map(|(k, v)| (k.to_string(), v.to_string())))
        .collect()
}

fn persist_mode(s: &str) -> PersistMode {
    match s {
        "buffer" => PersistMode::Buffer,
        "syncdata" => PersistMode::SyncData,
        _ => PersistMode::SyncAll,
    }
}

impl World {
    fn open(&mut self) -> String {
        macro_rules! build {
            ($t:ty) => {{
                let mut b = <$t>::builder(&self.dir);
                if let Some(v) = self.opts.get("manual_persist") {
                    b = b.manual_journal_persist(v == "1");
                }
                if let Some(v) = self.opts.get("workers") {
                    b = b.worker_threads_unchecked(v.parse().expect("workers"));
                }
                if let Some(names) = self.opts.get("filter") {
                    let names: Vec<String> = names.split(',').map(str::to_string).collect();
                    b = b.with_compaction_filter_factories(std::sync::Arc::new(move |ks: &str| {
                        if names.iter().any(|n| n == ks) {
                            let f: std::sync::Arc<dyn fjall::compaction::filter::Factory> = std::sync::Arc::new(KeyFilterFactory);
                            Some(f)
                        } else {
                            None
                        }
                    }));
                }
                if let Some(v) = self.opts.get("max_journal") {
                    b = b.max_journaling_size(v.parse().expect("max_journal"));
                }
                if let Some(v) = self.opts.get("compression") {
                    if v == "lz4" {
                        b = b.journal_compression(fjall::CompressionType::Lz4);
                    } else {
                        b = b.journal_compression(fjall::CompressionType::None);
                    }
                }
                b.open()
            }};
        }
        match self.kind.as_str() {
            "opt" => match build!(OptimisticTxDatabase) {
                Ok(d) => {
                    self.db = Some(Db::Opt(d));
                    "ok".into()
                }
                Err(e) => format!("err:{}", errname(&e)),
            },
            "single" => match build!(SingleWriterTxDatabase) {
                Ok(d) => {
                    self.db = Some(Db::Single(d));
                    "ok".into()
                }
                Err(e) => format!("err:{}", errname(&e)),
            },
            _ => match build!(Database) {
                Ok(d) => {
                    self.db = Some(Db::Plain(d));
                    "ok".into()
                }
                Err(e) => format!("err:{}", errname(&e)),
            },
        }
    }

    fn close(&mut self) {
        self.iters.clear();
        self.snaps.clear();
        self.batches.clear();
        self.otx.clear();
        self.stx.clear();
        self.ks.clear();
        self.db = None;
    }

    fn keyspace(&mut self, name: &str, o: &HashMap<String, String>) -> String {
        let o2 = o.clone();
        let mk = move || {
            let mut c = KeyspaceCreateOptions::default();
            if let Some(v) = o2.get("manual") {
                c = c.manual_journal_persist(v == "1");
            }
            if let Some(v) = o2.get("memtable") {
                c = c.max_memtable_size(v.parse().expect("memtable"));
            }
            if o2.get("kvsep").map(|v| v == "1").unwrap_or(false) {
                c = c.with_kv_separation(Some(fjall::KvSeparationOptions::default().separation_threshold(1)));
            }
            c
        };
        let Some(db) = self.db.as_ref() else { return "err:NoDb".into() };
        let r = match db {
            Db::Plain(d) => d.keyspace(name, mk).map(Ks::Plain),
            Db::Opt(d) => d.keyspace(name, mk).map(Ks::Opt),
            Db::Single(d) => d.keyspace(name, mk).map(Ks::Single),
        };
        match r {
            Ok(k) => {
                let id = k.inner().id();
                self.ks.insert(name.to_string(), k);
                format!("ok id={id}")
            }
            Err(e) => format!("err:{}", errname(&e)),
        }
    }

    fn dump(&self, name: &str) -> String {
        let Some(k) = self.ks.get(name) else { return "err:NoKs".into() };
        let mut out = vec![];
        for g in k.inner().iter() {
            match g.into_inner() {
                Ok((k, v)) => out.push(format!("{}:{}", hex(&k), hex(&v))),
                Err(e) => return format!("err:{}", errname(&e)),
            }
        }
        format!("[{}]", out.join(","))
    }
}

fn fmt_guard(g: Option<fjall::Guard>) -> String {
    match g {
        None => "none".into(),
        Some(g) => match g.into_inner() {
            Ok((k, v)) => format!("{}:{}", hex(&k), hex(&v)),
            Err(e) => format!("err:{}", errname(&e)),
        },
    }
}

fn collect(it: impl Iterator<Item = fjall::Guard>) -> String {
    let mut out = vec![];
    for g in it {
        match g.into_inner() {
            Ok((k, v)) => out.push(format!("{}:{}", hex(&k), hex(&v))),
            Err(e) => return format!("err:{}", errname(&e)),
        }
    }
    format!("[{}]", out.join(","))
}

/// upper bound of the keys starting with `p` (p + 0xff..): good enough for the short keys used in scenarios
fn prefix_end(p: &[u8]) -> Vec<u8> {
    let mut e = p.to_vec();
    e.extend_from_slice(&[0xff; 8]);
    e
}

/// one read through any view (`Readable`): the same code serves snapshots and both kinds of write transactions
fn read_view<R: Readable>(r: &R, ks: &Keyspace, method: &str, key: &[u8]) -> String {
    match method {
        "get" => match r.get(ks, key) {
            Ok(Some(v)) => format!("some:{}", hex(&v)),
            Ok(None) => "none".into(),
            Err(e) => format!("err:{}", errname(&e)),
        },
        "contains_key" => match r.contains_key(ks, key) {
            Ok(b) => b.to_string(),
            Err(e) => format!("err:{}", errname(&e)),
        },
        "size_of" => match r.size_of(ks, key) {
            Ok(Some(v)) => format!("some:{v}"),
            Ok(None) => "none".into(),
            Err(e) => format!("err:{}", errname(&e)),
        },
        "first_key_value" => fmt_guard(r.first_key_value(ks)),
        "last_key_value" => fmt_guard(r.last_key_value(ks)),
        "iter" => collect(r.iter(ks)),
        "iter_rev" => collect(r.iter(ks).rev()),
        "range" => collect(r.range(ks, vec![0x6b]..prefix_end(&[0x6b]))),
        "range_key" => collect(r.range(ks, key.to_vec()..prefix_end(key))),
        "prefix" => collect(r.prefix(ks, vec![0x6b])),
        "prefix_key" => collect(r.prefix(ks, key.to_vec())),
        "len" => match r.len(ks) {
            Ok(n) => n.to_string(),
            Err(e) => format!("err:{}", errname(&e)),
        },
        "is_empty" => match r.is_empty(ks) {
            Ok(b) => b.to_string(),
            Err(e) => format!("err:{}", errname(&e)),
        },
        _ => "err:BadMethod".into(),
    }
}

/// operations that only need cloneable handles: usable from the main thread and from spawned threads
fn simple_op(db: &Database, ks: &HashMap<String, Keyspace>, t: &[&str]) -> Option<String> {
    let a = &t[1..];
    let k = |n: &str| ks.get(n);
    Some(match t[0] {
        "insert" => match k(a[0]) {
            Some(k) => res(&k.insert(unhex(a[1]), unhex(a[2]))),
            None => "err:NoKs".into(),
        },
        "remove" => match k(a[0]) {
            Some(k) => res(&k.remove(unhex(a[1]))),
            None => "err:NoKs".into(),
        },
        "remove_weak" => match k(a[0]) {
            Some(k) => res(&k.remove_weak(unhex(a[1]))),
            None => "err:NoKs".into(),
        },
        "clear" => match k(a[0]) {
            Some(k) => res(&k.clear()),
            None => "err:NoKs".into(),
        },
        "batch1" => match k(a[0]) {
            Some(k) => {
                let mut b = db.batch();
                b.insert(k, unhex(a[1]), unhex(a[2]));
                res(&b.commit())
            }
            None => "err:NoKs".into(),
        },
        "batch2" => match (k(a[0]), k(a[3])) {
            (Some(k1), Some(k2)) => {
                let mut b = db.batch();
                b.insert(k1, unhex(a[1]), unhex(a[2]));
                b.insert(k2, unhex(a[4]), unhex(a[5]));
                res(&b.commit())
            }
            _ => "err:NoKs".into(),
        },
        "ingest1" => match k(a[0]) {
            // ingest1 <ks> <key> <value>: a bulk ingestion of one item (usable from spawned threads)
            Some(k) => res(&(|| -> fjall::Result<()> {
                let mut ing = k.start_ingestion()?;
                ing.write(unhex(a[1]), unhex(a[2]))?;
                ing.finish()
            })()),
            None => "err:NoKs".into(),
        },
        "mkks" => match db.keyspace(a[0], fjall::KeyspaceCreateOptions::default) {
            // open-or-create from any thread; answers the directory of the keyspace (= its id)
            Ok(k) => format!("ok {}", k.path().file_name().map(|x| x.to_string_lossy().to_string()).unwrap_or_default()),
            Err(e) => format!("err:{}", errname(&e)),
        },
        "wdrain" => {
            // run queued worker messages on this thread until the queue is empty (databases opened with workers=0)
            let mut n = 0;
            loop {
                match fjall::verif::worker_step(db) {
                    Ok(Some(_)) => n += 1,
                    Ok(None) => break format!("ok steps={n}"),
                    Err(e) => break format!("err:{}", errname(&e)),
                }
                if n > 10_000 { break "err:TooManySteps".into(); }
            }
        }
        "persist" => res(&db.persist(persist_mode(a[0]))),
        "get" => match k(a[0]) {
            Some(k) => match k.get(unhex(a[1])) {
                Ok(Some(v)) => format!("some:{}", hex(&v)),
                Ok(None) => "none".into(),
                Err(e) => format!("err:{}", errname(&e)),
            },
            None => "err:NoKs".into(),
        },
        "snapget2" => match (k(a[0]), k(a[2])) {
            // snapshot; get k1 from ks1; get k2 from ks2  (one snapshot, two reads)
            (Some(k1), Some(k2)) => {
                let s = db.snapshot();
                let r1 = s.get(k1, unhex(a[1])).map(|o| o.map(|v| hex(&v)));
                let r2 = s.get(k2, unhex(a[3])).map(|o| o.map(|v| hex(&v)));
                format!("{:?}|{:?}", r1.ok().flatten(), r2.ok().flatten())
            }
            _ => "err:NoKs".into(),
        },
        _ => return None,
    })
}

fn main() {
    let path = std::env::args().nth(1).expect("scenario file");
    let text = std::fs::read_to_string(&path).expect("read scenario");
    let mut w = World {
        dir: PathBuf::from("/var/tmp/fjall-replay-default"),
        kind: "plain".into(),
        opts: HashMap::new(),
        db: None,
        ks: HashMap::new(),
        snaps: HashMap::new(),
        iters: HashMap::new(),
        batches: HashMap::new(),
        otx: HashMap::new(),
        stx: HashMap::new(),
    };
    let mut threads: HashMap<String, std::thread::JoinHandle<String>> = HashMap::new();
    for (ln, line) in text.lines().enumerate() {
        let line = line.trim();
        if line.is_empty() || line.starts_with('#') {
            continue;
        }
        let t: Vec<&str> = line.split_whitespace().collect();
        let a = &t[1..];
        let out: String = match t[0] {
            "dir" => {
                w.dir = PathBuf::from(a[0]);
                "ok".into()
            }
            "kind" => {
                w.kind = a[0].to_string();
                "ok".into()
            }
            "open" => {
                w.opts = kv(a);
                w.open()
            }
            "reopen" => {
                w.close();
                w.open()
            }
            "close" => {
                w.close();
                "ok".into()
            }
            "ks" => {
                let o = kv(&a[1..]);
                w.keyspace(a[0], &o)
            }
            "insert" => match w.ks.get(a[0]) {
                Some(k) => res(&k.inner().insert(unhex(a[1]), unhex(a[2]))),
                None => "err:NoKs".into(),
            },
            "remove" => match w.ks.get(a[0]) {
                Some(k) => res(&k.inner().remove(unhex(a[1]))),
                None => "err:NoKs".into(),
            },
            "remove_weak" => match w.ks.get(a[0]) {
                Some(k) => res(&k.inner().remove_weak(unhex(a[1]))),
                None => "err:NoKs".into(),
            },
            "clear" => match w.ks.get(a[0]) {
                Some(k) => res(&k.inner().clear()),
                None => "err:NoKs".into(),
            },
            "get" => match w.ks.get(a[0]) {
                Some(k) => match k.inner().get(unhex(a[1])) {
                    Ok(Some(v)) => format!("some:{}", hex(&v)),
                    Ok(None) => "none".into(),
                    Err(e) => format!("err:{}", errname(&e)),
                },
                None => "err:NoKs".into(),
            },
            "dump" => w.dump(a[0]),
            "batch" => {
                let id = a[0].to_string();
                match a[1] {
                    "begin" => {
                        let b = w.db.as_ref().expect("db").inner().batch();
                        w.batches.insert(id, b);
                        "ok".into()
                    }
                    "durability" => {
                        let b = w.batches.remove(&id).expect("batch");
                        let m = if a[2] == "none" { None } else { Some(persist_mode(a[2])) };
                        w.batches.insert(id, b.durability(m));
                        "ok".into()
                    }
                    "insert" => {
                        let k = w.ks.get(a[2]).expect("ks").inner().clone();
                        w.batches.get_mut(&id).expect("batch").insert(&k, unhex(a[3]), unhex(a[4]));
                        "ok".into()
                    }
                    "remove" => {
                        let k = w.ks.get(a[2]).expect("ks").inner().clone();
                        w.batches.get_mut(&id).expect("batch").remove(&k, unhex(a[3]));
                        "ok".into()
                    }
                    "remove_weak" => {
                        let k = w.ks.get(a[2]).expect("ks").inner().clone();
                        w.batches.get_mut(&id).expect("batch").remove_weak(&k, unhex(a[3]));
                        "ok".into()
                    }
                    "commit" => res(&w.batches.remove(&id).expect("batch").commit()),
                    _ => "err:BadCmd".into(),
                }
            }
            "persist" => res(&w.db.as_ref().expect("db").inner().persist(persist_mode(a[0]))),
            "fault" => {
                let mask: u64 = a[0].parse().expect("mask");
                let nth: i64 = a[1].parse().expect("nth");
                let short: i64 = a.get(2).map(|x| x.parse().expect("short")).unwrap_or(-1);
                let sticky = a.get(3).map(|x| *x == "1").unwrap_or(false);
                fjall::verif::arm_fault(mask, nth, short, sticky);
                "ok".into()
            }
            "disarm" => {
                let n = fjall::verif::faults_fired();
                fjall::verif::disarm_fault();
                format!("ok fired={n}")
            }
            "ingest" => {
                // ingest <ks> k:v,k:v,...   (ascending keys; v = '-' for empty; 'T' = tombstone)
                let Some(k) = w.ks.get(a[0]) else { println!("R {} ingest => err:NoKs", ln + 1); continue };
                let k = k.inner().clone();
                let r = (|| -> fjall::Result<()> {
                    let mut ing = k.start_ingestion()?;
                    if let Some(list) = a.get(1) {
                        for kv in list.split(',') {
                            let (kk, vv) = kv.split_once(':').expect("k:v");
                            if vv == "T" {
                                ing.write_tombstone(unhex(kk))?;
                            } else {
                                ing.write(unhex(kk), unhex(vv))?;
                            }
                        }
                    }
                    ing.finish()
                })();
                res(&r)
            }
            "readall" => {
                // readall <ks> <k1,k2,...>: every read method of the keyspace, in one canonical line
                let Some(k) = w.ks.get(a[0]) else { println!("R {} readall => err:NoKs", ln + 1); continue };
                let k = k.inner().clone();
                let mut out = vec![];
                out.push(format!("iter={}", collect(k.iter())));
                out.push(format!("rev={}", collect(k.iter().rev())));
                {
                    // the three single-field accessors of Guard
                    let keys: Vec<String> = k.iter().map(|g| g.key().map(|x| hex(&x)).unwrap_or_else(|e| format!("err:{}", errname(&e)))).collect();
                    let vals: Vec<String> = k.iter().map(|g| g.value().map(|x| hex(&x)).unwrap_or_else(|e| format!("err:{}", errname(&e)))).collect();
                    let sizes: Vec<String> = k.iter().map(|g| g.size().map(|x| x.to_string()).unwrap_or_else(|e| format!("err:{}", errname(&e)))).collect();
                    out.push(format!("keys=[{}]", keys.join(",")));
                    out.push(format!("values=[{}]", vals.join(",")));
                    out.push(format!("sizes=[{}]", sizes.join(",")));
                }
                out.push(format!("first={}", fmt_guard(k.first_key_value())));
                out.push(format!("last={}", fmt_guard(k.last_key_value())));
                out.push(format!("len={}", k.len().map(|n| n.to_string()).unwrap_or_else(|e| format!("err:{}", errname(&e)))));
                out.push(format!("empty={}", k.is_empty().map(|n| n.to_string()).unwrap_or_else(|e| format!("err:{}", errname(&e)))));
                out.push(format!("prefix={}", collect(k.prefix(vec![0x6b]))));
                out.push(format!("range={}", collect(k.range(vec![0x6b, 0x32]..vec![0x6b, 0x35]))));
                {
                    // consumed from both ends
                    let mut it = k.iter();
                    let f = fmt_guard(it.next());
                    let b = fmt_guard(it.next_back());
                    out.push(format!("ends={}|{}|{}", f, b, collect(it)));
                }
                if let Some(keys) = a.get(1) {
                    for key in keys.split(',') {
                        let kb = unhex(key);
                        let g = match k.get(&kb) { Ok(Some(v)) => hex(&v), Ok(None) => "none".into(), Err(e) => format!("err:{}", errname(&e)) };
                        let c = k.contains_key(&kb).map(|b| b.to_string()).unwrap_or_else(|e| format!("err:{}", errname(&e)));
                        let z = match k.size_of(&kb) { Ok(Some(v)) => v.to_string(), Ok(None) => "none".into(), Err(e) => format!("err:{}", errname(&e)) };
                        out.push(format!("{key}={g}/{c}/{z}"));
                    }
                }
                out.join(";")
            }
            "ks_opts" => {
                // ks_opts <name> <leveled|fifo|blob|other> <variant>: open/create with a full set of non-default options
                use fjall::config::{BlockSizePolicy, BloomConstructionPolicy, CompressionPolicy, FilterPolicy, FilterPolicyEntry, HashRatioPolicy, PinningPolicy, RestartIntervalPolicy};
                let kind = a[1].to_string();
                let var: u64 = a.get(2).map(|x| x.parse().expect("variant")).unwrap_or(1);
                let mk = move || {
                    let v = var as u32;
                    let mut c = KeyspaceCreateOptions::default()
                        .max_memtable_size(5_000_000_000 + 1_000_000 * (var + 1))
                        .manual_journal_persist(var % 2 == 1)
                        .expect_point_read_hits(var % 2 == 0)
                        .data_block_size_policy(BlockSizePolicy::new([2_048 * (v + 1), 16_384]))
                        .data_block_hash_ratio_policy(HashRatioPolicy::new([0.5 * (v as f32), 1.25]))
                        .data_block_restart_interval_policy(RestartIntervalPolicy::new([4 + v as u8, 9]))
                        .data_block_compression_policy(CompressionPolicy::new([fjall::CompressionType::None, fjall::CompressionType::Lz4]))
                        .index_block_compression_policy(CompressionPolicy::new([if var % 2 == 1 { fjall::CompressionType::Lz4 } else { fjall::CompressionType::None }]))
                        .index_block_pinning_policy(PinningPolicy::new([var % 2 == 1, false, true]))
                        .filter_block_pinning_policy(PinningPolicy::new([false, var % 2 == 1]))
                        .index_block_partitioning_policy(PinningPolicy::new([var % 2 == 0, true]))
                        .filter_block_partitioning_policy(PinningPolicy::new([true, var % 2 == 0, false]))
                        .filter_policy(FilterPolicy::new([
                            FilterPolicyEntry::Bloom(BloomConstructionPolicy::BitsPerKey(7.5 + v as f32)),
                            FilterPolicyEntry::None,
                            FilterPolicyEntry::Bloom(BloomConstructionPolicy::FalsePositiveRate(0.02)),
                        ]));
                    match kind.as_str() {
                        "fifo" => {
                            c = c.compaction_strategy(std::sync::Arc::new(fjall::compaction::Fifo::new(5_000_000_000 + var, Some(5_000_003_600 + var))));
                        }
                        "blob" => {
                            c = c.with_kv_separation(Some(
                                fjall::KvSeparationOptions::default()
                                    .separation_threshold(70_000 + v)
                                    .file_target_size(6_442_450_944 + var)
                                    .staleness_threshold(0.5)
                                    .age_cutoff(0.25)
                                    .compression(fjall::CompressionType::None),
                            ));
                        }
                        "leveled" => {
                            c = c.compaction_strategy(std::sync::Arc::new(
                                fjall::compaction::Leveled::default().with_l0_threshold(5 + v as u8).with_table_target_size(4_300_000_000 + var).with_level_ratio_policy(vec![8.0, 6.0]),
                            ));
                        }
                        _ => {}
                    }
                    c
                };
                let Some(db) = w.db.as_ref() else { println!("R {} ks_opts => err:NoDb", ln + 1); continue };
                let r = match db {
                    Db::Plain(d) => d.keyspace(a[0], mk).map(Ks::Plain),
                    Db::Opt(d) => d.keyspace(a[0], mk).map(Ks::Opt),
                    Db::Single(d) => d.keyspace(a[0], mk).map(Ks::Single),
                };
                match r {
                    Ok(k) => {
                        w.ks.insert(a[0].to_string(), k);
                        "ok".into()
                    }
                    Err(e) => format!("err:{}", errname(&e)),
                }
            }
            "options" => match w.ks.get(a[0]) {
                Some(k) => fjall::verif::keyspace_options(k.inner()),
                None => "err:NoKs".into(),
            },
            "delete_ks" => {
                let Some(k) = w.ks.remove(a[0]) else { println!("R {} delete_ks => err:NoKs", ln + 1); continue };
                let keep_handle = a.get(1).map(|x| *x == "keep").unwrap_or(false);
                let h = k.inner().clone();
                let r = res(&w.db.as_ref().expect("db").inner().delete_keyspace(h.clone()));
                if keep_handle {
                    w.ks.insert(format!("{}#old", a[0]), Ks::Plain(h));
                }
                drop(k);
                r
            }
            "ks_exists" => format!("{}", w.db.as_ref().expect("db").inner().keyspace_exists(a[0])),
            "list_ks" => {
                let mut v: Vec<String> = w.db.as_ref().expect("db").inner().list_keyspace_names().iter().map(|x| x.to_string()).collect();
                v.sort();
                format!("[{}]", v.join(","))
            }
            "ks_drop" => {
                w.ks.remove(a[0]);
                "ok".into()
            }
            "copydir" => {
                // copydir <src> <dst>: crash image as the OS sees it right now
                fn cp(src: &std::path::Path, dst: &std::path::Path) -> std::io::Result<()> {
                    std::fs::create_dir_all(dst)?;
                    for e in std::fs::read_dir(src)? {
                        let e = e?;
                        let to = dst.join(e.file_name());
                        if e.file_type()?.is_dir() {
                            cp(&e.path(), &to)?;
                        } else {
                            std::fs::copy(e.path(), &to)?;
                        }
                    }
                    Ok(())
                }
                match cp(std::path::Path::new(a[0]), std::path::Path::new(a[1])) {
                    Ok(()) => "ok".into(),
                    Err(e) => format!("err:{e}"),
                }
            }
            "power_cut" => {
                // power_cut <dir>: cut every journal in <dir> to the length last made durable through the writer (unsynced tail = zeros)
                let mut out = vec![];
                for e in std::fs::read_dir(a[0]).expect("dir") {
                    let e = e.expect("dirent");
                    let p = e.path();
                    if p.extension().map(|x| x == "jnl").unwrap_or(false) {
                        // durable lengths are recorded under the original path: map by file name
                        let orig = w.dir.join(e.file_name());
                        let d = fjall::verif::durable_len(&orig).unwrap_or(0);
                        let len = std::fs::metadata(&p).expect("meta").len();
                        let f = std::fs::OpenOptions::new().write(true).open(&p).expect("open");
                        f.set_len(d.min(len)).expect("cut");
                        f.set_len(len).expect("pad");
                        out.push(format!("{}:{}", e.file_name().to_string_lossy(), d));
                    }
                }
                out.sort();
                format!("ok {}", out.join(","))
            }
            "setdir" => {
                w.dir = PathBuf::from(a[0]);
                "ok".into()
            }
            "writefile" => {
                let data = unhex(a[1]);
                match std::fs::write(a[0], data) {
                    Ok(()) => "ok".into(),
                    Err(e) => format!("err:{e}"),
                }
            }
            "mark" => {
                // visible in an strace log: write(fd, "MARK <n>", ..) to /dev/null
                let _ = std::fs::write("/dev/null", format!("MARK {}", a[0]));
                "ok".into()
            }
            "threads" => {
                // number of live fjall worker threads in this process
                let mut n = 0;
                if let Ok(rd) = std::fs::read_dir("/proc/self/task") {
                    for e in rd.filter_map(|e| e.ok()) {
                        if let Ok(c) = std::fs::read_to_string(e.path().join("comm")) {
                            if c.trim().starts_with("fjall:worker") {
                                n += 1;
                            }
                        }
                    }
                }
                format!("workers={n}")
            }
            "fingerprint" => {
                // names, sizes and a content hash of every file below a directory
                fn walk(p: &std::path::Path, out: &mut Vec<String>) {
                    if let Ok(rd) = std::fs::read_dir(p) {
                        let mut es: Vec<_> = rd.filter_map(|e| e.ok()).collect();
                        es.sort_by_key(|e| e.file_name());
                        for e in es {
                            let path = e.path();
                            if path.is_dir() {
                                out.push(format!("{}/", path.display()));
                                walk(&path, out);
                            } else {
                                let data = std::fs::read(&path).unwrap_or_default();
                                let mut h: u64 = 0xcbf29ce484222325;
                                for b in &data {
                                    h ^= u64::from(*b);
                                    h = h.wrapping_mul(0x100000001b3);
                                }
                                out.push(format!("{}:{}:{:x}", path.display(), data.len(), h));
                            }
                        }
                    }
                }
                let mut out = vec![];
                walk(std::path::Path::new(a[0]), &mut out);
                let mut h: u64 = 0xcbf29ce484222325;
                for b in out.join("|").bytes() {
                    h ^= u64::from(b);
                    h = h.wrapping_mul(0x100000001b3);
                }
                format!("files={} hash={:x}", out.len(), h)
            }
            "open2" => {
                // a second, independent open of the same directory while the first handles are alive
                let o = kv(a);
                let mut b = Database::builder(&w.dir);
                if let Some(v) = o.get("workers") {
                    b = b.worker_threads_unchecked(v.parse().expect("workers"));
                }
                match b.open() {
                    Ok(_d) => "ok".into(),
                    Err(e) => format!("err:{}", errname(&e)),
                }
            }
            "ks_keep" => {
                // keep only this keyspace handle alive across close_db_only
                "ok".into()
            }
            "close_db_only" => {
                // drop the database handle (and everything else) but keep the keyspace handles
                w.iters.clear();
                w.snaps.clear();
                w.batches.clear();
                w.otx.clear();
                w.stx.clear();
                w.db = None;
                "ok".into()
            }
            "flip" => {
                // flip <file> <offset> <byte>
                let off: usize = a[1].parse().expect("off");
                let b = u8::from_str_radix(a[2], 16).expect("byte");
                match std::fs::read(a[0]) {
                    Ok(mut d) => {
                        if off < d.len() {
                            let old = d[off];
                            d[off] = b;
                            std::fs::write(a[0], d).expect("write");
                            format!("ok old={old:02x}")
                        } else {
                            "err:Offset".into()
                        }
                    }
                    Err(e) => format!("err:{e}"),
                }
            }
            "truncate" => {
                let n: u64 = a[1].parse().expect("len");
                match std::fs::OpenOptions::new().write(true).open(a[0]) {
                    Ok(f) => match f.set_len(n) {
                        Ok(()) => "ok".into(),
                        Err(e) => format!("err:{e}"),
                    },
                    Err(e) => format!("err:{e}"),
                }
            }
            "filelen" => match std::fs::metadata(a[0]) {
                Ok(m) => format!("len={}", m.len()),
                Err(e) => format!("err:{e}"),
            },
            "ls" => {
                let mut v: Vec<String> = std::fs::read_dir(a[0]).map(|d| d.filter_map(|e| e.ok()).map(|e| e.file_name().to_string_lossy().to_string()).collect()).unwrap_or_default();
                v.sort();
                format!("[{}]", v.join(","))
            }
            "journal_count" => format!("n={}", w.db.as_ref().expect("db").inner().journal_count()),
            "spawn" | "spawn_free" => {
                let pausable = t[0] == "spawn";
                let tid = a[0].to_string();
                let cmd: Vec<String> = a[1..].iter().map(|x| (*x).to_string()).collect();
                let db = w.db.as_ref().expect("db").inner().clone();
                let ks: HashMap<String, Keyspace> = w.ks.iter().map(|(n, k)| (n.clone(), k.inner().clone())).collect();
                let h = std::thread::spawn(move || {
                    fjall::verif::set_thread_pausable(pausable);
                    let t: Vec<&str> = cmd.iter().map(String::as_str).collect();
                    simple_op(&db, &ks, &t).unwrap_or_else(|| "err:NotSpawnable".into())
                });
                threads.insert(tid, h);
                "ok".into()
            }
            "hinsert" | "hremove" | "hremove_weak" | "htake" => {
                // single-operation helpers of the transactional keyspaces (they run their own write transaction)
                let key = unhex(a[1]);
                let val = a.get(2).map(|x| unhex(x)).unwrap_or_default();
                match w.ks.get(a[0]) {
                    Some(Ks::Opt(k)) => match t[0] {
                        "hinsert" => res(&k.insert(key, val)),
                        "hremove" => res(&k.remove(key)),
                        "hremove_weak" => res(&k.remove_weak(key)),
                        _ => match k.take(key) { Ok(Some(v)) => format!("some:{}", hex(&v)), Ok(None) => "none".into(), Err(e) => format!("err:{}", errname(&e)) },
                    },
                    Some(Ks::Single(k)) => match t[0] {
                        "hinsert" => res(&k.insert(key, val)),
                        "hremove" => res(&k.remove(key)),
                        "hremove_weak" => res(&k.remove_weak(key)),
                        _ => match k.take(key) { Ok(Some(v)) => format!("some:{}", hex(&v)), Ok(None) => "none".into(), Err(e) => format!("err:{}", errname(&e)) },
                    },
                    _ => "err:NotTransactional".into(),
                }
            }
            "lz4_values" | "lz4_verify" => {
                // values above the journal compression threshold (4 KiB) whose LZ4 image is shorter than / longer than / EXACTLY as long as the value
                fn gen(n: usize, rep_at: usize, rep_len: usize, seed: u64) -> Vec<u8> {
                    let mut x = seed | 1;
                    let mut v: Vec<u8> = (0..n).map(|_| { x ^= x << 13; x ^= x >> 7; x ^= x << 17; (x >> 24) as u8 }).collect();
                    for i in 0..rep_len { if rep_at + i < n && 100 + i < n { v[rep_at + i] = v[100 + i]; } }
                    v
                }
                let mut vals: Vec<(String, Vec<u8>)> = vec![];
                vals.push(("compressible".into(), vec![0x41u8; 6000]));
                vals.push(("random".into(), gen(5000, 0, 0, 7)));
                fn gen2(total: usize, m: usize, tail: usize, gap: usize, seed: u64) -> Vec<u8> {
                    let mut st = seed;
                    let mut nx = move || { st = st.wrapping_mul(6364136223846793005).wrapping_add(1442695040888963407); (st >> 56) as u8 };
                    let head = total - 2 * m - gap - tail;
                    let mut v: Vec<u8> = (0..head).map(|_| nx()).collect();
                    let x: Vec<u8> = (0..m).map(|_| nx()).collect();
                    v.extend_from_slice(&x);
                    for _ in 0..gap { v.push(nx()); }
                    v.extend_from_slice(&x);
                    for _ in 0..tail { v.push(nx()); }
                    v
                }
                let mut found = None;
                'search: for seed in 1..12u64 {
                    for gap in [64usize, 16, 200] {
                        for tail in 5..40usize {
                            for rep_len in 8..80usize {
                                let v = gen2(5000, rep_len, tail, gap, seed);
                                if lz4_flex::compress(&v).len() == v.len() { found = Some((v, rep_len, seed)); break 'search; }
                            }
                        }
                    }
                }
                let desc = match &found { Some((_, r, sd)) => format!("equal-size value found (repeat {r}, seed {sd})"),
                    None => format!("no equal-size value found {:?}", (20..32usize).map(|r| lz4_flex::compress(&gen(5000, 3000, r, 1)).len()).collect::<Vec<_>>()) };
                if let Some((v, _, _)) = found { vals.push(("equal-size".into(), v)); }
                let Some(k) = w.ks.get(a[0]) else { println!("R {} {} => err:NoKs", ln + 1, t[0]); continue };
                let k = k.inner().clone();
                if t[0] == "lz4_values" {
                    let mut r = String::new();
                    for (name, v) in &vals {
                        if let Err(e) = k.insert(format!("single-{name}"), v.clone()) { r = format!("err:{}", errname(&e)); }
                    }
                    let mut b = w.db.as_ref().expect("db").inner().batch();
                    for (name, v) in &vals { b.insert(&k, format!("batch-{name}"), v.clone()); }
                    if let Err(e) = b.commit() { r = format!("err:{}", errname(&e)); }
                    if r.is_empty() { format!("ok {desc}, lz4 sizes {:?}", vals.iter().map(|(n, v)| (n.clone(), v.len(), lz4_flex::compress(v).len())).collect::<Vec<_>>()) } else { r }
                } else {
                    let mut bad = vec![];
                    for (name, v) in &vals {
                        for pre in ["single", "batch"] {
                            match k.get(format!("{pre}-{name}")) {
                                Ok(Some(got)) if &*got == v.as_slice() => {}
                                Ok(Some(got)) => bad.push(format!("{pre}-{name}: {} bytes read back, {} differ", got.len(), got.iter().zip(v.iter()).filter(|(a, b)| a != b).count())),
                                Ok(None) => bad.push(format!("{pre}-{name}: missing")),
                                Err(e) => bad.push(format!("{pre}-{name}: err:{}", errname(&e))),
                            }
                        }
                    }
                    if bad.is_empty() { "ok".into() } else { bad.join("; ") }
                }
            }
            "wreads" => {
                // wreads <ks> <key>: the point reads and first/last of the TRANSACTIONAL keyspace's own methods next to the inner keyspace's answers
                let key = unhex(a[1]);
                fn show<E: std::fmt::Debug>(g: Result<Option<fjall::UserValue>, E>, s: Result<Option<u32>, E>, c: Result<bool, E>, f: Option<fjall::Guard>, l: Option<fjall::Guard>) -> String {
                    let g = match g { Ok(Some(v)) => format!("some:{}", hex(&v)), Ok(None) => "none".into(), Err(e) => format!("err:{e:?}") };
                    let kv = |x: Option<fjall::Guard>| match x { Some(gd) => match gd.into_inner() { Ok((k, v)) => format!("{}:{}", hex(&k), hex(&v)), Err(e) => format!("err:{e:?}") }, None => "none".into() };
                    format!("get={g};size={:?};contains={:?};first={};last={}", s.ok(), c.ok(), kv(f), kv(l))
                }
                match w.ks.get(a[0]) {
                    Some(Ks::Opt(k)) => {
                        let i = k.inner();
                        format!("w[{}] i[{}]", show(k.get(&key), k.size_of(&key), k.contains_key(&key), k.first_key_value(), k.last_key_value()),
                                show(i.get(&key), i.size_of(&key), i.contains_key(&key), i.first_key_value(), i.last_key_value()))
                    }
                    Some(Ks::Single(k)) => {
                        let i = k.inner();
                        format!("w[{}] i[{}]", show(k.get(&key), k.size_of(&key), k.contains_key(&key), k.first_key_value(), k.last_key_value()),
                                show(i.get(&key), i.size_of(&key), i.contains_key(&key), i.first_key_value(), i.last_key_value()))
                    }
                    _ => "err:NotTransactional".into(),
                }
            }
            "rotate_wait" => match w.ks.get(a[0]) {
                // rotate the memtable and wait until a worker thread has flushed it
                Some(k) => match k.inner().rotate_memtable_and_wait() { Ok(()) => "ok".into(), Err(e) => format!("err:{}", errname(&e)) },
                None => "err:NoKs".into(),
            },
            "l0_runs" => match w.ks.get(a[0]) {
                Some(k) => { use fjall::AbstractTree; format!("n={}", k.inner().tree.l0_run_count()) }
                None => "err:NoKs".into(),
            },
            "bigbatch" => {
                // bigbatch <ks> <n>: one write batch of n items (keys "b" + 8-digit number, 1-byte values)
                let Some(k) = w.ks.get(a[0]) else { println!("R {} bigbatch => err:NoKs", ln + 1); continue };
                let k = k.inner().clone();
                let n: usize = a[1].parse().expect("n");
                let mut b = w.db.as_ref().expect("db").inner().batch();
                for i in 0..n {
                    b.insert(&k, format!("b{i:08}"), [(i % 251) as u8]);
                }
                res(&b.commit())
            }
            "count" => match w.ks.get(a[0]) {
                Some(k) => match k.inner().len() { Ok(n) => format!("n={n}"), Err(e) => format!("err:{}", errname(&e)) },
                None => "err:NoKs".into(),
            },
            "workers_pausable" => {
                fjall::verif::set_workers_pausable(a[0] == "1");
                "ok".into()
            }
            "spawn_close" => {
                // spawn_close <tid>: drop every handle and the database on another thread (Drop may have to wait for parked workers)
                w.iters.clear();
                w.snaps.clear();
                w.batches.clear();
                w.otx.clear();
                w.stx.clear();
                let ks = std::mem::take(&mut w.ks);
                let db = w.db.take();
                let h = std::thread::spawn(move || {
                    drop(ks);
                    drop(db);
                    "ok".to_string()
                });
                threads.insert(a[0].to_string(), h);
                "ok".into()
            }
            "sleep" => {
                std::thread::sleep(std::time::Duration::from_millis(a[0].parse().expect("ms")));
                "ok".into()
            }
            "poisoned" => {
                // poisoned [wait-ms]: polls the poison flag for up to wait-ms
                let ms: u64 = a.first().map(|x| x.parse().expect("ms")).unwrap_or(0);
                let deadline = std::time::Instant::now() + std::time::Duration::from_millis(ms);
                let d = w.db.as_ref().expect("db").inner().clone();
                loop {
                    if fjall::verif::is_poisoned(&d) { break "true".into(); }
                    if std::time::Instant::now() >= deadline { break "false".into(); }
                    std::thread::sleep(std::time::Duration::from_millis(10));
                }
            }
            "tpersist" => {
                // persist through the database handle the scenario opened (transactional wrappers included)
                match w.db.as_ref().expect("db") {
                    Db::Plain(d) => res(&d.persist(persist_mode(a[0]))),
                    Db::Opt(d) => res(&d.persist(persist_mode(a[0]))),
                    Db::Single(d) => res(&d.persist(persist_mode(a[0]))),
                }
            }
            "trace_on" => {
                fjall::verif::trace_enable(true);
                "ok".into()
            }
            "trace_take" => format!("[{}]", fjall::verif::trace_take().join(",")),
            "rmfile" => match std::fs::remove_file(a[0]) {
                Ok(()) => "ok".into(),
                Err(e) => format!("err:{:?}", e.kind()),
            },
            "spawn_rmw" => {
                // spawn_rmw <tid> <ks> <key> <n> [yield]: n read-modify-write transactions (counter += 1) on a transactional database
                let tid = a[0].to_string();
                let key = unhex(a[2]);
                let n: u64 = a[3].parse().expect("n");
                let do_yield = a.get(4).is_some();
                fn parse(v: Option<fjall::UserValue>) -> u64 {
                    v.map(|b| { let mut x = [0u8; 8]; x.copy_from_slice(&b[..8]); u64::from_be_bytes(x) }).unwrap_or(0)
                }
                let h = match (w.db.as_ref().expect("db"), w.ks.get(a[1])) {
                    (Db::Single(d), Some(Ks::Single(k))) => {
                        let (d, k) = (d.clone(), k.clone());
                        std::thread::spawn(move || {
                            for _ in 0..n {
                                let mut t = d.write_tx();
                                let cur = match t.get(&k, &key) { Ok(v) => parse(v), Err(e) => return format!("err:{}", errname(&e)) };
                                if do_yield { std::thread::yield_now(); }
                                t.insert(&k, key.clone(), (cur + 1).to_be_bytes());
                                if let Err(e) = t.commit() { return format!("err:{}", errname(&e)); }
                            }
                            "ok".to_string()
                        })
                    }
                    (Db::Opt(d), Some(Ks::Opt(k))) => {
                        let (d, k) = (d.clone(), k.clone());
                        std::thread::spawn(move || {
                            let mut conflicts = 0u64;
                            for _ in 0..n {
                                loop {
                                    let mut t = match d.write_tx() { Ok(t) => t, Err(e) => return format!("err:{}", errname(&e)) };
                                    let cur = match t.get(&k, &key) { Ok(v) => parse(v), Err(e) => return format!("err:{}", errname(&e)) };
                                    if do_yield { std::thread::yield_now(); }
                                    t.insert(&k, key.clone(), (cur + 1).to_be_bytes());
                                    match t.commit() {
                                        Ok(Ok(())) => break,
                                        Ok(Err(_)) => { conflicts += 1; continue }
                                        Err(e) => return format!("err:{}", errname(&e)),
                                    }
                                }
                            }
                            format!("ok conflicts={conflicts}")
                        })
                    }
                    _ => { println!("R {} spawn_rmw => err:NotTransactional", ln + 1); continue }
                };
                threads.insert(tid, h);
                "ok".into()
            }
            "join_timeout" => {
                // join_timeout <tid> <ms>: result if the thread finished within <ms>, else "pending" (thread stays registered)
                let ms: u64 = a.get(1).map(|x| x.parse().expect("ms")).unwrap_or(300);
                let deadline = std::time::Instant::now() + std::time::Duration::from_millis(ms);
                loop {
                    if threads.get(a[0]).map(|h| h.is_finished()).unwrap_or(true) {
                        break match threads.remove(a[0]) {
                            Some(h) => h.join().unwrap_or_else(|_| "err:ThreadPanicked".into()),
                            None => "err:NoThread".into(),
                        };
                    }
                    if std::time::Instant::now() >= deadline {
                        break "pending".into();
                    }
                    std::thread::sleep(std::time::Duration::from_millis(5));
                }
            }
            "join" => match threads.remove(a[0]) {
                Some(h) => h.join().unwrap_or_else(|_| "err:ThreadPanicked".into()),
                None => "err:NoThread".into(),
            },
            "arm_pause" => {
                fjall::verif::arm_pause(a[0]);
                "ok".into()
            }
            "wait_parked" => {
                let ms: u64 = a.get(1).map(|x| x.parse().expect("ms")).unwrap_or(5000);
                if fjall::verif::wait_parked(a[0], ms) {
                    "ok".into()
                } else {
                    "err:NotParked".into()
                }
            }
            "release" => {
                fjall::verif::release_pause(a[0]);
                "ok".into()
            }
            "kiter" => {
                // kiter <id> <ks> <iter|range|prefix> [prefix-hex]
                let k = w.ks.get(a[1]).expect("ks").inner().clone();
                let p = a.get(3).map(|x| unhex(x)).unwrap_or_else(|| vec![0x6b]);
                let it = match a[2] {
                    "range" => k.range(p.clone()..prefix_end(&p)),
                    "prefix" => k.prefix(p),
                    _ => k.iter(),
                };
                w.iters.insert(a[0].to_string(), it);
                "ok".into()
            }
            "it_next" => fmt_guard(w.iters.get_mut(a[0]).expect("iter").next()),
            "it_next_back" => fmt_guard(w.iters.get_mut(a[0]).expect("iter").next_back()),
            "it_rest" => match w.iters.remove(a[0]) {
                Some(it) => collect(it),
                None => "err:NoIter".into(),
            },
            "it_drop" => {
                w.iters.remove(a[0]);
                "ok".into()
            }
            "view_read" => {
                // view_read <view> <ks> <method> <key> [tag]
                let k = w.ks.get(a[1]).expect("ks").inner().clone();
                let key = unhex(a[3]);
                if let Some(s) = w.snaps.get(a[0]) {
                    read_view(s, &k, a[2], &key)
                } else if let Some(t) = w.otx.get(a[0]) {
                    read_view(t, &k, a[2], &key)
                } else if let Some(t) = w.stx.get(a[0]) {
                    read_view(t, &k, a[2], &key)
                } else {
                    "err:NoView".into()
                }
            }
            "snap_dump" => {
                let s = w.snaps.get(a[0]).expect("snap");
                let k = w.ks.get(a[1]).expect("ks").inner();
                collect(s.iter(k))
            }
            "tx" => {
                let id = a[0].to_string();
                match a[1] {
                    "begin" => match w.db.as_ref().expect("db") {
                        Db::Opt(d) => match d.write_tx() {
                            Ok(t) => {
                                w.otx.insert(id, t);
                                "ok".into()
                            }
                            Err(e) => format!("err:{}", errname(&e)),
                        },
                        Db::Single(d) => {
                            // the transaction borrows the database handle; handles are dropped before the database in close()
                            let d2: &'static SingleWriterTxDatabase = unsafe { &*(d as *const SingleWriterTxDatabase) };
                            w.stx.insert(id, d2.write_tx());
                            "ok".into()
                        }
                        Db::Plain(_) => "err:NotTransactional".into(),
                    },
                    "insert" | "remove" | "remove_weak" | "take" | "fetch_update" | "update_fetch" | "update_fetch_none" => {
                        let key = unhex(a[3]);
                        let val = a.get(4).map(|x| unhex(x)).unwrap_or_default();
                        if let Some(t) = w.otx.get_mut(&id) {
                            let Some(Ks::Opt(k)) = w.ks.get(a[2]) else { println!("R {} tx => err:NoKs", ln + 1); continue };
                            match a[1] {
                                "insert" => { t.insert(k, key, val); "ok".into() }
                                "remove" => { t.remove(k, key); "ok".into() }
                                "remove_weak" => { t.remove_weak(k, key); "ok".into() }
                                "take" => match t.take(k, key) { Ok(Some(v)) => format!("some:{}", hex(&v)), Ok(None) => "none".into(), Err(e) => format!("err:{}", errname(&e)) },
                                "fetch_update" => match t.fetch_update(k, key, |_| Some(val.clone().into())) { Ok(Some(v)) => format!("some:{}", hex(&v)), Ok(None) => "none".into(), Err(e) => format!("err:{}", errname(&e)) },
                                "update_fetch_none" => match t.update_fetch(k, key, |_| None) { Ok(Some(v)) => format!("some:{}", hex(&v)), Ok(None) => "none".into(), Err(e) => format!("err:{}", errname(&e)) },
                                _ => match t.update_fetch(k, key, |_| Some(val.clone().into())) { Ok(Some(v)) => format!("some:{}", hex(&v)), Ok(None) => "none".into(), Err(e) => format!("err:{}", errname(&e)) },
                            }
                        } else if let Some(t) = w.stx.get_mut(&id) {
                            let Some(Ks::Single(k)) = w.ks.get(a[2]) else { println!("R {} tx => err:NoKs", ln + 1); continue };
                            match a[1] {
                                "insert" => { t.insert(k, key, val); "ok".into() }
                                "remove" => { t.remove(k, key); "ok".into() }
                                "remove_weak" => { t.remove_weak(k, key); "ok".into() }
                                "take" => match t.take(k, key) { Ok(Some(v)) => format!("some:{}", hex(&v)), Ok(None) => "none".into(), Err(e) => format!("err:{}", errname(&e)) },
                                "fetch_update" => match t.fetch_update(k, key, |_| Some(val.clone().into())) { Ok(Some(v)) => format!("some:{}", hex(&v)), Ok(None) => "none".into(), Err(e) => format!("err:{}", errname(&e)) },
                                "update_fetch_none" => match t.update_fetch(k, key, |_| None) { Ok(Some(v)) => format!("some:{}", hex(&v)), Ok(None) => "none".into(), Err(e) => format!("err:{}", errname(&e)) },
                                _ => match t.update_fetch(k, key, |_| Some(val.clone().into())) { Ok(Some(v)) => format!("some:{}", hex(&v)), Ok(None) => "none".into(), Err(e) => format!("err:{}", errname(&e)) },
                            }
                        } else {
                            "err:NoTx".into()
                        }
                    }
                    "range_b" => {
                        // tx <id> range_b <ks> <i|e|u> <lo> <i|e|u> <hi>
                        use std::ops::Bound;
                        let k = w.ks.get(a[2]).expect("ks").inner().clone();
                        let mk = |kind: &str, key: &str| match kind {
                            "i" => Bound::Included(unhex(key)),
                            "e" => Bound::Excluded(unhex(key)),
                            _ => Bound::Unbounded,
                        };
                        let rng = (mk(a[3], a[4]), mk(a[5], a[6]));
                        if let Some(t) = w.otx.get(&id) {
                            collect(t.range(&k, rng))
                        } else if let Some(t) = w.stx.get(&id) {
                            collect(t.range(&k, rng))
                        } else {
                            "err:NoTx".into()
                        }
                    }
                    "get" | "contains_key" | "size_of" | "iter" | "range" | "prefix" | "first_key_value" | "last_key_value" | "len" | "is_empty" | "range_key" | "prefix_key" | "iter_rev" => {
                        let k = w.ks.get(a[2]).expect("ks").inner().clone();
                        let key = a.get(3).map(|x| unhex(x)).unwrap_or_default();
                        if let Some(t) = w.otx.get(&id) {
                            read_view(t, &k, a[1], &key)
                        } else if let Some(t) = w.stx.get(&id) {
                            read_view(t, &k, a[1], &key)
                        } else {
                            "err:NoTx".into()
                        }
                    }
                    "commit" => {
                        if let Some(t) = w.otx.remove(&id) {
                            match t.commit() {
                                Ok(Ok(())) => "ok".into(),
                                Ok(Err(_)) => "conflict".into(),
                                Err(e) => format!("err:{}", errname(&e)),
                            }
                        } else if let Some(t) = w.stx.remove(&id) {
                            res(&t.commit())
                        } else {
                            "err:NoTx".into()
                        }
                    }
                    "spawn_commit" | "spawn_commit_free" => {
                        // commit an optimistic transaction on its own thread (pausable or not): tx <id> spawn_commit <thread-id>
                        let pausable = a[1] == "spawn_commit";
                        if let Some(t) = w.otx.remove(&id) {
                            let h = std::thread::spawn(move || {
                                fjall::verif::set_thread_pausable(pausable);
                                match t.commit() {
                                    Ok(Ok(())) => "ok".to_string(),
                                    Ok(Err(_)) => "conflict".to_string(),
                                    Err(e) => format!("err:{}", errname(&e)),
                                }
                            });
                            threads.insert(a[2].to_string(), h);
                            "ok".into()
                        } else {
                            "err:NoTx".into()
                        }
                    }
                    "rollback" => {
                        if let Some(t) = w.otx.remove(&id) {
                            t.rollback();
                            "ok".into()
                        } else if let Some(t) = w.stx.remove(&id) {
                            t.rollback();
                            "ok".into()
                        } else {
                            "err:NoTx".into()
                        }
                    }
                    "drop" => {
                        w.otx.remove(&id);
                        w.stx.remove(&id);
                        "ok".into()
                    }
                    "durability" => {
                        // tx <id> durability <buffer|syncdata|syncall|none>
                        let m = if a[2] == "none" { None } else { Some(persist_mode(a[2])) };
                        if let Some(t) = w.otx.remove(&id) {
                            w.otx.insert(id, t.durability(m));
                            "ok".into()
                        } else if let Some(t) = w.stx.remove(&id) {
                            w.stx.insert(id, t.durability(m));
                            "ok".into()
                        } else {
                            "err:NoTx".into()
                        }
                    }
                    _ => "err:BadCmd".into(),
                }
            }
            "read_tx" => {
                let s = match w.db.as_ref().expect("db") {
                    Db::Opt(d) => d.read_tx(),
                    Db::Single(d) => d.read_tx(),
                    Db::Plain(d) => d.snapshot(),
                };
                w.snaps.insert(a[0].to_string(), s);
                "ok".into()
            }
            "gc" => {
                fjall::verif::gc(w.db.as_ref().expect("db").inner());
                format!("ok watermark={}", fjall::verif::gc_watermark(w.db.as_ref().expect("db").inner()))
            }
            "open_snapshots" => format!("n={}", fjall::verif::open_snapshots(w.db.as_ref().expect("db").inner())),
            "watermark" => format!("w={}", fjall::verif::gc_watermark(w.db.as_ref().expect("db").inner())),
            "seqno" => {
                let d = w.db.as_ref().expect("db").inner();
                format!("seqno={} visible={}", d.seqno(), d.visible_seqno())
            }
            "rotation_threshold" => {
                fjall::verif::set_rotation_threshold(a[0].parse().expect("threshold"));
                "ok".into()
            }
            "maxseq" => {
                let d = w.db.as_ref().expect("db").inner();
                match fjall::verif::highest_present_seqno(d) {
                    Some(s) => format!("max={s}"),
                    None => "none".into(),
                }
            }
            "rotate" => match w.ks.get(a[0]) {
                Some(k) => match k.inner().rotate_memtable() {
                    Ok(b) => format!("ok rotated={b}"),
                    Err(e) => format!("err:{}", errname(&e)),
                },
                None => "err:NoKs".into(),
            },
            "worker_step" => match fjall::verif::worker_step(w.db.as_ref().expect("db").inner()) {
                Ok(Some(_)) => "ok ran".into(),
                Ok(None) => "ok empty".into(),
                Err(e) => format!("err:{}", errname(&e)),
            },
            "worker_drain" => {
                let mut n = 0;
                let mut out = String::from("ok");
                loop {
                    match fjall::verif::worker_step(w.db.as_ref().expect("db").inner()) {
                        Ok(Some(_)) => n += 1,
                        Ok(None) => break,
                        Err(e) => {
                            out = format!("err:{}", errname(&e));
                            break;
                        }
                    }
                    if n > 200 {
                        break;
                    }
                }
                format!("{out} steps={n}")
            }
            "major_compact" => match w.ks.get(a[0]) {
                Some(k) => res(&k.inner().major_compact()),
                None => "err:NoKs".into(),
            },
            "snapshot" => {
                let s = w.db.as_ref().expect("db").inner().snapshot();
                w.snaps.insert(a[0].to_string(), s);
                "ok".into()
            }
            "snap_get" => {
                let s = w.snaps.get(a[0]).expect("snap");
                let k = w.ks.get(a[1]).expect("ks").inner();
                match s.get(k, unhex(a[2])) {
                    Ok(Some(v)) => format!("some:{}", hex(&v)),
                    Ok(None) => "none".into(),
                    Err(e) => format!("err:{}", errname(&e)),
                }
            }
            "snap_drop" => {
                w.snaps.remove(a[0]);
                "ok".into()
            }
            _ => {
                let r = w.db.as_ref().and_then(|d| {
                    let ks: HashMap<String, Keyspace> = w.ks.iter().map(|(n, k)| (n.clone(), k.inner().clone())).collect();
                    simple_op(d.inner(), &ks, &t)
                });
                r.unwrap_or_else(|| format!("err:UnknownCommand:{}", t[0]))
            }
        };
        println!("R {} {} => {}", ln + 1, t[0], out);
    }
    w.close();
}
