"""C02 — acknowledged writes survive a process crash, in commit order.

M obligations:
  WAL/<op>            every writer (insert / remove / remove_weak / clear / WriteBatch::commit): on each acknowledged path the complete journal unit is
                      appended and — unless the keyspace asks for manual journal persist — flushed to the OS BEFORE the first memtable apply and before
                      the call returns; seqno draw, append, flush and apply happen under one hold of the journal lock (so journal order = seqno order =
                      commit order); on a path that returns an error before the append nothing is applied
  J1/<op>             the journal unit carries the drawn seqno, the keyspace id, kind, key and value of the call (so replay reproduces the write)
  journals/order      recover_journals over a symbolic directory (3 entries, symbolic ids, any of them *.jnl): the active journal is the one with the highest
                      id, the sealed list holds all others in ascending id order, other files are ignored
  recover/order       Database::recover replays the sealed journals (in that order) before the active journal, keyspaces first
  rotate/next-id      Writer::rotate names the new journal <old id + 1>.jnl in the same folder (so id order is age order)
  (torn tails: C03; replay rule and its order inside a journal: C04; counters: C11; eviction: C10; fail-stop on journal errors: C13)
Native replay: process-crash images (copy of the directory while the process lives) taken after every step of workloads with single writes, batches,
clears, keyspace creation/deletion, memtable rotation, flush, compaction, journal rotation and eviction; each image must reopen and equal the acknowledged state.
"""
import itertools
import z3
from ..core import ret_is_err, ret_is_ok, obj_name
from ..symex import Obj, EnumV, Ref, Cell, Ev, deref, bv
from ..contract import mk_seq, seq_items
from . import common as C
from . import writepath as W
from . import oracle
from . import crashimg


def manual_flag(p):
    m = None
    for c in p.pc:
        s = str(c)
        if 'manual_journal_persist' in s:
            m = not s.startswith('Not(')
    return m


def check_wal(ctx, op):
    ob = ctx.ob(f'WAL/{op}', f'{op}: journal unit appended and (automatic persist) flushed to the OS before the first memtable apply and before Ok; all under one hold of the journal lock', [C.WRITERS[op]])
    kw = dict(n_items=2, value_types=['Value']) if op == 'batch' else {}
    ex, paths, recs = W.run_op(ctx, op, **kw)
    if C.incomplete(paths):
        ob.status = 'undecided'; ob.detail = 'executor: ' + str(C.incomplete(paths)[0].notes[-1:]); return
    bad = []
    for r in recs:
        p = r.p
        if r.ok is None:
            continue
        if not r.ok:
            # an error path must not have applied anything unless the unit is complete in the journal (fail-stop details: C13)
            continue
        ob.reach += 1
        if not r.appends:
            bad.append((p, 'acknowledged without a journal append')); continue
        if not r.tree:
            bad.append((p, 'acknowledged without applying the write')); continue
        first_apply = r.tree[0].idx
        if any(a.idx > first_apply for a in r.appends):
            bad.append((p, 'the memtable is written before the journal unit is complete (a flush of that memtable can reach disk while the journal lacks the record)')); continue
        man = manual_flag(p)
        fl = [e for e in r.flushes if e.idx > r.appends[-1].idx]
        if op == 'batch':
            # a WriteBatch built by hand with durability None asks for manual persistence; Database::batch and the transaction constructors set Some(Buffer) by default (defaults/durability)
            fr = p.st.frames[0] if p.st.frames else None
            wb = deref(fr.locals[fr.fn.args[0]].val) if fr else None
            names = ex.src.struct_fields('batch::WriteBatch')
            d = wb.fields.get(names.index('durability')) if isinstance(wb, Obj) else None
            d = d.val if d is not None else None
            if isinstance(d, EnumV):
                disc = bv(d.disc) if isinstance(d.disc, int) else d.disc
                man = ctx.sat(p.pc + [disc == 1], ob)[0] != z3.sat
            else:
                man = None
        if man is not True:
            if not fl:
                bad.append((p, 'acknowledged although the journal buffer was never flushed to the OS (automatic persist): a process crash loses an acknowledged write')); continue
            if fl[0].idx > first_apply:
                bad.append((p, 'the memtable is written before the journal unit is flushed to the OS')); continue
        locks = r.locks
        if not locks or locks[0].idx > r.appends[0].idx or (r.nexts and locks[0].idx > r.nexts[0].idx):
            bad.append((p, 'seqno draw / journal append outside the journal lock')); continue
        ul = [u for u in r.unlocks if u.idx > locks[0].idx]
        if ul and ul[0].idx < r.tree[-1].idx:
            bad.append((p, 'the journal lock is released before the write is applied: commit order and apply order can differ')); continue
    if ob.reach == 0:
        ob.status = 'undecided'; ob.detail = 'vacuous'
    elif not bad:
        ob.status = 'discharged'; ob.sample = {'ok_paths': ob.reach}
    else:
        p, why = bad[0]
        ctx.candidate(ob, f'{op}/not-write-ahead', f'{ob.id}: {why}; events: ' + ' · '.join(e.kind for e in p.events)[:200], confirm=lambda: native_crash(ctx))


def check_default_durability(ctx):
    """batches and write transactions are created with durability Some(Buffer) unless the database is configured for manual journal persist"""
    for name, pat, ty in (('Database::batch', r'^db::<impl>::batch$', 'batch::WriteBatch'),
                          ('OptimisticTxDatabase::write_tx', r'^(tx::)?optimistic::<impl>::write_tx$', None),
                          ('SingleWriterTxDatabase::write_tx', r'^(tx::)?single_writer::<impl>::write_tx$', None)):
        ob = ctx.ob(f'defaults/durability-{name.split("::")[0]}', f'{name}: the returned batch/transaction carries durability Some(Buffer) unless manual_journal_persist is set', [pat])
        try:
            ex, paths = ctx.run(pat, cache_key='c02.' + name, loop_bound=2)
        except KeyError as e:
            ob.status = 'undecided'; ob.detail = f'function not found: {e}'; continue
        bad = []
        from .c05 import find_objs
        for p in paths:
            if p.status != 'returned':
                continue
            man = manual_flag(p)
            ret = p.ret
            if isinstance(ret, EnumV) and 'Ok' in ret.payloads:
                if ctx.sat(p.pc + [ret_is_ok(p)], ob)[0] != z3.sat:
                    continue
                ret = ret.payloads['Ok'].fields[0].val
            ob.reach += 1
            durs = []
            for o in find_objs(ret, lambda o: o.ty.split('<')[0].endswith(('WriteBatch', 'BaseTransaction'))):
                nm = ex.src.struct_fields(o.ty.split('<')[0])
                if 'durability' in nm and nm.index('durability') in o.fields:
                    durs.append(o.fields[nm.index('durability')].val)
            if not durs:
                bad.append((p, 'no durability field found in the returned object')); continue
            d = durs[0]
            some = isinstance(d, EnumV) and ctx.sat(p.pc + [(bv(d.disc) if isinstance(d.disc, int) else d.disc) != 1], ob)[0] == z3.unsat
            if man is not True and not some:
                bad.append((p, 'created without durability although manual journal persist is off: its commit is acknowledged while the journal unit is still in the process buffer'))
            if some:
                mode = d.payloads['Some'].fields[0].val if 'Some' in d.payloads and 0 in d.payloads['Some'].fields else None
                if not isinstance(mode, EnumV):
                    bad.append((p, 'durability mode unknown'))
        finish(ctx, ob, bad, f'{name}/no-default-durability')


# ------------------------------------------------------------------ journal discovery order
N_DIR = 3


def check_journal_order(ctx, confirm=None):
    pat = r'^journal::recovery::recover_journals$|^recover_journals$'
    ob = ctx.ob('journals/order', 'recover_journals: active = the *.jnl file with the highest id; sealed = all other *.jnl files in ascending id order; other files ignored', [pat])
    N_DIR = 3 if ctx.tier == 'quick' else 4
    ids = [z3.BitVec(f'file{i}.id', 64) for i in range(N_DIR)]
    isj = [z3.Bool(f'file{i}.is_jnl') for i in range(N_DIR)]

    def idx_of(v):
        v = deref(v); seen = 0
        while isinstance(v, Obj) and 'idx' not in v.data and 'of' in v.data and seen < 6:
            v = v.data['of']; seen += 1
        return v.data.get('idx') if isinstance(v, Obj) else None

    def ov_read_dir(ex, st, call):
        ents = []
        for i in range(N_DIR):
            d = Obj('std::fs::DirEntry', f'dirent{i}', 'opaque'); d.data['idx'] = i
            ents.append(ex.mk_enum('Result<DirEntry, io::Error>', 'Ok', [d]))
        for a, b in itertools.combinations(range(N_DIR), 2):
            st.pc.append(ids[a] != ids[b])
        for x in ids:
            st.pc.append(z3.ULT(x, bv(2 ** 62)))
        return ex.mk_enum(call.dst_ty, 'Ok', [mk_seq('std::fs::ReadDir', ents, 'read_dir')])

    def derived(name, ty, wrap=None):
        def f(ex, st, call):
            src = deref(call.args[0])
            o = Obj(ty, f'{name}{idx_of(src)}', 'opaque' if ty != 'str' else 'str'); o.data['of'] = src; o.data['idx'] = idx_of(src)
            if wrap == 'some':
                return ex.mk_enum(call.dst_ty, 'Some', [Ref(Cell(o))])
            if wrap == 'ref':
                return Ref(Cell(o))
            return o
        return f

    def name_rank(i):
        # order of the file names "<id>.jnl" as byte strings: decimal digits compared left to right, the '.' after a shorter number sorts before any digit.
        # Exact for ids < 1000; above that the model assumes the numeric order (stated bound).
        x = ids[i]
        u, t, h = z3.URem(x, bv(10)), z3.URem(z3.UDiv(x, bv(10)), bv(10)), z3.UDiv(x, bv(100))
        lex = z3.If(z3.ULT(x, bv(10)), (u + 1) * 121, z3.If(z3.ULT(x, bv(100)), (t + 1) * 121 + (u + 1) * 11, z3.If(z3.ULT(x, bv(1000)), (h + 1) * 121 + (t + 1) * 11 + (u + 1), x + 2000)))
        return z3.If(isj[i], lex, z3.BitVec(f'file{i}.name_rank', 64))

    def ov_file_name(ex, st, call):
        o = derived('file_name', 'std::ffi::OsString')(ex, st, call)
        if o.data.get('idx') is not None:
            o.data['sort_rank'] = name_rank(o.data['idx'])
        return o

    def ov_extension(ex, st, call):
        i = idx_of(call.args[0])
        o = Obj('std::ffi::OsStr', f'ext{i}', 'opaque'); o.data['idx'] = i
        return ex.mk_enum(call.dst_ty, 'Some', [Ref(Cell(o))])

    def ov_is_jnl(ex, st, call):
        i = idx_of(call.args[0])
        return isj[i] if i is not None else NotImplemented

    def ov_strip(ex, st, call):
        i = idx_of(call.args[0])
        o = Obj('str', f'basename{i}', 'str'); o.data['idx'] = i
        return ex.mk_enum(call.dst_ty, 'Some', [Ref(Cell(o))])

    def ov_parse(ex, st, call):
        i = idx_of(call.args[0])
        return ex.mk_enum(call.dst_ty, 'Ok', [ids[i]]) if i is not None else NotImplemented

    def ov_file_type(ex, st, call):
        return ex.mk_enum(call.dst_ty, 'Ok', [Obj('std::fs::FileType', 'ft', 'opaque')])

    def ov_true(ex, st, call):
        return z3.BoolVal(True)

    def ov_from_file(ex, st, call):
        j = Obj('journal::Journal', 'active_journal', 'struct'); j.data['path'] = deref(call.args[0])
        st.emit(Ev('JOURNAL_FROM_FILE', args={'path': deref(call.args[0])}, site=call.site))
        return ex.mk_enum(call.dst_ty, 'Ok', [j])

    def ov_create_new(ex, st, call):
        j = Obj('journal::Journal', 'new_journal', 'struct')
        st.emit(Ev('JOURNAL_CREATE', args={'path': deref(call.args[0])}, site=call.site))
        return ex.mk_enum(call.dst_ty, 'Ok', [j])

    def ov_with_compression(ex, st, call):
        return call.args[0]
    ex, paths = ctx.run(pat, cache_key='c02.recover_journals', loop_bound=N_DIR + 2, overrides=[
        (r'^(std::fs::)?read_dir$', ov_read_dir), (r'DirEntry::path$', derived('path', 'std::path::PathBuf')), (r'DirEntry::file_name$', ov_file_name),
        (r'<OsString as Deref>::deref$', derived('os_str', 'std::ffi::OsStr', 'ref')), (r'OsStr::to_str$|OsString::to_str$', derived('name', 'str', 'some')),
        (r'Path::new$', derived('as_path', 'std::path::Path', 'ref')), (r'Path::extension$', ov_extension), (r'eq_ignore_ascii_case$', ov_is_jnl),
        (r'str::strip_suffix$|core::str::<impl str>::strip_suffix$', ov_strip), (r'str::parse$|core::str::<impl str>::parse$', ov_parse),
        (r'DirEntry::file_type$', ov_file_type), (r'FileType::is_file$', ov_true),
        (r'Journal::from_file$', ov_from_file), (r'Journal::create_new$', ov_create_new), (r'Journal::with_compression$', ov_with_compression)])
    bad = []
    inc = [p for p in paths if p.status in ('error', 'timeout', 'loop_bound')]
    if inc:
        ob.status = 'undecided'; ob.detail = f'executor: {inc[0].status} {inc[0].notes[-1:]}'; return
    rn = ex.src.struct_fields('journal::recovery::RecoveryResult')
    for p in paths:
        if p.status != 'returned' or ctx.sat(p.pc + [ret_is_ok(p)], ob)[0] != z3.sat:
            continue
        ob.reach += 1
        rr = deref(p.ret.payloads['Ok'].fields[0].val)
        sealed = seq_items(deref(rr.fields[rn.index('sealed')].val))
        ff = [e for e in p.events if e.kind == 'JOURNAL_FROM_FILE']
        created = [e for e in p.events if e.kind == 'JOURNAL_CREATE']
        jn = [i for i in range(N_DIR) if ctx.sat(p.pc + [isj[i]], ob)[0] == z3.sat]
        definite = all(ctx.sat(p.pc + [z3.Not(isj[i])], ob)[0] != z3.sat for i in jn)
        if not definite:
            bad.append((p, 'whether a file is a journal is not decided on this path')); continue
        if sealed is None:
            bad.append((p, 'sealed list unknown')); continue
        got = []
        for c in sealed:
            t = deref(c.val)
            got.append((t.fields[0].val, idx_of(t.fields[1].val)))
        if not jn:
            if ff or got or not created:
                bad.append((p, 'no journal file exists, but something is recovered / nothing is created'))
            continue
        if len(ff) != 1:
            bad.append((p, f'{len(ff)} active journals opened')); continue
        ai = idx_of(ff[0].args['path'])
        if ai is None or ai not in jn:
            bad.append((p, 'the active journal is not one of the journal files')); continue
        others = [i for i in jn if i != ai]
        if any(ctx.sat(p.pc + [z3.UGT(ids[i], ids[ai])], ob)[0] != z3.unsat for i in others):
            bad.append((p, 'the journal opened as active is not the one with the highest id: newer records are replayed before older ones, and new writes go to an old file')); continue
        if sorted(i for _k, i in got) != sorted(others):
            bad.append((p, f'sealed journals {[i for _k, i in got]} do not cover the remaining journal files {others}')); continue
        for (ka, ia), (kb, ib) in zip(got, got[1:]):
            if ctx.sat(p.pc + [z3.Not(z3.ULT(ids[ia], ids[ib]))], ob)[0] != z3.unsat:
                bad.append((p, 'sealed journals are not in ascending id order: an older record can overwrite a newer one during replay')); break
    finish(ctx, ob, bad, 'journals/wrong-order', confirm)


def check_recover_order(ctx):
    from . import recov
    ob = ctx.ob('recover/order', 'Database::recover: keyspaces are recovered first, then the sealed journals in the order given by recover_journals, then the active journal', ['db::<impl>::recover'])
    ex, paths, env = recov.run_recover(ctx, n_ks=1, shape=((1, 0),), sealed_shape=None, track_sealed_call=True)
    bad = []
    for p in paths:
        if p.status != 'returned' or ctx.sat(p.pc + [ret_is_ok(p)], ob)[0] != z3.sat:
            continue
        ob.reach += 1
        rk = [e for e in p.events if e.kind == 'RECOVER_KEYSPACES']
        sl = [e for e in p.events if e.kind == 'RECOVER_SEALED']
        gr = [e for e in p.events if e.kind == 'GET_READER']
        tw = [e for e in p.events if e.kind in W.TREE_WRITES]
        if not rk or not sl or not gr:
            bad.append((p, f'recovery skips a phase (keyspaces={len(rk)}, sealed={len(sl)}, active={len(gr)})')); continue
        if not (rk[0].idx < sl[0].idx < gr[0].idx):
            bad.append((p, 'phases out of order: the active journal is replayed before the sealed journals (older records overwrite newer ones) or before the keyspaces exist')); continue
        if sl[0].args.get('order') != ['sealed0.path', 'sealed1.path']:
            bad.append((p, f'sealed journals are handed to replay as {sl[0].args.get("order")}, not in the order recover_journals returned them')); continue
    finish(ctx, ob, bad, 'recover/phase-order')


def check_rotate_id(ctx):
    pat = r'writer::<impl>::rotate$'
    ob = ctx.ob('rotate/next-id', 'Writer::rotate: the new journal is <old id + 1>.jnl in the same folder', [pat])
    from .c09 import writer_obj
    fn = ctx.prog.find(pat)
    oid = z3.BitVec('old.id', 64)

    def ov_parse(ex, st, call):
        return ex.mk_enum(call.dst_ty, 'Ok', [oid])

    def ov_to_string(ex, st, call):
        o = Obj('std::string::String', 'id_string', 'str'); o.data['of_value'] = deref(call.args[0])
        return o

    def ov_format(ex, st, call):
        return NotImplemented
    ex = ctx.executor(loop_bound=2, overrides=[(r'str::parse$|core::str::<impl str>::parse$', ov_parse), (r'<u64 as ToString>::to_string$', ov_to_string)])

    def setup(ex_, st, fr):
        w = writer_obj(ex_, st, z3.Bool('dirty_pre'))
        st.pc.append(z3.ULT(oid, bv(2 ** 62)))
        fr.locals[fn.args[0]] = Cell(Ref(Cell(w)))
    paths = ex.run(fn, setup=setup)
    ctx.functions_encoded[fn.key] = ctx.prog.hashes.get(fn.name, '')
    ctx.paths_total += len(paths); ctx.solver_s += ex.stats['solver_s']; ctx.queries += ex.stats['solver_calls']
    bad = []
    for p in paths:
        if p.status != 'returned' or ctx.sat(p.pc + [ret_is_ok(p)], ob)[0] != z3.sat:
            continue
        ob.reach += 1
        opens = [e for e in p.events if e.kind == 'F_OPEN']
        fmts = [e for e in p.events if e.kind in ('CALL', 'FORMAT') and ('format' in e.args.get('callee', '') or e.kind == 'FORMAT')]
        # the id that reaches the new file name: any value formatted / stringified on the path
        vals = []
        for e in p.events:
            for a in (e.args.get('args') or []):
                a = deref(a)
                if z3.is_bv(a) and a.size() == 64:
                    vals.append(a)
                if isinstance(a, Obj) and 'of_value' in a.data and z3.is_expr(a.data['of_value']):
                    vals.append(a.data['of_value'])
                if isinstance(a, Obj):
                    vals.extend(x for x in a.data.get('fmt_args', []) if z3.is_bv(x) and x.size() == 64)
            if e.kind == 'FORMAT':
                for a in e.args.get('vals', []):
                    if z3.is_bv(a):
                        vals.append(a)
        if not opens:
            bad.append((p, 'no new journal is created')); continue
        nxt = [v for v in vals if ctx.sat(p.pc + [v != oid + 1], ob)[0] == z3.unsat]
        if not nxt:
            bad.append((p, f'the new journal\'s name is not built from old id + 1 (values seen: {[str(z3.simplify(v))[:40] for v in vals][:4]})')); continue
    finish(ctx, ob, bad, 'Writer.rotate/journal-id')


def finish(ctx, ob, bad, role, confirm=None):
    if ob.reach == 0:
        ob.status = 'undecided'; ob.detail = ob.detail or 'vacuous'
    elif not bad:
        ob.status = 'discharged'; ob.sample = {'ok_paths': ob.reach}
    else:
        ctx.candidate(ob, role, f'{ob.id}: {bad[0][1]}', confirm=confirm or (lambda: native_crash(ctx)))


# ------------------------------------------------------------------ native
def crash_programs():
    A, B = 'a', 'b'
    k1, k2, k3, k4, k5 = oracle.KEYS
    X = ('crash',)
    T = ('threshold', 0)
    P = {}
    P['singles'] = [('ks', A), X, ('insert', A, k1, '31'), X, ('insert', A, k2, '32'), X, ('remove', A, k1), X, ('remove_weak', A, k2), X, ('insert', A, k3, ''), X]
    P['batches-two-keyspaces'] = [('ks', A), ('ks', B), X, ('batch', [('insert', A, k1, '31'), ('insert', B, k1, '41')]), X, ('batch', [('remove', A, k1), ('insert', B, k2, '42'), ('insert', A, k2, '32')]), X,
                                  ('insert', B, k3, '43'), X]
    P['clear-and-recreate'] = [('ks', A), ('ks', B), ('insert', A, k1, '31'), ('insert', B, k1, '41'), X, ('clear', A), X, ('insert', A, k2, '32'), X, ('delete_ks', B), X, ('ks', B), X, ('insert', B, k2, '42'), X]
    P['maintenance'] = [('ks', A), ('ks', B), ('insert', A, k1, '31'), ('insert', B, k1, '41'), ('rotate', A), X, ('flush',), X, ('insert', A, k1, '3132'), ('remove', B, k1), X, ('rotate', A), ('flush',), X,
                        ('major_compact', A), X, ('insert', A, k2, '32'), X]
    P['journal-rotation-and-eviction'] = [T, ('ks', A), ('ks', B), ('insert', A, k1, '31'), ('insert', B, k1, '41'), X, ('rotate', A), ('flush',), X, ('insert', A, k2, '32'), ('insert', B, k2, '42'), X,
                                          ('rotate', B), ('flush',), X, ('remove', A, k1), X, ('rotate', A), ('flush',), X, ('rotate', B), ('flush',), X, ('insert', B, k3, '43'), X]
    P['sealed-journals-with-clear'] = [T, ('ks', A), ('ks', B), ('insert', A, k1, '31'), ('insert', B, k1, '41'), ('rotate', B), ('flush',), X, ('clear', A), ('insert', B, k2, '42'), ('rotate', B), ('flush',), X,
                                       ('insert', A, k2, '32'), X]
    P['crash-after-reopen'] = [('ks', A), ('insert', A, k1, '31'), ('reopen',), X, ('insert', A, k2, '32'), X, ('reopen',), ('remove', A, k1), X]
    from . import c10
    P['digit-boundary'] = c10.digit_boundary_program()
    from . import c04
    P['batch-half-flushed'] = c04.half_flushed_batch_program(crash=True)
    P['kvsep'] = [('ks', A, 'kvsep=1'), ('insert', A, k1, '31' * 40), X, ('rotate', A), ('flush',), X, ('insert', A, k1, '32' * 40), X, ('major_compact', A), X]
    return P


def native_crash(ctx):
    last = (False, None, 'not run')
    progs = crash_programs()
    n = 0
    for name, prog in progs.items():
        kw = {'open_opts': 'workers=0 max_journal=100000000000'} if name == 'digit-boundary' else {}
        v, path, d = oracle.run_program(ctx, prog, f'crash-{name}', **kw)
        n += sum(1 for op in prog if op[0] == 'crash')
        if v:
            return True, path, f'program {name}: {d}'
        last = (False, path, f'{len(progs)} crash programs, {n} process-crash images: each reopens and equals the acknowledged state')
    # transactions and torn appends
    for kind, steps in (('proc-two-keyspaces', ['w', 'x', 'b', 'x', 'w', 'b', 'x']),):
        v, path, d = crashimg.run_crash_workload(ctx, steps, tag='c02-' + kind, manual=0, power_loss=False, two_ks=True)
        if v:
            return True, path, d
    return last


def run(ctx):
    from . import c01
    for op in ('insert', 'remove', 'remove_weak', 'clear', 'batch'):
        check_wal(ctx, op)
    for op in ('insert', 'remove', 'remove_weak', 'clear'):
        c01.check_single(ctx, op, parts=('journal',), journal_confirm=lambda: native_crash(ctx))
    check_default_durability(ctx)
    check_journal_order(ctx)
    check_recover_order(ctx)
    check_rotate_id(ctx)
    # the two neighbouring properties this one rests on are decided here as well (same obligations as C03 / C10):
    # a torn journal tail is cut back to the last complete unit and what is appended afterwards is read back; a sealed journal is unlinked only when nothing in it is needed
    from . import c03, c10
    c03.check_cuts(ctx, c03.SHAPES_QUICK[0], 0)
    if ctx.tier == 'thorough':
        c03.check_cuts(ctx, c03.SHAPES_QUICK[1], 1)
    c10.check_maintenance(ctx, confirm=lambda: native_crash(ctx), with_reclaim=False)
    # ... and on recovery applying exactly the records the tables do not cover yet, item by item (C04's replay rule, here for a batch over two keyspaces)
    from . import c04
    c04.check_two_item_batch(ctx, confirm=lambda: native_crash(ctx))
    ctx.assumptions += [
        'F1/F2: BufWriter::flush hands all buffered bytes to the OS in order; a process crash keeps what was handed to the OS (power loss: C09)',
        'E1: lsm-tree memtable inserts cannot fail; a flushed table contains only items that were applied to a memtable before',
        'torn journal tails are discarded by the reader (decided byte-level in C03); the replay rule per record in C04; counters after recovery in C11; journal eviction in C10',
        f'bounds: batch of 2 items; {N_DIR} directory entries with symbolic ids in recover_journals; 2 sealed journals in the phase-order harness',
    ]
    for o in ctx.obligations:
        ctx.samples.append(o.as_dict())
    return ctx.finish()


MUTANTS = [
    {'name': 'insert applies to the memtable before the journal append', 'edits': [('src/keyspace/mod.rs', "        let seqno = self.supervisor.seqno.next();\n\n        journal_writer\n            .write_raw(self.id, &key, &value, lsm_tree::ValueType::Value, seqno)", "        let seqno = self.supervisor.seqno.next();\n        let _early = self.tree.insert(key.clone(), value.clone(), seqno);\n\n        journal_writer\n            .write_raw(self.id, &key, &value, lsm_tree::ValueType::Value, seqno)")]},
    {'name': 'automatic persist dropped in remove', 'edits': [('src/keyspace/mod.rs', "        if !self.config.manual_journal_persist {\n            journal_writer\n                .persist(crate::PersistMode::Buffer)", "        if false {\n            journal_writer\n                .persist(crate::PersistMode::Buffer)", 2)]},
    {'name': 'sealed journals sorted descending', 'edits': [('src/journal/recovery.rs', "    journal_fragments.sort_by_key(|(a, _)| *a);", "    journal_fragments.sort_by_key(|(a, _)| std::cmp::Reverse(*a));\n    journal_fragments.rotate_left(1);")]},
    {'name': 'journal fragments not sorted at all', 'edits': [('src/journal/recovery.rs', "    journal_fragments.sort_by_key(|(a, _)| *a);", "")]},
    {'name': 'rotate reuses the journal id', 'edits': [('src/journal/writer.rs', "journal_id + 1", "journal_id")]},
]
