"""C16 — keyspace options chosen at creation stay in force.

M obligations:
  codec/<Policy>-<n>      encode → decode of every policy codec returns the same entries (n = 1..3 symbolic entries), with no
                          width/kind mismatch between what is written and what is read, and consumes exactly what was written
  kvs/roundtrip           CreateOptions::encode_kvs → CreateOptions::from_kvs over a symbolic key-value store keyed by the
                          option *name* constant gives back every settable field (policies, flags, memtable size, blob options
                          present/absent)
  open-existing           Database::keyspace on an existing name returns the stored handle and never evaluates create_options
  apply/<field>           apply_to_base_config forwards each field to the tree config setter of the same name
Native replay: create with non-default options, reopen passing other options, compare the effective options (hook accessor).
"""
import z3
from ..core import ret_is_err, ret_is_ok, obj_name
from ..symex import Obj, EnumV, Ref, Cell, deref, bv, base_name
from ..contract import mk_seq, SliceView, norm_segs
from . import common as C

POLICIES = {
    'BlockSizePolicy': ('keyspace::config::block_size', 'u32'),
    'CompressionPolicy': ('keyspace::config::compression', 'lsm_tree::CompressionType'),
    'FilterPolicy': ('keyspace::config::filter', 'lsm_tree::config::FilterPolicyEntry'),
    'HashRatioPolicy': ('keyspace::config::hash_ratio', 'f32'),
    'PinningPolicy': ('keyspace::config::pinning', 'bool'),
    'RestartIntervalPolicy': ('keyspace::config::restart_interval', 'u8'),
}


def find_codec_fn(ctx, policy, which):
    mod = POLICIES[policy][0].split('::')[-1]
    c = [f for f in ctx.prog.fns.values() if f.key == f'config::{mod}::<impl>::{which}' or f.key.endswith(f'{mod}::<impl>::{which}')]
    c = [f for f in c if '{closure' not in f.key]
    return c[0] if len(c) == 1 else None


def values_equal(ctx, pc, a, b, ob):
    """z3-valid structural equality of two executor values"""
    if z3.is_expr(a) and z3.is_expr(b):
        if a.sort() != b.sort():
            return False
        return ctx.sat(pc + [a != b], ob)[0] == z3.unsat
    if isinstance(a, EnumV) and isinstance(b, EnumV):
        da = bv(a.disc) if isinstance(a.disc, int) else a.disc
        db = bv(b.disc) if isinstance(b.disc, int) else b.disc
        if ctx.sat(pc + [da != db], ob)[0] != z3.unsat:
            return False
        for var in set(a.payloads) & set(b.payloads):
            oa, obb = a.payloads[var], b.payloads[var]
            for i in set(oa.fields) & set(obb.fields):
                va, vb = oa.fields[i].val, obb.fields[i].val
                vs = ctx.src.enum_variants(a.ty) or []
                dval = next((d for v, d in vs if v == var), None)
                cond = pc + ([da == bv(dval)] if dval is not None else [])
                if ctx.sat(cond)[0] != z3.sat:
                    continue
                if not values_equal(ctx, cond, va, vb, ob):
                    return False
        return True
    if isinstance(a, Obj) and isinstance(b, Obj):
        ia, ib = a.data.get('items'), b.data.get('items')
        if ia is not None and ib is not None:
            if len(ia) != len(ib):
                return False
            return all(values_equal(ctx, pc, x.val, y.val, ob) for x, y in zip(ia, ib))
        return a is b
    return a is b


def check_codec(ctx, policy, n):
    ob = ctx.ob(f'codec/{policy}-{n}', f'{policy}: decode(encode(p)) == p for {n} symbolic entr{"y" if n == 1 else "ies"}; no read/write width mismatch; everything written is consumed', [])
    enc, dec = find_codec_fn(ctx, policy, 'encode'), find_codec_fn(ctx, policy, 'decode')
    if enc is None or dec is None:
        ob.status = 'undecided'; ob.detail = 'codec functions not found'; return ob
    ob.functions = [enc.key, dec.key]
    ex = ctx.executor(loop_bound=n + 2)
    env = {}

    def setup(ex_, st, fr):
        items = [ex_.fresh(st, POLICIES[policy][1], f'e{i}') for i in range(n)]
        p = mk_seq(f'lsm_tree::config::{policy}', items, 'policy')
        fr.locals[enc.args[0]] = Cell(Ref(Cell(p)))
        st.globals['policy'] = p
    paths = ex.run(enc, setup=setup)
    ctx.functions_encoded[enc.key] = ctx.prog.hashes.get(enc.name, ''); ctx.functions_encoded[dec.key] = ctx.prog.hashes.get(dec.name, '')
    ctx.paths_total += len(paths)
    bad = []
    for p in paths:
        if p.status in ('error', 'timeout', 'loop_bound'):
            ob.status = 'undecided'; ob.detail = f'encode: {p.status} {p.notes[-1:]}'; return ob
        if p.status != 'returned' or not isinstance(p.ret, Obj) or 'segs' not in p.ret.data:
            if p.status == 'panic' and ctx.sat(p.pc, ob)[0] == z3.sat:
                bad.append((p, 'encode panics'))
            continue
        enc_obj = p.ret
        orig = p.st.globals['policy']
        ex2 = ctx.executor(loop_bound=n + 2)

        def setup2(ex_, st, fr, enc_obj=enc_obj, pc=list(p.pc), orig=orig):
            st.pc.extend(pc)
            fr.locals[dec.args[0]] = Cell(Ref(Cell(enc_obj), SliceView(0)))
            st.globals['orig'] = orig
            st.globals['enc'] = enc_obj
        dpaths = ex2.run(dec, setup=setup2)
        ctx.paths_total += len(dpaths); ctx.events_total += sum(len(q.events) for q in dpaths)
        for q in dpaths:
            if q.status in ('error', 'timeout', 'loop_bound'):
                ob.status = 'undecided'; ob.detail = f'decode: {q.status} {q.notes[-1:]}'; return ob
            if ctx.sat(q.pc, ob)[0] != z3.sat:
                continue
            ob.reach += 1
            if any(e.kind == 'CODEC_MISMATCH' for e in q.events):
                e = [e for e in q.events if e.kind == 'CODEC_MISMATCH'][0]
                bad.append((q, f'decode reads {e.args["reads"]} where encode wrote {e.args["wrote"]}')); continue
            if q.status == 'panic':
                bad.append((q, 'decode panics on an encoded policy')); continue
            if q.status != 'returned' or not isinstance(q.ret, EnumV):
                continue
            if ctx.sat(q.pc + [ret_is_ok(q)], ob)[0] != z3.sat:
                bad.append((q, 'decode fails on an encoded policy')); continue
            got = q.ret.payloads['Ok'].fields[0].val
            if not values_equal(ctx, q.pc, got, q.st.globals['orig'], ob):
                bad.append((q, 'decoded entries differ from the encoded ones')); continue
    if ob.reach == 0 and not bad:
        ob.status = 'undecided'; ob.detail = 'vacuous'
    elif not bad:
        ob.status = 'discharged'; ob.sample = {'entries': n, 'decode_paths': ob.reach}
    else:
        ctx.candidate(ob, f'{policy}/codec-roundtrip', f'{policy} ({n} entries): {bad[0][1]}', confirm=lambda: native_options(ctx))
    return ob


FIELDS_SCALAR = ['expect_point_read_hits', 'manual_journal_persist', 'max_memtable_size']
FIELDS_POLICY = {
    'data_block_compression_policy': 'CompressionPolicy', 'index_block_compression_policy': 'CompressionPolicy',
    'data_block_size_policy': 'BlockSizePolicy', 'filter_block_partitioning_policy': 'PinningPolicy',
    'index_block_partitioning_policy': 'PinningPolicy', 'filter_block_pinning_policy': 'PinningPolicy',
    'index_block_pinning_policy': 'PinningPolicy', 'data_block_restart_interval_policy': 'RestartIntervalPolicy',
    'index_block_restart_interval_policy': 'RestartIntervalPolicy', 'data_block_hash_ratio_policy': 'HashRatioPolicy',
    'filter_policy': 'FilterPolicy',
}


def check_kvs(ctx, blob):
    tag = 'blob' if blob else 'noblob'
    ob = ctx.ob(f'kvs/roundtrip-{tag}', f'from_kvs(encode_kvs(opts)) == opts for every settable field (kv separation {"on" if blob else "off"}); keys matched by option name', [r'options::<impl>::encode_kvs', r'options::<impl>::from_kvs'])
    enc = ctx.prog.find(r'^options::<impl>::encode_kvs$|^keyspace::options::<impl>::encode_kvs$')
    dec = ctx.prog.find(r'^options::<impl>::from_kvs$|^keyspace::options::<impl>::from_kvs$')
    names = ctx.src.struct_fields('keyspace::options::CreateOptions')

    def ov_key(ex_, st, call):
        k = Obj('lsm_tree::Slice', 'cfgkey', 'bytes')
        nm = deref(call.args[1])
        k.data['cfg_name'] = nm.data.get('str') if isinstance(nm, Obj) else None
        k.data['cfg_name_obj'] = nm
        return k

    def ov_strategy(ex_, st, call):
        # Arc<dyn CompactionStrategy>::get_name / get_config: contract = constructor parameters (outside the claim)
        if call.c0.endswith('get_name'):
            o = Obj('str', 'str:LeveledCompaction', 'str'); o.data['str'] = 'LeveledCompaction'
            return Ref(Cell(o))
        # contract for lsm-tree's Leveled::get_config (lsm-tree-3.1.10/src/compaction/leveled/mod.rs:240): three named pairs
        def pair(name, segs):
            k = Obj('lsm_tree::Slice', 'k:' + name, 'bytes'); k.data['str'] = name; k.data['segs'] = [('obj', k)]
            v = Obj('lsm_tree::Slice', 'v:' + name, 'bytes'); v.data['segs'] = segs
            t = Obj('(lsm_tree::Slice, lsm_tree::Slice)', 'kv', 'tuple'); t.fields[0] = Cell(k); t.fields[1] = Cell(v)
            return t
        return mk_seq('Vec<(Slice, Slice)>', [
            pair('leveled_l0_threshold', [('u8', z3.BitVec('lev_l0', 8))]),
            pair('leveled_target_size', [('u64le', z3.BitVec('lev_target', 64))]),
            pair('leveled_level_ratio_policy', [('u8', z3.BitVecVal(1, 8)), ('f32le', z3.BitVec('lev_ratio0', 32))]),
        ], 'strategy_cfg')
    overrides = [(r'encode_config_key$', ov_key), (r'CompactionStrategy.*::(get_name|get_config)$', ov_strategy)]
    ex = ctx.executor(loop_bound=4, overrides=overrides, no_inline=[r'Leveled::', r'Fifo::'])
    env = {}

    def setup(ex_, st, fr):
        o = Obj('keyspace::options::CreateOptions', 'opts', 'struct')
        for fname, pol in FIELDS_POLICY.items():
            items = [ex_.fresh(st, POLICIES[pol][1], f'{fname}.{i}') for i in range(2)]
            o.fields[names.index(fname)] = Cell(mk_seq(f'lsm_tree::config::{pol}', items, fname))
        if blob:
            kv = Obj('lsm_tree::KvSeparationOptions', 'blob_opts', 'struct')
            o.fields[names.index('kv_separation_opts')] = Cell(ex_.mk_enum('Option<lsm_tree::KvSeparationOptions>', 'Some', [kv]))
        else:
            o.fields[names.index('kv_separation_opts')] = Cell(ex_.mk_enum('Option<lsm_tree::KvSeparationOptions>', 'None'))
        fr.locals[enc.args[0]] = Cell(Ref(Cell(o)))
        st.globals['opts'] = o
    paths = ex.run(enc, setup=setup)
    ctx.functions_encoded[enc.key] = ctx.prog.hashes.get(enc.name, ''); ctx.functions_encoded[dec.key] = ctx.prog.hashes.get(dec.name, '')
    ctx.paths_total += len(paths)
    good = [p for p in paths if p.status == 'returned' and isinstance(p.ret, Obj) and p.ret.data.get('items') is not None]
    if not good:
        ob.status = 'undecided'; ob.detail = 'encode_kvs did not produce a key-value list: ' + str([(p.status, p.notes[-1:]) for p in paths][:3]); return ob
    bad = []
    for p in good:
        store = {}
        for c in p.ret.data['items']:
            pair = c.val
            if isinstance(pair, Obj) and 0 in pair.fields and 1 in pair.fields:
                k = deref(pair.fields[0].val); v = deref(pair.fields[1].val)
                nm = k.data.get('cfg_name') if isinstance(k, Obj) else None
                if nm:
                    store[nm] = v
        opts = p.st.globals['opts']

        def ov_get(ex_, st, call, store=store):
            nm = deref(call.args[2])
            name = nm.data.get('str') if isinstance(nm, Obj) else None
            st.emit(__import__('msx.symex', fromlist=['Ev']).Ev('CFG_GET', args={'name': name}, site=call.site))
            v = store.get(name)
            if v is None:
                return ex_.mk_enum(call.dst_ty, 'Ok', [ex_.mk_enum('Option<Slice>', 'None')])
            return ex_.mk_enum(call.dst_ty, 'Ok', [ex_.mk_enum('Option<Slice>', 'Some', [v])])
        ex2 = ctx.executor(loop_bound=4, overrides=[(r'MetaKeyspace::get_kv_for_config$', ov_get)], no_inline=[r'Leveled::', r'Fifo::', r'KvSeparationOptions::'])

        def setup2(ex_, st, fr, pc=list(p.pc)):
            st.pc.extend(pc)
            st.globals['opts'] = opts
        dpaths = ex2.run(dec, setup=setup2)
        ctx.paths_total += len(dpaths); ctx.events_total += sum(len(q.events) for q in dpaths)
        for q in dpaths:
            if q.status in ('error', 'timeout', 'loop_bound'):
                ob.status = 'undecided'; ob.detail = f'from_kvs: {q.status} {q.notes[-1:]}'; return ob
            if ctx.sat(q.pc, ob)[0] != z3.sat:
                continue
            if any(e.kind == 'CODEC_MISMATCH' for e in q.events):
                e = [e for e in q.events if e.kind == 'CODEC_MISMATCH'][0]
                bad.append((q, f'from_kvs reads {e.args["reads"]} where encode_kvs wrote {e.args["wrote"]} (after reading option `{[x.args["name"] for x in q.events if x.kind == "CFG_GET"][-1:]}`)')); continue
            if q.status == 'panic':
                msg = [e.args.get('msg') for e in q.events if e.kind == 'PANIC']
                bad.append((q, f'from_kvs panics on what encode_kvs stored: {msg[-1:]}')); continue
            if q.status != 'returned' or not isinstance(q.ret, EnumV):
                continue
            if ctx.sat(q.pc + [ret_is_ok(q)], ob)[0] != z3.sat:
                bad.append((q, 'from_kvs fails on what encode_kvs stored')); continue
            ob.reach += 1
            got = q.ret.payloads['Ok'].fields[0].val
            o0 = q.st.globals['opts']
            for fname in list(FIELDS_POLICY) + FIELDS_SCALAR:
                i = names.index(fname)
                a = got.fields.get(i); b = o0.fields.get(i)
                if a is None or b is None or not values_equal(ctx, q.pc, a.val, b.val, ob):
                    bad.append((q, f'field `{fname}` does not survive encode_kvs → from_kvs')); break
            else:
                i = names.index('kv_separation_opts')
                a = got.fields.get(i)
                if a is not None and isinstance(a.val, EnumV):
                    want = 1 if blob else 0
                    d = bv(a.val.disc) if isinstance(a.val.disc, int) else a.val.disc
                    if ctx.sat(q.pc + [d != bv(want)], ob)[0] != z3.unsat:
                        bad.append((q, f'kv separation options {"lost" if blob else "invented"} by the round trip'))
    if ob.reach == 0 and not bad:
        ob.status = 'undecided'; ob.detail = 'vacuous: from_kvs never returned Ok'
    elif not bad:
        ob.status = 'discharged'; ob.sample = {'fields': len(FIELDS_POLICY) + len(FIELDS_SCALAR), 'ok_paths': ob.reach}
    else:
        ctx.candidate(ob, 'CreateOptions/kvs-roundtrip', bad[0][1], confirm=lambda: native_options(ctx))
    return ob


def check_open_existing(ctx):
    pat = r'^db::<impl>::keyspace$'
    ob = ctx.ob('open-existing', 'Database::keyspace: an existing name returns a clone of the stored handle; create_options is not evaluated, nothing is created or stored', [pat])
    ex, paths = ctx.run(pat, cache_key='dbks', loop_bound=2, no_inline=[r'Keyspace::create_new$', r'MetaKeyspace::create_keyspace$', r'is_valid_keyspace_name$'])
    bad = []
    for p in paths:
        gets = [e for e in p.events if e.kind == 'MAP_GET']
        if not gets:
            continue
        created = [e for e in p.events if e.kind == 'CALL' and (e.args.get('callee', '').endswith('create_new') or e.args.get('callee', '').endswith('create_keyspace'))]
        fn_calls = [e for e in p.events if e.kind == 'CALL_FN']
        # which branch: found (no creation) or not found
        if not created and p.status == 'returned':
            ob.reach += 1
            if fn_calls:
                bad.append((p, 'create_options is evaluated although the keyspace exists'))
            if any(e.kind == 'CTR_NEXT' for e in p.events):
                bad.append((p, 'a keyspace id is consumed although the keyspace exists'))
        elif created:
            if not fn_calls:
                bad.append((p, 'a new keyspace is created without evaluating create_options'))
    if ob.reach == 0:
        ob.status = 'undecided'; ob.detail = 'vacuous'
    elif not bad:
        ob.status = 'discharged'; ob.sample = {'paths': ob.reach}
    else:
        ctx.candidate(ob, 'Database.keyspace/existing-name', bad[0][1], confirm=lambda: native_options(ctx))
    return ob


APPLY = {
    'data_block_compression_policy': 'data_block_compression_policy', 'index_block_compression_policy': 'index_block_compression_policy',
    'data_block_size_policy': 'data_block_size_policy', 'data_block_hash_ratio_policy': 'data_block_hash_ratio_policy',
    'data_block_restart_interval_policy': 'data_block_restart_interval_policy',
    'index_block_pinning_policy': 'index_block_pinning_policy', 'filter_block_pinning_policy': 'filter_block_pinning_policy',
    'index_block_partitioning_policy': 'index_block_partitioning_policy', 'filter_block_partitioning_policy': 'filter_block_partitioning_policy',
    'expect_point_read_hits': 'expect_point_read_hits', 'filter_policy': 'filter_policy', 'kv_separation_opts': 'with_kv_separation',
    'compaction_filter_factory': 'with_compaction_filter_factory',
}


def check_apply(ctx):
    pat = r'apply_to_base_config$'
    ob = ctx.ob('apply/forward', 'apply_to_base_config hands every stored option to the tree-config setter of the same name', [pat])
    fn = ctx.prog.find(pat)
    names = ctx.src.struct_fields('keyspace::options::CreateOptions')
    ex = ctx.executor(loop_bound=2)
    env = {}

    def setup(ex_, st, fr):
        o = Obj('keyspace::options::CreateOptions', 'opts', 'struct')
        for i, n in enumerate(names):
            if n in ('expect_point_read_hits',):
                o.fields[i] = Cell(z3.Bool('opt_' + n))
            elif n in APPLY:
                v = Obj('?', 'opt_' + n, 'opaque'); o.fields[i] = Cell(v)
        fr.locals[fn.args[1]] = Cell(Ref(Cell(o)))
    paths = ex.run(fn, setup=setup)
    ctx.functions_encoded[fn.key] = ctx.prog.hashes.get(fn.name, '')
    ctx.paths_total += len(paths); ctx.events_total += sum(len(p.events) for p in paths)
    bad = []
    for p in paths:
        if p.status != 'returned':
            continue
        ob.reach += 1
        seen = {}
        for e in p.events:
            if e.kind == 'CALL' and 'Config::' in e.args.get('callee', ''):
                setter = e.args['callee'].rsplit('::', 1)[-1]
                a = e.args['args'][1:]
                for v in a:
                    d = deref(v)
                    nm = d.name if isinstance(d, Obj) else (str(d) if z3.is_expr(d) else '')
                    if isinstance(d, EnumV):
                        nm = d.name
                    if nm.startswith('opt_'):
                        seen[nm[4:].rstrip("'")] = setter
        for field, setter in APPLY.items():
            got = seen.get(field)
            if field in ('kv_separation_opts', 'compaction_filter_factory', 'expect_point_read_hits') and got is None:
                continue      # passed through clones / options we cannot trace by name; covered natively
            if got is not None and got != setter:
                bad.append((p, f'option `{field}` is handed to the tree setter `{got}`'))
            if got is None:
                bad.append((p, f'option `{field}` is not forwarded to the tree config'))
    if ob.reach == 0:
        ob.status = 'undecided'; ob.detail = 'vacuous'
    elif not bad:
        ob.status = 'discharged'; ob.sample = {'paths': ob.reach}
    else:
        ctx.candidate(ob, 'apply_to_base_config/wrong-setter', bad[0][1], confirm=lambda: native_options(ctx))
    return ob


def native_options(ctx):
    """create a keyspace with non-default options, reopen while passing different options, compare what is in force"""
    last = (False, None, 'not run')
    TREE_FIELDS = ['data_block_size', 'data_block_compression', 'index_block_compression', 'data_block_restart_interval', 'index_block_pinning', 'filter_block_pinning',
                   'data_block_hash_ratio', 'index_block_partitioning', 'filter_block_partitioning', 'filter_policy']

    def tree_mismatch(opt):
        """the tree must run with the policies the keyspace reports (what is stored is also what is in force)"""
        kv = dict(x.split('=', 1) for x in opt.split(';') if '=' in x and not x.startswith('tree='))
        tr = [x for x in opt.split(';') if x.startswith('tree=[')]
        if not tr:
            return None
        parts = tr[0][len('tree=['):-1].split('|')
        for name, got in zip(TREE_FIELDS, parts):
            if name in kv and kv[name] != got:
                return f'{name}: the keyspace reports {kv[name]}, its tree runs with {got}'
        return None
    for kind, var in (('leveled', 1), ('fifo', 1), ('blob', 1), ('leveled', 2)):
        L = ['dir $DIR/db', 'open workers=0', f'ks_opts a {kind} {var}', 'options a', 'insert a 6b31 31', 'close',
             'open workers=0', f'ks_opts a other {3 - var}', 'options a', 'close', 'open workers=0', 'ks a', 'options a', 'close']
        spath, out = ctx.run_scenario('\n'.join(L) + '\n', tag=f'options-{kind}-{var}')
        rs = [(c, r) for _i, c, r in out]
        if any(c == 'CRASH' for c, _r in rs):
            return True, spath, 'crash: ' + rs[-1][1][-300:]
        if any(r.startswith('err:UnknownCommand') for _c, r in rs):
            return False, spath, 'replay driver lacks a command'
        o = [r for c, r in rs if c == 'options']
        errs = [(c, r) for c, r in rs if r.startswith('err')]
        if errs:
            return True, spath, f'reopen failed: {errs[:2]}'
        if len(o) == 3 and not (o[0] == o[1] == o[2]):
            diff = [(a, b) for a, b in zip(o[0].split(';'), o[1].split(';')) if a != b] or [(a, b) for a, b in zip(o[0].split(';'), o[2].split(';')) if a != b]
            return True, spath, f'options in force changed across reopen ({kind}): {diff[:2]}'
        for i_, oo in enumerate(o):
            mm = tree_mismatch(oo)
            if mm:
                return True, spath, f'option not in force ({kind}, variant {var}, {"at creation" if i_ == 0 else "after reopen"}): {mm}'
        last = (False, spath, 'held natively')
    return last


def run(ctx):
    ctx.assumptions += [
        'lsm-tree policy types are plain vectors (Deref to a slice); strategy get_name/get_config return the constructor parameters (contract)',
        'policy vectors of 1..3 entries; the 255-entry length byte is outside the bound',
        'f32 values are compared bitwise',
    ]
    ns = (1, 2) if ctx.tier == 'quick' else (1, 2, 3)
    for pol in POLICIES:
        for n in ns:
            check_codec(ctx, pol, n)
    check_kvs(ctx, False)
    check_kvs(ctx, True)
    check_open_existing(ctx)
    check_apply(ctx)
    # "opening an existing name ignores the options passed" presupposes that a name is created once: lookup and registration under one hold of the
    # dictionary lock (the obligation of C12, part of this property as well: two racing creators would each install their own options)
    from . import c12
    c12.check_create_atomic(ctx)
    for o in ctx.obligations:
        ctx.samples.append(o.as_dict())
    return ctx.finish()


MUTANTS = [
    {'name': 'from_kvs reads index_block_pinning_policy into the filter pinning field', 'edits': [('src/keyspace/options.rs', """            .get_kv_for_config(keyspace_id, "filter_block_pinning_policy")?""", """            .get_kv_for_config(keyspace_id, "index_block_pinning_policy")?""")]},
    {'name': 'max_memtable_size stored as u32', 'edits': [('src/keyspace/options.rs', "(key, self.max_memtable_size.to_le_bytes().into())", "(key, (self.max_memtable_size as u32).to_le_bytes().into())")]},
    {'name': 'keyspace() evaluates create_options for an existing name', 'edits': [('src/db.rs', """        Ok(if let Some(keyspace) = keyspaces.get(name) {
            keyspace.clone()""", """        Ok(if let Some(keyspace) = keyspaces.get(name) {
            let _ = create_options();
            keyspace.clone()""")]},
    {'name': 'HashRatioPolicy encoded big endian', 'edits': [('src/keyspace/config/hash_ratio.rs', "v.write_f32::<LittleEndian>(*item)", "v.write_f32::<byteorder::BigEndian>(*item)")]},
    {'name': 'PinningPolicy decode treats 0 as true', 'edits': [('src/keyspace/config/pinning.rs', "v.push(b == 1);", "v.push(b == 0);")]},
    {'name': 'FilterPolicy decode swaps BitsPerKey and FalsePositiveRate', 'edits': [('src/keyspace/config/filter.rs', """                        0 => {
                            let bits = bytes.read_f32::<byteorder::LittleEndian>()?;

                            crate::config::FilterPolicyEntry::Bloom(
                                crate::config::BloomConstructionPolicy::BitsPerKey(bits),""", """                        0 => {
                            let bits = bytes.read_f32::<byteorder::LittleEndian>()?;

                            crate::config::FilterPolicyEntry::Bloom(
                                crate::config::BloomConstructionPolicy::FalsePositiveRate(bits),""")]},
    {'name': 'apply_to_base_config passes the index pinning policy as filter pinning', 'edits': [('src/keyspace/mod.rs', ".filter_block_pinning_policy(our_config.filter_block_pinning_policy.clone())", ".filter_block_pinning_policy(our_config.index_block_pinning_policy.clone())")]},
    {'name': 'manual_journal_persist stored inverted on encode', 'edits': [('src/keyspace/options.rs', "(key, [u8::from(self.manual_journal_persist)].into())", "(key, [u8::from(!self.manual_journal_persist)].into())")]},
    {'name': 'expect_point_read_hits read from manual_journal_persist key', 'edits': [('src/keyspace/options.rs', """            .get_kv_for_config(keyspace_id, "expect_point_read_hits")?""", """            .get_kv_for_config(keyspace_id, "manual_journal_persist")?""")]},
    {'name': 'blob separation threshold read as u16', 'edits': [('src/keyspace/options.rs', "let separation_threshold = (&mut &separation_threshold[..]).read_u32::<LE>()?;", "let separation_threshold = u32::from((&mut &separation_threshold[..]).read_u16::<LE>()?);")]},
]
