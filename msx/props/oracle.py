"""Native reference-model oracle: a program of operations is run through the real crate by the replay driver and,
independently, through a sorted reference map in Python; every read method must agree (DESIGN §2.4).

Program ops (tuples):
  ('ks', name[, 'manual=1 memtable=..'])   ('insert', ks, k, v)   ('remove', ks, k)   ('remove_weak', ks, k)
  ('clear', ks)   ('batch', [('insert', ks, k, v) | ('remove', ks, k)])   ('ingest', ks, [(k, v|None)])
  ('rotate', ks)  ('flush',)  ('major_compact', ks)  ('reopen',)  ('delete_ks', ks)  ('check',)
Keys/values are hex strings.
"""
KEYS = ['6b31', '6b32', '6b33', '6b34', '6b35']


def model_readall(m, keys):
    ks = sorted(m)

    def kv(k):
        return f'{k}:{m[k] if m[k] else "-"}'
    lst = '[' + ','.join(kv(k) for k in ks) + ']'
    out = [f'iter={lst}', 'rev=[' + ','.join(kv(k) for k in reversed(ks)) + ']',
           'keys=[' + ','.join(ks) + ']', 'values=[' + ','.join(m[k] if m[k] else '-' for k in ks) + ']',
           'sizes=[' + ','.join(str(len(m[k]) // 2) for k in ks) + ']',
           f'first={kv(ks[0]) if ks else "none"}', f'last={kv(ks[-1]) if ks else "none"}', f'len={len(ks)}',
           f'empty={"true" if not ks else "false"}',
           'prefix=[' + ','.join(kv(k) for k in ks if k.startswith('6b')) + ']',
           'range=[' + ','.join(kv(k) for k in ks if '6b32' <= k < '6b35') + ']']
    if len(ks) >= 2:
        mid = ks[1:-1]
        out.append(f'ends={kv(ks[0])}|{kv(ks[-1])}|[' + ','.join(kv(k) for k in mid) + ']')
    elif len(ks) == 1:
        out.append(f'ends={kv(ks[0])}|none|[]')
    else:
        out.append('ends=none|none|[]')
    for k in keys:
        if k in m:
            out.append(f'{k}={m[k] if m[k] else "-"}/true/{len(m[k]) // 2}')
        else:
            out.append(f'{k}=none/false/none')
    return ';'.join(out)


def compile_program(prog, db_kind='plain', open_opts='workers=0'):
    """returns (scenario text, list of expected (line_index, expected_string, description))"""
    L = ['dir $DIR/db', f'kind {db_kind}', f'open {open_opts}']
    model = {}      # ks -> dict
    exists = set()
    expect = []
    bid = 0
    crashes = []        # (image number, {ks: dict}, [existing keyspaces]) — process-crash images taken by the driver (copydir)
    compile_program.crashes = crashes
    for op in prog:
        k = op[0]
        if k == 'ks':
            L.append(f'ks {op[1]}' + (f' {op[2]}' if len(op) > 2 else ''))
            model.setdefault(op[1], {}); exists.add(op[1])
        elif k == 'insert':
            L.append(f'insert {op[1]} {op[2]} {op[3] if op[3] else "-"}'); model[op[1]][op[2]] = op[3]
        elif k in ('remove', 'remove_weak'):
            L.append(f'{k} {op[1]} {op[2]}'); model[op[1]].pop(op[2], None)
        elif k == 'clear':
            L.append(f'clear {op[1]}'); model[op[1]] = {}
        elif k == 'batch':
            bid += 1
            L.append(f'batch b{bid} begin')
            for it in op[1]:
                if it[0] == 'insert':
                    L.append(f'batch b{bid} insert {it[1]} {it[2]} {it[3] if it[3] else "-"}'); model[it[1]][it[2]] = it[3]
                else:
                    L.append(f'batch b{bid} remove {it[1]} {it[2]}'); model[it[1]].pop(it[2], None)
            L.append(f'batch b{bid} commit')
        elif k == 'ingest':
            items = sorted(op[2])
            L.append(f'ingest {op[1]} ' + ','.join(f'{a}:{(b if b else "-") if b is not None else "T"}' for a, b in items))
            for a, b in items:
                if b is None:
                    model[op[1]].pop(a, None)
                else:
                    model[op[1]][a] = b
        elif k == 'threshold':
            L.append(f'rotation_threshold {op[1]}')       # journal rotation at the next flush tick once the journal exceeds this size
        elif k == 'rotate':
            L.append(f'rotate {op[1]}')
        elif k == 'flush':
            L.append('worker_drain')
        elif k == 'step':
            L.append('worker_step')          # exactly one queued worker message (a crash point can be placed between two of them)
        elif k == 'major_compact':
            L.append(f'major_compact {op[1]}')
        elif k == 'crash':
            import copy
            L.append(f'copydir $DIR/db $DIR/img{len(crashes) + 1}')
            crashes.append((len(crashes) + 1, copy.deepcopy({n: model[n] for n in exists}), sorted(exists)))
        elif k == 'journals':
            L.append('journal_count'); expect.append((len(L) - 1, f'n={op[1]}', 'number of journal files'))
        elif k == 'reopen':
            L.append('close'); L.append(f'open {open_opts}')
            L.append('list_ks'); expect.append((len(L) - 1, '[' + ','.join(sorted(exists)) + ']', 'set of keyspaces after reopen'))
            for n in sorted(exists):
                L.append(f'ks {n}')
        elif k == 'delete_ks':
            L.append(f'delete_ks {op[1]}'); exists.discard(op[1]); model.pop(op[1], None)
        elif k == 'check':
            for n in sorted(exists):
                L.append(f'readall {n} ' + ','.join(KEYS))
                expect.append((len(L) - 1, model_readall(model[n], KEYS), f'keyspace {n}'))
        else:
            raise ValueError(op)
    L.append('close')
    return '\n'.join(L) + '\n', expect, L


def run_program(ctx, prog, tag, **kw):
    """returns (violated, replay_path, detail)"""
    text, expect, L = compile_program(prog, **kw)
    crashes = list(compile_program.crashes)
    spath, out = ctx.run_scenario(text, tag=tag, keep_work=bool(crashes))
    work = ctx.last_work
    try:
        return _judge(ctx, prog, tag, text, expect, L, crashes, spath, out, work, kw)
    finally:
        if crashes:
            import shutil
            shutil.rmtree(work, ignore_errors=True)


def _judge(ctx, prog, tag, text, expect, L, crashes, spath, out, work, kw):
    import os
    res = {i: r for i, _c, r in out}
    if any(c == 'CRASH' for _i, c, _r in out):
        return True, spath, 'crash: ' + out[-1][2][-300:]
    # run_scenario numbers commands from 1 (header line excluded): index in L is i-1
    for idx, want, what in expect:
        got = res.get(idx + 1)
        if got is None:
            return False, spath, f'driver produced no output for line {idx + 1}'
        if got != want:
            # localise the first differing component
            gp, wp = got.split(';'), want.split(';')
            diff = [(a, b) for a, b in zip(gp, wp) if a != b][:2]
            errs = [(L[i - 1], r) for i, _c, r in out if r.startswith('err') and not L[i - 1].startswith(('readall',))][:2]
            return True, spath, f'{what}: real answers differ from the reference map after `{" ; ".join(L[3:idx][-6:])}`: got {diff and diff[0][0]}, expected {diff and diff[0][1]}' + (f' (errors: {errs})' if errs else '')
    errs = [(L[i - 1], r) for i, _c, r in out if r.startswith('err') and 0 < i <= len(L)]
    if errs:
        return True, spath, f'operation failed: {errs[:2]}'
    # process-crash images: each must reopen and hold exactly the state acknowledged at that point (automatic persist: every write is flushed to the OS before it returns)
    open_opts = kw.get('open_opts', 'workers=0')
    for n, model, names in crashes:
        img = os.path.join(work, f'img{n}')
        L2 = [f'dir {img}', f'kind {kw.get("db_kind", "plain")}', f'open {open_opts}', 'list_ks'] + [f'ks {x}' for x in names] + [f'readall {x} ' + ','.join(KEYS) for x in names] + ['close']
        sp2, out2 = ctx.run_scenario('\n'.join(L2) + '\n', tag=f'{tag}-img{n}')
        if any(c == 'CRASH' for _i, c, _r in out2):
            return True, sp2, f'recovering crash image #{n} crashed: ' + out2[-1][2][-200:]
        op = [r for _i, c, r in out2 if c == 'open']
        if not op or op[0] != 'ok':
            return True, sp2, f'crash image #{n} (taken after `{" ; ".join(x for x in L[3:] if not x.startswith(("readall", "copydir")))[-160:]}`) does not reopen: {op}'
        lk = [r for _i, c, r in out2 if c == 'list_ks']
        if lk and lk[0] != '[' + ','.join(names) + ']':
            return True, sp2, f'crash image #{n}: keyspaces {lk[0]}, expected {names}'
        ra = [r for _i, c, r in out2 if c == 'readall']
        for x, got in zip(names, ra):
            want = model_readall(model[x], KEYS)
            if got != want:
                gp, wp = got.split(';'), want.split(';')
                diff = [(a, b) for a, b in zip(gp, wp) if a != b][:1]
                # which copydir was it: show the operations before it
                upto = [i for i, l in enumerate(L) if l.startswith(f'copydir $DIR/db $DIR/img{n}')][0]
                hist = ' ; '.join(l for l in L[3:upto] if not l.startswith(('readall', 'copydir')))
                return True, sp2, f'crash image #{n}: keyspace {x} lost or gained data after a process crash at this point: got {diff and diff[0][0]}, acknowledged state {diff and diff[0][1]} (history: {hist[-400:]})'
    return False, spath, 'agrees with the reference map' + (f' (and {len(crashes)} crash images)' if crashes else '')


def battery(focus=None):
    """fixed family of small programs exercising every write/read method with maintenance steps in between"""
    A = 'a'; B = 'b'
    k1, k2, k3, k4, k5 = KEYS
    P = {}
    P['basic'] = [('ks', A), ('insert', A, k1, '31'), ('insert', A, k2, '32'), ('check',), ('insert', A, k1, '3131'), ('remove', A, k2), ('check',),
                  ('insert', A, k3, ''), ('check',)]
    P['maint'] = [('ks', A), ('insert', A, k1, '31'), ('insert', A, k2, '32'), ('rotate', A), ('flush',), ('check',), ('insert', A, k1, '3132'),
                  ('remove', A, k2), ('insert', A, k3, '33'), ('check',), ('rotate', A), ('flush',), ('check',), ('major_compact', A), ('check',),
                  ('remove', A, k1), ('rotate', A), ('flush',), ('major_compact', A), ('check',)]
    P['batch'] = [('ks', A), ('ks', B), ('batch', [('insert', A, k1, '31'), ('insert', B, k1, '41'), ('insert', A, k2, '32')]), ('check',),
                  ('batch', [('remove', A, k1), ('insert', B, k2, '42')]), ('check',), ('rotate', A), ('flush',), ('check',)]
    P['clear'] = [('ks', A), ('ks', B), ('insert', A, k1, '31'), ('insert', B, k1, '41'), ('rotate', A), ('flush',), ('insert', A, k2, '32'), ('clear', A),
                  ('check',), ('insert', A, k3, '33'), ('check',), ('rotate', A), ('flush',), ('major_compact', A), ('check',)]
    P['remove_weak'] = [('ks', A), ('insert', A, k1, '31'), ('remove_weak', A, k1), ('check',), ('insert', A, k2, '32'), ('rotate', A), ('flush',),
                        ('remove_weak', A, k2), ('check',), ('rotate', A), ('flush',), ('major_compact', A), ('check',)]
    P['ingest'] = [('ks', A), ('ingest', A, [(k1, '31'), (k2, '32')]), ('check',), ('insert', A, k3, '33'), ('remove', A, k1), ('check',),
                   ('rotate', A), ('flush',), ('major_compact', A), ('check',)]
    P['manual-persist'] = [('ks', A, 'manual=1'), ('insert', A, k1, '31'), ('insert', A, k2, '32'), ('clear', A), ('check',), ('insert', A, k3, '33'), ('remove', A, k3),
                           ('insert', A, k4, '34'), ('check',), ('batch', [('insert', A, k1, '35'), ('remove', A, k4)]), ('check',)]
    # one large batch over two keyspaces in which keys are written many times: the last write of the batch must win
    big = []
    for i in range(16):
        big += [('insert', A, k1, '%02x' % (0x30 + i)), ('insert', B, k3, '%02x' % (0x50 + i)), ('insert', A, k2, '%02x' % (0x60 + i)), ('insert', B, k1, '%02x' % (0x70 + i)), ('remove', A, k3)]
        if i % 2 == 0:
            big.append(('insert', A, k3, '%02x' % (0x20 + i)))
    P['batch-repeated-keys'] = [('ks', A), ('ks', B), ('batch', big), ('check',), ('rotate', A), ('flush',), ('check',)]
    P['three-keys'] = [('ks', A), ('insert', A, k1, '31'), ('insert', A, k2, '32'), ('insert', A, k3, '33'), ('check',), ('batch', [('remove', A, k2), ('insert', A, k4, '')]), ('check',),
                       ('rotate', A), ('flush',), ('check',)]
    P['two-ks'] = [('ks', A), ('ks', B), ('insert', A, k1, '31'), ('insert', B, k1, '41'), ('remove', A, k1), ('check',), ('clear', B), ('check',),
                   ('insert', B, k2, '42'), ('rotate', B), ('flush',), ('check',)]
    P['kvsep'] = [('ks', A, 'kvsep=1'), ('insert', A, k1, '31' * 40), ('insert', A, k2, '32'), ('rotate', A), ('flush',), ('check',), ('insert', A, k1, '3131'),
                  ('rotate', A), ('flush',), ('major_compact', A), ('check',)]
    P['tiny-memtable'] = [('ks', A, 'memtable=64'), ('insert', A, k1, '31' * 30), ('insert', A, k2, '32' * 30), ('insert', A, k3, '33' * 30), ('flush',), ('check',),
                          ('remove', A, k2), ('insert', A, k4, '34' * 30), ('flush',), ('check',)]
    # a batch remove of a key whose older version is on disk and whose newer version is in the memtable: flushing that memtable (after the GC watermark moved on)
    # must leave the key removed (a remove journaled / applied as a *weak* tombstone would cancel against the newer version only)
    P['batch-remove-over-flushed'] = [('ks', A), ('ks', B), ('insert', A, k1, '7631'), ('insert', A, k2, '32'), ('rotate', A), ('flush',), ('insert', A, k1, '7632'),
                                      ('batch', [('remove', A, k1), ('insert', B, k1, '41')]), ('check',), ('rotate', B), ('flush',), ('rotate', A), ('flush',), ('check',), ('major_compact', A), ('check',)]
    P['remove-over-flushed'] = [('ks', A), ('ks', B), ('insert', A, k1, '7631'), ('rotate', A), ('flush',), ('insert', A, k1, '7632'), ('remove', A, k1), ('insert', B, k1, '41'), ('check',),
                                ('rotate', B), ('flush',), ('rotate', A), ('flush',), ('check',), ('major_compact', A), ('check',)]
    # a recovered keyspace must behave like a freshly created one: clear / ingestion / flush right after a reopen, then scans vs. point reads
    P['reopened-clear'] = [('ks', A), ('ks', B), ('insert', A, k1, '31'), ('insert', A, k2, '32'), ('insert', B, k1, '41'), ('reopen',), ('clear', A), ('check',), ('insert', A, k3, '33'), ('check',),
                           ('reopen',), ('insert', B, k2, '42'), ('rotate', B), ('flush',), ('clear', B), ('check',)]
    P['reopened-ingest'] = [('ks', A), ('insert', A, k1, '31'), ('reopen',), ('ingest', A, [(k2, '32'), (k3, '33')]), ('check',), ('insert', A, k2, '3232'), ('remove', A, k3), ('check',),
                            ('rotate', A), ('flush',), ('major_compact', A), ('check',), ('reopen',), ('check',)]
    P['reopened-flush'] = [('ks', A), ('ks', B), ('insert', A, k1, '31'), ('insert', B, k1, '41'), ('reopen',), ('insert', A, k2, '32'), ('rotate', A), ('flush',), ('check',),
                           ('batch', [('insert', A, k3, '33'), ('remove', B, k1), ('insert', B, k2, '42')]), ('check',), ('insert', A, k1, '3131'), ('rotate', A), ('flush',), ('major_compact', A), ('check',)]
    if focus:
        return {n: p for n, p in P.items() if focus in n} or P
    return P


def run_battery(ctx, tag, focus=None, extra=None, **kw):
    last = (False, None, 'not run')
    progs = battery(focus)
    if extra:
        progs = dict(progs); progs.update(extra)
    for name, prog in progs.items():
        v, path, d = run_program(ctx, prog, f'{tag}-{name}', **kw)
        if v:
            return True, path, f'program {name}: {d}'
        last = (False, path, f'{len(progs)} programs agree with the reference map')
    return last
