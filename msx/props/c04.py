"""C04 — close and reopen reproduces exactly the same logical content.

M obligations on the MIR of Database::recover and recover_sealed_memtables over a symbolic recovered state (recov.py):
  replay/apply-rule      a journal item whose keyspace id resolves to keyspace k is applied to k's tree — same key, same value, the
                         batch's seqno, the operation its value kind says — IF AND ONLY IF k's tables do not already cover the batch
                         (no persisted seqno, or persisted < batch seqno); a clear record is re-executed under the same rule;
                         nothing else is written to any tree
  replay/order           the applied operations appear in journal order (batch by batch, items in order, clears after items)
  replay/complete        a successful recovery has consumed every batch of the journal
  sealed/apply-rule      the same three for the sealed-journal loop (recover_sealed_memtables), plus: a keyspace's recovered memtable is
  sealed/memtables       sealed (rotated) iff something was applied to it, and the journal is re-registered with a watermark for
                         exactly the keyspaces that received data, carrying the highest applied seqno
Bounds: 2 keyspaces, 2 batches (quick: 1 item + 1 clear; thorough: 2 items + 1 clear), symbolic ids / seqnos / persisted marks / value kinds.

Native replay: reference-model programs with reopen cycles (DESIGN §2.4): every battery program of C01 re-checked after one and two
reopens, plus the journal-vs-table interaction programs (ingestion over journaled keys, ingestion after clear, filter-free compaction,
kv separation, deleted keyspaces, writes between reopen cycles).
"""
import z3
from ..core import ret_is_err, ret_is_ok, obj_name
from ..symex import Obj, EnumV, Ref, Cell, deref, bv
from . import common as C
from . import recov
from . import oracle

TREE_W = ('T_INSERT', 'T_REMOVE', 'T_REMOVE_WEAK', 'T_CLEAR')
KIND_OF_VT = {0: 'T_INSERT', 1: 'T_REMOVE', 2: 'T_REMOVE_WEAK'}


def definite(ctx, pc, cond, ob=None):
    """'yes' / 'no' / 'both' for a condition on a path"""
    y = ctx.sat(pc + [cond], ob)[0] == z3.sat
    n = ctx.sat(pc + [z3.Not(cond)], ob)[0] == z3.sat
    return 'both' if (y and n) else ('yes' if y else 'no')


def expected_ops(ctx, p, env, reads, ob):
    """journal-order list of the tree operations the apply rule demands on this path; None + reason if the path is indefinite"""
    exp = []
    for i in reads:
        b = env.batches[i]
        units = [('item', k, d['ksid'], d) for k, d in enumerate(b['items'])] + [('clear', k, x, None) for k, x in enumerate(b['clears'])]
        for what, k, kid, d in units:
            owner = None
            for ks in env.ks:
                r = definite(ctx, p.pc, kid == ks['id'], ob)
                if r == 'both':
                    return None, f'id of batch {i} {what} {k} neither resolved nor unresolved on this path'
                if r == 'yes':
                    owner = ks; break
            if owner is None:
                continue
            hp, pv = owner['tree'].data['persisted']
            cov = definite(ctx, p.pc, z3.And(hp, z3.UGE(pv, b['seqno'])), ob)
            if cov == 'both':
                return None, f'coverage of batch {i} by keyspace {owner["inner"].name} is not decided on this path'
            if cov == 'yes':
                continue
            if what == 'clear':
                exp.append(('T_CLEAR', owner, None, b, i, k))
            else:
                vt = d['vt']
                if isinstance(vt, int):
                    kind = KIND_OF_VT[vt]
                else:
                    kind = None
                    for v, kk in KIND_OF_VT.items():
                        if definite(ctx, p.pc, vt == v, ob) == 'yes':
                            kind = kk
                    if kind is None:
                        return None, 'value kind not decided on this path'
                exp.append((kind, owner, d, b, i, k))
    return exp, ''


def compare_ops(ctx, p, env, exp, ob, trees_of):
    """returns None if the tree writes of the path are exactly `exp` (in order), else a description"""
    tw = [e for e in p.events if e.kind in TREE_W]
    if len(tw) != len(exp):
        return f'{len(exp)} operations must be replayed on this path but {len(tw)} tree writes happen ({[e.kind for e in tw]} vs {[x[0] for x in exp]})'
    for e, (kind, owner, d, b, i, k) in zip(tw, exp):
        where = f'batch {i} ' + (f'item {k}' if d is not None else f'clear {k}')
        if obj_name(e).rstrip("'") != owner['tree'].name:
            return f'{where} is applied to {obj_name(e)} instead of the tree of keyspace {owner["inner"].name}'
        if e.kind != kind:
            return f'{where}: replayed as {e.kind}, the record says {kind}'
        if kind == 'T_CLEAR':
            continue
        key = e.args.get('key')
        if not isinstance(key, Obj) or key.name.rstrip("'") != d['key'].name:
            return f'{where}: replayed with another key ({getattr(key, "name", key)})'
        if kind == 'T_INSERT':
            val = e.args.get('value')
            if not isinstance(val, Obj) or val.name.rstrip("'") != d['value'].name:
                return f'{where}: replayed with another value ({getattr(val, "name", val)})'
        sq = e.args.get('seqno')
        if not z3.is_expr(sq) or ctx.sat(p.pc + [sq != b['seqno']], ob)[0] != z3.unsat:
            return f'{where}: replayed with a seqno that can differ from the batch seqno'
    return None


def check_active(ctx, shape=None, tag='', confirm=None, ghost=True, symbolic_kinds=True):
    shape = shape or (((1, 0), (0, 1)) if ctx.tier == 'quick' else ((2, 0), (0, 1)))
    if not tag:
        ctx.shape = shape
    ex, paths, env = recov.run_recover(ctx, n_ks=2, shape=shape, symbolic_kinds=symbolic_kinds)
    fns = ['db::<impl>::recover']
    o1 = ctx.ob('replay/apply-rule' + tag, 'recover (active journal): a record is applied to the tree of the keyspace whose id it carries, unchanged, iff that keyspace\'s persisted seqno does not cover the batch; nothing else is written', fns)
    o3 = ctx.ob('replay/complete' + tag, 'recover: Ok only after every batch of the journal was read', fns)
    b1, b3 = [], []
    inc = [p for p in paths if p.status in ('error', 'timeout', 'loop_bound')]
    if inc:
        for o in (o1, o3):
            o.status = 'undecided'; o.detail = f'executor: {inc[0].status} {inc[0].notes[-1:]}'
        return
    for p in paths:
        if p.status == 'panic' and ctx.sat(p.pc, o3)[0] == z3.sat:
            o3.reach += 1
            b3.append((p, f'recovery of a well-formed journal panics ({"; ".join(str(n) for n in p.notes[-2:])[:160]})')); continue
        if p.status != 'returned' or ctx.sat(p.pc + [ret_is_ok(p)], o1)[0] != z3.sat:
            continue
        reads = [e.args['idx'] for e in p.events if e.kind == 'BATCH_READ']
        o1.reach += 1; o3.reach += 1
        if reads != list(range(len(env.batches))) or not [e for e in p.events if e.kind == 'READER_END']:
            b3.append((p, f'recovery succeeds after reading batches {reads} of {len(env.batches)}'))
            continue
        exp, why = expected_ops(ctx, p, env, reads, o1)
        if exp is None:
            b1.append((p, why)); continue
        d = compare_ops(ctx, p, env, exp, o1, None)
        if d:
            b1.append((p, d))
    finish(ctx, o1, b1, 'recover/replay-rule', confirm)
    finish(ctx, o3, b3, 'recover/journal-not-fully-read', confirm)
    if not ghost:
        return
    o4 = ctx.ob('replay/not-after-flush', 'recover: a record that was flushed before (ghost mark: highest flushed seqno of its keyspace) is never applied again, even when a compaction '
                'filter has since removed the newest items from the tables', fns)
    check_flushed_ghost(ctx, ex, paths, env, o4, 'recover/filter-removed-newest-item-replayed')


def check_covered_not_replayed(ctx, ex, paths, env, ob, role, confirm):
    """no ghost involved: a record whose seqno is <= the highest seqno in its keyspace's tables is never applied again"""
    bad = []
    for p in paths:
        if p.status != 'returned' or ctx.sat(p.pc + [ret_is_ok(p)], ob)[0] != z3.sat:
            continue
        ob.reach += 1
        for e in [e for e in p.events if e.kind in TREE_W and e.kind != 'T_CLEAR']:
            owner = [k for k in env.ks if obj_name(e).rstrip("'") == k['tree'].name]
            sq = e.args.get('seqno')
            if not owner or not z3.is_expr(sq):
                continue
            hp, pv = owner[0]['tree'].data['persisted']
            if ctx.sat(p.pc + [hp, z3.ULE(sq, pv)], ob)[0] != z3.unsat:
                bad.append((p, f'a record of keyspace {owner[0]["inner"].name} whose seqno is <= the highest seqno in that keyspace\'s tables is applied again: what a compaction filter made of that item '
                               f'(removed, or rewritten under the same seqno) is shadowed by the original after the reopen')); break
        if bad:
            break
    if ob.reach == 0:
        ob.status = 'undecided'; ob.detail = 'vacuous'
    elif not bad:
        ob.status = 'discharged'; ob.sample = {'ok_paths': ob.reach}
    else:
        ctx.candidate(ob, role, f'{ob.id}: {bad[0][1]}', confirm=confirm)


def check_flushed_ghost(ctx, ex, paths, env, ob, role):
    """ghost state: F_k = the highest seqno of keyspace k that was ever flushed.  Without a compaction filter F_k is the tables' highest
    seqno; a filter may have removed the newest flushed items, so F_k >= persisted_k only.  A record with seqno <= F_k was flushed:
    its effect (possibly: removed / rewritten by the filter) is in the tables and must not be applied again."""
    bad = []
    for p in paths:
        if p.status != 'returned' or ctx.sat(p.pc + [ret_is_ok(p)], ob)[0] != z3.sat:
            continue
        ob.reach += 1
        for e in [e for e in p.events if e.kind in TREE_W and e.kind != 'T_CLEAR']:
            owner = [k for k in env.ks if obj_name(e).rstrip("'") == k['tree'].name]
            sq = e.args.get('seqno')
            if not owner or not z3.is_expr(sq):
                continue
            k = owner[0]
            hp, pv = k['tree'].data['persisted']
            nm = k['inner'].name
            F = z3.BitVec(f'{nm}.flushed_upto', 64); hasF = z3.Bool(f'{nm}.has_flushed'); filt = z3.Bool(f'{nm}.has_filter')
            ax = [z3.Implies(hp, z3.And(hasF, z3.UGE(F, pv))), z3.Implies(z3.Not(filt), z3.And(hasF == hp, F == pv))]
            r, m = ctx.sat(p.pc + ax + [hasF, z3.ULE(sq, F), z3.Or(z3.Not(hp), z3.UGT(sq, pv))], ob)
            if r != z3.unsat:
                bad.append((p, f'a record of keyspace {nm} that was already flushed (seqno <= flushed-up-to mark, which exceeds the highest seqno left in the tables because the compaction filter '
                               f'removed the newest items) is applied again: the removed item comes back'))
                break
        if bad:
            break
    if ob.reach == 0:
        ob.status = 'undecided'; ob.detail = 'vacuous'
    elif not bad:
        ob.status = 'discharged'; ob.sample = {'ok_paths': ob.reach}
    else:
        ctx.candidate(ob, role, f'{ob.id}: {bad[0][1]}', confirm=lambda: native_selfcompare(ctx, filtered_newest_programs()))


def check_sealed(ctx, confirm=None, shape=None, tag='', n_ks=2, symbolic_kinds=True):
    shape = shape or (((1, 0), (0, 1)) if ctx.tier == 'quick' else ((2, 0), (0, 1)))
    fns = ['recovery::recover_sealed_memtables']
    o1 = ctx.ob('sealed/apply-rule' + tag, 'recover_sealed_memtables: same apply rule, order and completeness for a sealed journal', fns)
    o2 = ctx.ob('sealed/memtables' + tag, 'recover_sealed_memtables: a keyspace\'s recovered memtable is sealed iff data was applied to it; the journal is re-registered with a watermark '
                'for exactly those keyspaces, carrying the highest applied seqno', fns)
    try:
        ex, paths, env = recov.run_recover(ctx, n_ks=n_ks, shape=(), sealed_shape=shape, symbolic_kinds=symbolic_kinds)
    except Exception as e:      # noqa
        for o in (o1, o2):
            o.status = 'undecided'; o.detail = f'executor: {e!r}'
        return
    b1, b2 = [], []
    inc = [p for p in paths if p.status in ('error', 'timeout', 'loop_bound')]
    if inc:
        for o in (o1, o2):
            o.status = 'undecided'; o.detail = f'executor: {inc[0].status} {inc[0].notes[-1:]}'
        return
    for p in paths:
        if p.status == 'panic' and ctx.sat(p.pc, o2)[0] == z3.sat:
            # a well-formed sealed journal must never make recovery panic (the internal consistency assertion included)
            o2.reach += 1
            b2.append((p, f'recovery of a well-formed sealed journal panics ({"; ".join(str(n) for n in p.notes[-2:])[:160]})')); continue
        if p.status != 'returned' or ctx.sat(p.pc + [ret_is_ok(p)], o1)[0] != z3.sat:
            continue
        reads = [e.args['idx'] for e in p.events if e.kind == 'BATCH_READ']
        o1.reach += 1; o2.reach += 1
        if reads != list(range(len(env.batches))) or not [e for e in p.events if e.kind == 'READER_END']:
            b1.append((p, f'recovery succeeds after reading sealed batches {reads} of {len(env.batches)}')); continue
        exp, why = expected_ops(ctx, p, env, reads, o1)
        if exp is None:
            b1.append((p, why)); continue
        d = compare_ops(ctx, p, env, exp, o1, None)
        if d:
            b1.append((p, d)); continue
        # memtables / watermarks
        touched = {}; in_mem = {}
        for kind, owner, dd, b, i, k in exp:
            touched.setdefault(owner['inner'].name, []).append(b['seqno'])
            if kind == 'T_CLEAR':
                in_mem[owner['inner'].name] = []          # a replayed clear empties the memtable again (and drops the tables: persistent by itself)
            else:
                in_mem.setdefault(owner['inner'].name, []).append(b['seqno'])
        rot = [obj_name(e).rstrip("'") for e in p.events if e.kind == 'T_ROTATE']
        clr = [obj_name(e).rstrip("'") for e in p.events if e.kind == 'T_CLEAR_ACTIVE']
        enq = [e for e in p.events if e.kind == 'JM_ENQUEUE']
        for ks in env.ks:
            nm = ks['inner'].name
            if in_mem.get(nm) and ks['tree'].name not in rot:
                b2.append((p, f'data was replayed into keyspace {nm} but its memtable is not sealed (the journal could be evicted while the data is only in the active memtable)')); break
            if not in_mem.get(nm) and ks['tree'].name in rot:
                b2.append((p, f'keyspace {nm}: an empty memtable is sealed')); break
            if nm not in touched and (ks['tree'].name in rot or ks['tree'].name in clr):
                b2.append((p, f'nothing was replayed into keyspace {nm}, yet its memtable is rotated/cleared')); break
        else:
            if len(enq) != 1:
                b2.append((p, f'the sealed journal is re-registered {len(enq)} times')); continue
            wms = enq[0].args.get('watermarks')
            if wms is None:
                b2.append((p, 'the watermarks of the re-registered journal are not known')); continue
            got = {}
            for ksname, lsn in wms:
                got[ksname] = lsn
            if set(got) != set(touched):
                b2.append((p, f'watermarks registered for {sorted(got)} but data was replayed into {sorted(touched)}')); continue
            for nm, seqs in touched.items():
                mx = seqs[0]
                for s_ in seqs[1:]:
                    mx = z3.If(z3.UGE(mx, s_), mx, s_)
                if ctx.sat(p.pc + [got[nm] != mx], o2)[0] != z3.unsat:
                    b2.append((p, f'the watermark of keyspace {nm} can differ from the highest seqno replayed into it')); break
    finish(ctx, o1, b1, 'recover-sealed/replay-rule', confirm)
    finish(ctx, o2, b2, 'recover-sealed/memtable-or-watermark', confirm)


def finish(ctx, ob, bad, role, confirm=None):
    if ob.reach == 0:
        ob.status = 'undecided'; ob.detail = ob.detail or 'vacuous'
    elif not bad:
        ob.status = 'discharged'; ob.sample = {'ok_paths': ob.reach}
    else:
        ctx.candidate(ob, role, f'{ob.id}: {bad[0][1]}', confirm=confirm or (lambda: native_reopen(ctx)))


# ------------------------------------------------------------------ native
def half_flushed_batch_program(crash=False):
    """a batch over two keyspaces of which only the one listed first (and, in a second round, only the one listed last) is flushed before the reopen / crash"""
    A, B = 'a', 'b'
    k1, k2, k3, k4, k5 = oracle.KEYS
    R = [('crash',)] if crash else [('reopen',), ('check',)]
    return [('ks', A), ('ks', B), ('batch', [('insert', A, k1, '31'), ('insert', B, k1, '41'), ('insert', A, k2, '32')]), ('rotate', A), ('flush',)] + R + \
           [('batch', [('insert', A, k3, '33'), ('insert', B, k2, '42'), ('remove', A, k1)]), ('rotate', B), ('flush',)] + R + [('insert', B, k3, '43')] + R


def reopen_programs(thorough=False):
    A, B = 'a', 'b'
    k1, k2, k3, k4, k5 = oracle.KEYS
    P = {}
    R = [('reopen',), ('check',)]
    # every battery program, re-checked after a reopen at the end and once more
    for name, prog in oracle.battery().items():
        P['bat-' + name] = list(prog) + R + R
    # a reopen after every operation of the mixed program
    mixed = [('ks', A), ('ks', B), ('insert', A, k1, '31'), ('insert', B, k1, '41'), ('rotate', A), ('flush',), ('insert', A, k1, '3132'), ('remove', A, k2),
             ('batch', [('insert', A, k3, '33'), ('remove', B, k1), ('insert', B, k2, '42')]), ('clear', B), ('insert', B, k3, '43'), ('rotate', B), ('flush',),
             ('major_compact', A), ('remove_weak', A, k3), ('insert', A, k4, '')]
    P['reopen-everywhere'] = []
    for op in mixed:
        P['reopen-everywhere'] += [op] + (R if op[0] not in ('ks',) else [])
    P['ingest-over-journaled-key'] = [('ks', A), ('insert', A, k1, '6f6c64'), ('ingest', A, [(k1, '6e6577'), (k2, '32')]), ('check',)] + R + [('insert', A, k3, '33')] + R
    P['ingest-tombstone-over-journaled'] = [('ks', A), ('insert', A, k1, '31'), ('insert', A, k2, '32'), ('ingest', A, [(k1, None)]), ('check',)] + R
    P['clear-then-ingest'] = [('ks', A), ('insert', A, k1, '31'), ('clear', A), ('ingest', A, [(k2, '32')]), ('check',)] + R + R
    P['ingest-then-write'] = [('ks', A), ('ingest', A, [(k1, '31'), (k2, '32')]), ('insert', A, k1, '3131'), ('remove', A, k2), ('check',)] + R + [('ingest', A, [(k3, '33')])] + R
    P['ingest-into-nonempty-flushed'] = [('ks', A), ('insert', A, k1, '31'), ('rotate', A), ('flush',), ('insert', A, k2, '32'), ('ingest', A, [(k1, '3939'), (k3, '33')]), ('check',)] + R
    P['clear-flushed'] = [('ks', A), ('insert', A, k1, '31'), ('rotate', A), ('flush',), ('insert', A, k2, '32'), ('clear', A), ('check',)] + R + [('insert', A, k1, '35')] + R
    P['clear-two-ks-lagging'] = [('ks', A), ('ks', B), ('insert', A, k1, '31'), ('insert', B, k1, '41'), ('clear', A), ('insert', B, k2, '42'), ('rotate', B), ('flush',), ('insert', A, k2, '32')] + R + R
    P['batch-half-flushed'] = half_flushed_batch_program()
    P['cycles-with-writes'] = [('ks', A), ('insert', A, k1, '31')] + R + [('insert', A, k2, '32'), ('remove', A, k1)] + R + [('rotate', A), ('flush',), ('insert', A, k1, '3133')] + R + \
                              [('major_compact', A), ('remove', A, k2)] + R + R
    P['sealed-not-flushed'] = [('ks', A), ('ks', B), ('insert', A, k1, '31'), ('insert', B, k1, '41'), ('rotate', A), ('insert', A, k2, '32'), ('insert', B, k2, '42')] + R + [('insert', A, k3, '33')] + R
    P['delete-keyspace'] = [('ks', A), ('ks', B), ('insert', A, k1, '31'), ('insert', B, k1, '41'), ('delete_ks', B), ('check',)] + R + [('ks', B), ('check',)] + R
    P['kvsep-reopen'] = [('ks', A, 'kvsep=1'), ('insert', A, k1, '31' * 40), ('insert', A, k2, '32'), ('rotate', A), ('flush',), ('insert', A, k3, '33' * 40)] + R + [('major_compact', A), ('insert', A, k1, '34' * 40)] + R
    # sealed journals (journal rotation forced at every flush tick through the threshold hook)
    T = ('threshold', 0)
    P['sealed-lagging-keyspace'] = [T, ('ks', A), ('ks', B), ('insert', A, k1, '31'), ('insert', B, k1, '41'), ('rotate', A), ('flush',), ('insert', B, k2, '42'), ('insert', A, k2, '32')] + R + \
                                   [('remove', B, k1), ('rotate', A), ('flush',)] + R + [('rotate', B), ('flush',)] + R
    P['sealed-then-ingest'] = [T, ('ks', A), ('ks', B), ('insert', A, k1, '6f6c64'), ('insert', B, k1, '41'), ('rotate', B), ('flush',), ('ingest', A, [(k1, '6e6577'), (k2, '32')]), ('check',)] + R + R
    P['sealed-clear-then-ingest'] = [T, ('ks', A), ('ks', B), ('insert', A, k1, '31'), ('insert', B, k1, '41'), ('rotate', B), ('flush',), ('clear', A), ('ingest', A, [(k2, '32')]), ('check',)] + R + R
    P['sealed-clear-in-sealed'] = [T, ('ks', A), ('ks', B), ('insert', A, k1, '31'), ('clear', A), ('insert', A, k2, '32'), ('insert', B, k1, '41'), ('rotate', B), ('flush',), ('insert', A, k3, '33')] + R + R
    P['sealed-two-journals'] = [T, ('ks', A), ('ks', B), ('insert', A, k1, '31'), ('insert', B, k1, '41'), ('rotate', B), ('flush',), ('insert', A, k1, '3132'), ('insert', B, k2, '42'), ('rotate', B), ('flush',),
                                ('remove', A, k1), ('insert', A, k2, '32')] + R + R
    P['tombstones-flushed'] = [('ks', A), ('insert', A, k1, '31'), ('insert', A, k2, '32'), ('rotate', A), ('flush',), ('remove', A, k1), ('remove_weak', A, k2), ('rotate', A), ('flush',)] + R + [('major_compact', A)] + R
    return P


def selfcompare_programs():
    """histories whose content is not a plain reference map (compaction filters): the oracle is the property itself —
    what every read method answers before the close is what it answers after the reopen"""
    S = {}
    S['filter-replaces-newest'] = ('workers=0 filter=a', ['ks a', 'insert a 6b31 31', 'insert a 7231 58', 'rotate a', 'worker_drain', 'major_compact a'])
    S['filter-two-keyspaces'] = ('workers=0 filter=a', ['ks a', 'ks b', 'insert a 7831 58', 'insert b 7831 59', 'insert a 6b31 31', 'rotate a', 'worker_drain', 'rotate b', 'worker_drain', 'major_compact a', 'major_compact b', 'insert b 6b31 41'])
    S['filter-drops-older'] = ('workers=0 filter=a', ['ks a', 'insert a 7831 58', 'insert a 6b31 31', 'rotate a', 'worker_drain', 'major_compact a', 'insert a 6b32 32'])
    return S


def sealed_filter_programs():
    """a sealed journal (kept on disk by another keyspace's unflushed data) holds flushed, filter-rewritten writes AND later unflushed writes of the filtered keyspace"""
    S = {}
    S['filter-sealed-flushed-and-unflushed'] = ('workers=0 filter=a', ['rotation_threshold 1000000000', 'ks a', 'ks b', 'insert b 6b31 41', 'insert a 7231 58', 'insert a 6b31 31', 'rotate a', 'worker_drain', 'major_compact a',
                                                                     'insert a 6b32 32', 'rotation_threshold 0', 'rotate b', 'worker_drain', 'insert a 6b34 34'])
    S.update(selfcompare_programs())
    return S


def filtered_newest_programs():
    """the compaction filter removes the NEWEST flushed item of a keyspace: the tables' highest seqno drops below a journal record that was flushed"""
    S = {}
    S['filter-drops-newest'] = ('workers=0 filter=a', ['ks a', 'insert a 6b31 31', 'insert a 7831 58', 'rotate a', 'worker_drain', 'major_compact a'])
    S['filter-drops-newest-sealed-journal'] = ('workers=0 filter=a', ['rotation_threshold 0', 'ks a', 'ks b', 'insert a 7831 58', 'insert b 6b31 41', 'rotate a', 'worker_drain', 'major_compact a', 'insert b 6b32 42'])
    S['filter-drops-everything'] = ('workers=0 filter=a', ['ks a', 'insert a 7831 58', 'insert a 7832 59', 'rotate a', 'worker_drain', 'major_compact a'])
    return S


def native_selfcompare(ctx, programs=None):
    last = (False, None, 'not run')
    K = ','.join(oracle.KEYS + ['7831', '7231'])
    for name, (opts, ops) in (programs or selfcompare_programs()).items():
        names = sorted({o.split()[1] for o in ops if o.startswith('ks ')})
        reads = [f'readall {n} {K}' for n in names]
        L = ['dir $DIR/db', f'open {opts}'] + ops + ['list_ks'] + reads + ['close', f'open {opts}', 'list_ks'] + [f'ks {n}' for n in names] + reads + \
            ['close', f'open {opts}', 'list_ks'] + [f'ks {n}' for n in names] + reads + ['close']
        spath, out = ctx.run_scenario('\n'.join(L) + '\n', tag='same-' + name)
        if any(c == 'CRASH' for _i, c, _r in out):
            return True, spath, f'history {name}: crash ' + out[-1][2][-200:]
        lk = [r for _i, c, r in out if c == 'list_ks']
        ra = [r for _i, c, r in out if c == 'readall']
        n = len(names)
        if len(lk) == 3 and (lk[0] != lk[1] or lk[0] != lk[2]):
            return True, spath, f'history {name}: keyspaces before the close {lk[0]}, after reopen {lk[1]} / {lk[2]}'
        for r in range(1, 3):
            for j in range(n):
                if len(ra) == 3 * n and ra[j] != ra[r * n + j]:
                    a, b = ra[j].split(';'), ra[r * n + j].split(';')
                    d = [(x, y) for x, y in zip(a, b) if x != y][:1]
                    return True, spath, f'history {name}: keyspace {names[j]} answers differently after reopen #{r}: before {d[0][0]}, after {d[0][1]} (history: {" ; ".join(ops)})'
        last = (False, spath, 'same content after reopen')
    return last


def native_reopen(ctx):
    last = (False, None, 'not run')
    progs = reopen_programs()
    for name, prog in progs.items():
        v, path, d = oracle.run_program(ctx, prog, f'reopen-{name}')
        if v:
            return True, path, f'program {name}: {d}'
        last = (False, path, f'{len(progs)} reopen programs agree with the reference map')
    v, path, d = native_selfcompare(ctx, sealed_filter_programs())
    if v:
        return v, path, d
    return last[0], last[1], last[2] + '; ' + d


def check_two_item_batch(ctx, confirm=None):
    """one batch of two items over two keyspaces (value kinds concrete): a decision taken for one item (skip, stop, cached verdict) must not leak to the other"""
    check_active(ctx, shape=((2, 0),), tag='/two-item-batch', ghost=False, symbolic_kinds=False, confirm=confirm)
    check_sealed(ctx, shape=((2, 0),), tag='/two-item-batch', symbolic_kinds=False, confirm=confirm)


def run(ctx):
    check_active(ctx)
    check_sealed(ctx)
    if ctx.tier == 'quick':
        check_two_item_batch(ctx)
    # what a reopen can replay is what journal maintenance left on disk: the evict rule (decided for C10) is part of this property as well
    from . import c10
    c10.check_maintenance(ctx, confirm=lambda: native_reopen(ctx), with_reclaim=False)
    # values above the journal compression threshold come back through the LZ4 path of the journal codec: writer and reader must agree on what is stored (C15's obligation)
    from . import c15
    c15.check_lz4_coherent(ctx)
    ctx.assumptions += [
        'E8: get_highest_persisted_seqno reports the maximum seqno over the tables of a tree; a table item with seqno s supersedes journal records with seqno <= s',
        'E2: among entries of one key the highest seqno wins (lsm-tree read path); the equality of content after replay follows from the apply rule + E2',
        'journal reader by contract (bytes: C03/C15); keyspace directory scan recover_keyspaces stubbed (C12/C16)',
        f'bounds: 2 keyspaces, batches (items, clears) = {getattr(ctx, "shape", None)}, ids / seqnos / persisted marks / value kinds symbolic',
    ]
    for o in ctx.obligations:
        ctx.samples.append(o.as_dict())
    return ctx.finish()


MUTANTS = [
    {'name': 'revert: active journal replays records already covered by tables (items)', 'edits': [('src/db.rs', "                            .is_some_and(|persisted| persisted >= batch.seqno)", "                            .is_some_and(|_persisted| false)")]},
    {'name': 'coverage test off by one (>)', 'edits': [('src/db.rs', "                            .is_some_and(|persisted| persisted >= batch.seqno)", "                            .is_some_and(|persisted| persisted > batch.seqno)")]},
    {'name': 'replay uses seqno+1', 'edits': [('src/db.rs', "                                tree.insert(item.key, item.value, batch.seqno);", "                                tree.insert(item.key, item.value, batch.seqno + 1);")]},
    {'name': 'weak tombstones replayed as tombstones', 'edits': [('src/db.rs', "                                tree.remove_weak(item.key, batch.seqno);", "                                tree.remove(item.key, batch.seqno);")]},
    {'name': 'clear records not re-executed', 'edits': [('src/db.rs', "                        keyspace.tree.clear().ok();", "                        let _ = &keyspace.tree;")]},
    {'name': 'sealed: coverage rule dropped', 'edits': [('src/recovery.rs', "                    .is_some_and(|persisted| persisted >= batch.seqno)", "                    .is_some_and(|_persisted| false)")]},
    {'name': 'sealed: tombstone replayed as insert of empty value', 'edits': [('src/recovery.rs', "                        tree.remove(item.key, batch.seqno);", "                        tree.insert(item.key, lsm_tree::Slice::from(\"\"), batch.seqno);")]},
    {'name': 'sealed: memtable not sealed after replay', 'edits': [('src/recovery.rs', "            } else if let Some(sealed_memtable) = tree.rotate_memtable() {", "            } else if let Some(sealed_memtable) = None::<std::sync::Arc<lsm_tree::Memtable>> {")]},
]
