"""helpers shared by property modules"""
import re
import z3
from ..symex import Obj, EnumV, Ref, Cell, Ev, deref, bv
from ..contract import mk_seq
from ..core import ret_is_err, ret_is_ok, obj_name

# the single-operation writers of a keyspace and the batch commit (every write of any kind funnels through these)
WRITERS = {
    'insert': r'^keyspace::<impl>::insert$',
    'remove': r'^keyspace::<impl>::remove$',
    'remove_weak': r'^keyspace::<impl>::remove_weak$',
    'clear': r'^keyspace::<impl>::clear$',
    'batch': r'^batch::<impl>::commit$',
}
NO_BACKPRESSURE = [r'local_backpressure$', r'check_write_halt$', r'perform_write_stall$', r'Keyspace::request_rotation$',
                   r'request_rotation$']

JOURNAL_FAULT_KINDS = ('J_APPEND', 'J_FLUSH', 'F_SYNC_ALL', 'F_SYNC_DATA')


def mk_struct(ex, st, ty, name, **by_name):
    o = Obj(ty, name, 'struct')
    names = ex.src.struct_fields(ty) or []
    for k, v in by_name.items():
        idx = names.index(k) if k in names else int(k)
        o.fields[idx] = Cell(v)
    return o


def field(ex, o, name):
    names = ex.src.struct_fields(o.ty) or []
    idx = names.index(name)
    c = o.fields.get(idx)
    return c.val if c is not None else None


def batch_setup(n_items, durability=None, value_types=None):
    """setup hook for WriteBatch::commit: self.data = n symbolic items (value_types: concrete kinds or None=symbolic)"""
    def setup(ex, st, fr):
        items = []
        for i in range(n_items):
            it = Obj('batch::item::Item', f'item{i}', 'struct')
            if value_types is not None:
                it.fields[3] = Cell(ex.mk_enum('lsm_tree::ValueType', value_types[i % len(value_types)], None, f'item{i}.value_type'))
            items.append(it)
        data = mk_seq('Vec<batch::item::Item>', items, 'self.data')
        wb = mk_struct(ex, st, 'batch::WriteBatch', 'self', data=data)
        fr.locals[fr.fn.args[0]] = Cell(wb)
    return setup


def is_poison_store(e):
    if e.kind != 'ATOMIC_STORE':
        return False
    v = e.args.get('val')
    if not (z3.is_bool(v) and z3.is_true(z3.simplify(v))):
        return False
    return 'is_poisoned' in obj_name(e) or 'poison' in obj_name(e) or any('poison' in s for s in e.stack)


def is_poison_load(e):
    return e.kind == 'ATOMIC_LOAD' and ('is_poisoned' in obj_name(e) or any(s.endswith('::is_poisoned') for s in e.stack))


def is_journal_lock(e):
    return e.kind == 'LOCK' and 'journal' in obj_name(e) and 'writer' in obj_name(e)


def is_journal_unlock(e):
    return e.kind == 'UNLOCK' and 'journal' in obj_name(e) and 'writer' in obj_name(e)


def journal_fault_events(p):
    return [e for e in p.events if e.kind in JOURNAL_FAULT_KINDS and e.fault is not None and not z3.is_false(e.fault)]


def returned(paths):
    return [p for p in paths if p.status == 'returned']


def incomplete(paths):
    """paths that did not reach a return for a reason that matters (executor limits)"""
    return [p for p in paths if p.status in ('error', 'timeout', 'loop_bound')]


def describe_path(p, maxev=14):
    ev = [repr(e)[:110] for e in p.events[:maxev]]
    return {'status': p.status, 'pc': [str(z3.simplify(c))[:80] for c in p.pc[:8]], 'events': ev,
            'ret': repr(p.ret)[:80]}
