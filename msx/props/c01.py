"""C01 — ordered-map equivalence under background maintenance (fjall layer; lsm-tree by contract E1-E8).

M obligations over MIR paths (z3 validity):
  W1/<op>   every acknowledged write applies exactly the caller's key/value/kind to the handle's own tree, once, with the
            one seqno drawn in the call; the journal record carries the same seqno, keyspace id, kind, key and value and
            its checksum covers exactly the item bytes written
  W2/<op>   the write is published (visible seqno raised to seqno+1) after the apply and before the call returns
  R1/<m>    point reads and first/last/is_empty pass the caller's key unchanged and read the latest state (SeqNo::MAX);
            Iter::next/next_back and Guard::* forward to the same-named inner method; len() counts the items of iter()
  G1/<fn>   flush / compaction / major compaction hand the tree exactly the GC watermark read from the snapshot tracker
Counterexamples are replayed natively against a sorted reference map (battery of programs with maintenance steps).
"""
import z3
from ..core import ret_is_err, ret_is_ok, obj_name
from ..symex import Obj, EnumV, Ref, Cell, deref, bv, base_name
from ..contract import cid
from . import common as C
from . import writepath as W
from . import oracle

MAXU64 = 2 ** 64 - 1


def flat_objs(segs):
    out = []
    for s in segs:
        if s[0] == 'obj':
            out.append(s[1])
        elif s[0] == 'lz4':
            out += flat_objs(s[1])
        elif s[0] == 'val' and isinstance(s[1], (Obj,)):
            out.append(s[1])
    return out


def check_single(ctx, op, parts=('tree', 'publish'), journal_confirm=None):
    ex, paths, recs = W.run_op(ctx, op)
    o1 = ctx.ob(f'W1/{op}', f'Keyspace::{op}: exactly one tree write, on this handle\'s tree, with the caller\'s key/value/kind and the one seqno drawn in the call', [C.WRITERS[op]]) if 'tree' in parts else None
    o2 = ctx.ob(f'W2/{op}', f'Keyspace::{op}: published (visible := seqno+1) after the apply, before returning', [C.WRITERS[op]]) if 'publish' in parts else None
    oj = ctx.ob(f'J1/{op}', f'Keyspace::{op}: the journal record carries the drawn seqno, item count 1, this keyspace\'s id, the kind tag, the caller\'s key and value; checksum over exactly the item bytes', [C.WRITERS[op]]) if 'journal' in parts else None
    if C.incomplete(paths):
        for o in (o1, o2, oj):
            if o is not None:
                o.status = 'undecided'; o.detail = 'executor: ' + str(C.incomplete(paths)[0].notes[-1:])
        return
    bad1, bad2, badj = [], [], []
    class _N:
        reach = 0
    o1_ = o1 or _N(); o2_ = o2 or _N(); oj_ = oj or _N()
    for r in recs:
        if not r.ok:
            continue
        p = r.p
        o1_.reach += 1; o2_.reach += 1; oj_.reach += 1
        inner, ksid, tree = W.self_keyspace(ex, p)
        o1q = o1 or oj or o2
        if len(r.nexts) != 1:
            bad1.append((p, f'{len(r.nexts)} seqnos drawn')); badj.append((p, f'{len(r.nexts)} seqnos drawn')); continue
        s = r.nexts[0].res
        tw = r.tree
        if len(tw) != 1 or tw[0].kind not in W.TREE_FOR[op]:
            bad1.append((p, f'tree events {[e.kind for e in tw]} (expected one of {W.TREE_FOR[op]})')); continue
        t = tw[0]
        if tree is not None and t.obj is not tree:
            bad1.append((p, 'the write goes to a tree that is not this handle\'s tree')); continue
        if op != 'clear':
            key = W.arg_value(p, 'key')
            if key is None or cid(t.args['key']) != cid(key):
                bad1.append((p, 'the key applied to the tree is not the caller\'s key')); continue
            if op == 'insert':
                val = W.arg_value(p, 'value')
                if val is None or cid(t.args['value']) != cid(val):
                    bad1.append((p, 'the value applied to the tree is not the caller\'s value')); continue
            if ctx.sat(p.pc + [t.args['seqno'] != s], o1q)[0] != z3.unsat:
                bad1.append((p, 'the tree write does not use the seqno drawn in this call')); continue
        # journal record
        o1 = oj or o1q
        segs = W.journal_segments(r)
        u64s = W.seg_values(segs, 'u64le'); u8s = W.seg_values(segs, 'u8'); u32s = W.seg_values(segs, 'u32le')
        ok = True; why = ''
        if not u64s or ctx.sat(p.pc + [u64s[0] != s], o1)[0] != z3.unsat:
            ok = False; why = 'journal Start marker does not carry the drawn seqno'
        elif not u32s or ctx.sat(p.pc + [u32s[0] != 1], o1)[0] != z3.unsat:
            ok = False; why = 'journal item count is not 1'
        elif len(u64s) < 3 or ksid is None or ctx.sat(p.pc + [u64s[1] != ksid], o1)[0] != z3.unsat:
            ok = False; why = 'journal record does not carry this keyspace\'s id'
        else:
            tags = [z3.simplify(x) if z3.is_expr(x) else x for x in u8s]
            want_first = [1, 4] if op == 'clear' else [1, 2]
            if len(tags) < 3 or not all(z3.is_bv_value(tags[i]) and tags[i].as_long() == want_first[i] for i in range(2)):
                ok = False; why = f'journal tags {tags[:3]}'
            elif op != 'clear':
                vt = u8s[2]
                if ctx.sat(p.pc + [vt != z3.BitVecVal(W.KIND_TAG[op], 8)], o1)[0] != z3.unsat:
                    ok = False; why = f'journal value-type tag is not {W.KIND_TAG[op]} for {op}'
                objs = flat_objs(segs)
                key = W.arg_value(p, 'key')
                if ok and not any(cid(x) == cid(key) for x in objs):
                    ok = False; why = 'journal record does not contain the caller\'s key'
                if ok and op == 'insert':
                    val = W.arg_value(p, 'value')
                    if not any(cid(x) == cid(val) for x in objs):
                        ok = False; why = 'journal record does not contain the caller\'s value'
            if ok:
                # checksum: End marker carries HASH_FINISH over exactly the item append
                hf = [e for e in p.events if e.kind == 'HASH_FINISH']
                if len(hf) != 1 or len(r.appends) != 3:
                    ok = False; why = f'{len(hf)} checksums / {len(r.appends)} appends'
                else:
                    hashed = hf[0].args['bytes']; item = r.appends[1].args['bytes']
                    if [x[0] for x in hashed] != [x[0] for x in item] or any((a[1] is not b[1]) and not (z3.is_expr(a[1]) and z3.is_expr(b[1]) and z3.eq(a[1], b[1])) for a, b in zip(hashed, item) if a[0] not in ('lz4',)):
                        ok = False; why = 'checksum is not taken over the item bytes that were written'
                    elif ctx.sat(p.pc + [u64s[-1] != hf[0].res], o1)[0] != z3.unsat:
                        ok = False; why = 'End marker does not carry the computed checksum'
        if not ok:
            badj.append((p, why))
        # W2
        pubs = [e for e in r.publish if e.idx > t.idx]
        if not pubs or ctx.sat(p.pc + [pubs[-1].args['val'] != s + 1], o2 or o1q)[0] != z3.unsat:
            bad2.append((p, 'no publish of seqno+1 after the apply'))
    o1 = o1_ if not isinstance(o1_, _N) else None
    for ob, bad, conf in ((o1, bad1, lambda: oracle.run_battery(ctx, f'c01-{op}')), (o2, bad2, lambda: oracle.run_battery(ctx, f'c01-{op}')),
                          (oj, badj, journal_confirm)):
        if ob is None:
            continue
        if ob.reach == 0:
            ob.status = 'undecided'; ob.detail = 'vacuous: no acknowledged path'
        elif not bad:
            ob.status = 'discharged'; ob.sample = {'ok_paths': ob.reach}
        else:
            p, why = bad[0]
            ctx.candidate(ob, f'{op}/{ob.id.split("/")[0]}', f'{op}: {why}; events: ' + ' · '.join(e.kind for e in p.events)[:200], confirm=conf)


def _subterms(e, seen=None, depth=0):
    seen = seen if seen is not None else set()
    if e.get_id() in seen or depth > 40:
        return
    seen.add(e.get_id())
    yield e
    for ch in e.children():
        yield from _subterms(ch, seen, depth + 1)


def check_batch(ctx, n):
    ex, paths, recs = W.run_op(ctx, 'batch', n_items=n, value_types=None)
    o1 = ctx.ob(f'W1/batch{n}', f'WriteBatch::commit ({n} items): item i is applied to item i\'s keyspace tree with its key/value/kind and the single batch seqno; journal count = {n}', [C.WRITERS['batch']])
    o2 = ctx.ob(f'W2/batch{n}', f'WriteBatch::commit ({n} items): published after the last apply, before returning', [C.WRITERS['batch']])
    if C.incomplete(paths):
        for o in (o1, o2):
            o.status = 'undecided'; o.detail = 'executor: ' + str(C.incomplete(paths)[0].notes[-1:])
        return
    bad1, bad2 = [], []
    for r in recs:
        if not r.ok:
            continue
        p = r.p
        o1.reach += 1; o2.reach += 1
        if len(r.nexts) != 1:
            bad1.append((p, f'{len(r.nexts)} seqnos drawn')); continue
        s = r.nexts[0].res
        fr = p.st.frames[0]
        wb = fr.locals[fr.fn.args[0]].val
        # items as set up: self.data (moved out by mem::take: find them through the tree events instead)
        if len(r.tree) != n:
            bad1.append((p, f'{len(r.tree)} tree writes for {n} items')); continue
        names_item = ex.src.struct_fields('batch::item::Item')
        ok = True; why = ''
        # which item does each tree write belong to (by its key); items of different keyspaces may be applied in any order, items that can
        # belong to the same keyspace must keep the order in which they were added (same seqno: the later apply wins)
        import re as _re
        owner = []
        for t in r.tree:
            k = t.args.get('key')
            m_ = _re.match(r'item(\d+)\.key', k.name) if isinstance(k, Obj) else None
            owner.append(int(m_.group(1)) if m_ else None)
        if None in owner or sorted(owner) != list(range(n)):
            bad1.append((p, f'the tree writes carry the keys of items {owner}: not every item is applied exactly once')); continue

        def ks_id(i):
            from .c05 import find_objs
            data = deref(wb).fields.get(ex.src.struct_fields('batch::WriteBatch').index('data')) if isinstance(deref(wb), Obj) else None
            for t in r.tree:
                pass
            return None
        pos = {it: r.tree[q].idx for q, it in enumerate(owner)}
        for a_ in range(n):
            for b_ in range(a_ + 1, n):
                if pos[a_] > pos[b_]:
                    ida = [c for c in p.pc if f'item{a_}.keyspace' in str(c) and f'item{b_}.keyspace' in str(c)]
                    ta = [e for e in r.tree if owner[r.tree.index(e)] == a_][0]; tb = [e for e in r.tree if owner[r.tree.index(e)] == b_][0]
                    # the two items can be in the same keyspace unless the path says their keyspace ids differ
                    idvars = {}
                    for c in p.pc:
                        for sub in _subterms(c):
                            if z3.is_const(sub) and z3.is_bv(sub):
                                sn = str(sub)
                                for q in (a_, b_):
                                    if sn.startswith(f'item{q}.keyspace') and sn.split('!')[0].endswith('.id'):
                                        idvars[q] = sub
                    same_possible = True
                    if a_ in idvars and b_ in idvars:
                        same_possible = ctx.sat(p.pc + [idvars[a_] == idvars[b_]], o1)[0] == z3.sat
                    if same_possible:
                        ok = False; why = (f'item {b_} is applied before item {a_} although both can belong to the same keyspace: with one seqno for the whole batch the later apply wins, '
                                           f'so an earlier write of the batch can override a later one'); break
            if not ok:
                break
        if not ok:
            bad1.append((p, why)); continue
        for q, t in enumerate(r.tree):
            i = owner[q]
            if ctx.sat(p.pc + [t.args['seqno'] != s], o1)[0] != z3.unsat:
                ok = False; why = f'item {i} is applied with a seqno different from the batch seqno'; break
            if f'item{i}.' not in obj_name(t) and not obj_name(t).startswith(f'item{i}'):
                ok = False; why = f'tree write {i} goes to {obj_name(t)}, not to item {i}\'s keyspace'; break
            k = t.args['key']
            if not (isinstance(k, Obj) and k.name.startswith(f'item{i}.key')):
                ok = False; why = f'tree write {i} uses key {k!r}'; break
            # kind: the item's value type decides the tree operation
            vt = [c.val for c in p.st.frames[0].locals.values()]
            disc = z3.BitVec(f'disc_item{i}.value_type', 64)
            dv = None
            for c in p.pc:
                for sub in _subterms(c):
                    if z3.is_const(sub) and str(sub).startswith(f'disc_item{i}.value_type'):
                        dv = sub
            if dv is not None:
                want = {'T_INSERT': 0, 'T_REMOVE': 1, 'T_REMOVE_WEAK': 2}[t.kind]
                if ctx.sat(p.pc + [dv != bv(want)], o1)[0] != z3.unsat:
                    ok = False; why = f'item {i}: tree operation {t.kind} does not match the item\'s kind'; break
            if t.kind == 'T_INSERT':
                v = t.args.get('value')
                if not (isinstance(v, Obj) and v.name.startswith(f'item{i}.value')):
                    ok = False; why = f'tree write {i} uses value {v!r}'; break
        segs = W.journal_segments(r)
        u32s = W.seg_values(segs, 'u32le'); u64s = W.seg_values(segs, 'u64le')
        if ok and (not u32s or ctx.sat(p.pc + [u32s[0] != n], o1)[0] != z3.unsat):
            ok = False; why = 'journal Start marker item count differs from the number of items'
        if ok and (not u64s or ctx.sat(p.pc + [u64s[0] != s], o1)[0] != z3.unsat):
            ok = False; why = 'journal Start marker does not carry the batch seqno'
        if ok and len(r.appends) != n + 2:
            ok = False; why = f'{len(r.appends)} journal appends for {n} items'
        if ok:
            hf = [e for e in p.events if e.kind == 'HASH_FINISH']
            if len(hf) != 1:
                ok = False; why = f'{len(hf)} checksums'
            else:
                hashed = [x[0] for x in hf[0].args['bytes']]
                written = [x[0] for e in r.appends[1:-1] for x in e.args['bytes']]
                if hashed != written:
                    ok = False; why = 'checksum does not cover exactly the item bytes written'
                elif ctx.sat(p.pc + [u64s[-1] != hf[0].res], o1)[0] != z3.unsat:
                    ok = False; why = 'End marker does not carry the computed checksum'
        if not ok:
            bad1.append((p, why)); continue
        pubs = [e for e in r.publish if e.idx > r.tree[-1].idx]
        if not pubs or ctx.sat(p.pc + [pubs[-1].args['val'] != s + 1], o2)[0] != z3.unsat:
            bad2.append((p, 'no publish of seqno+1 after the last apply'))
    for ob, bad in ((o1, bad1), (o2, bad2)):
        if ob.reach == 0:
            ob.status = 'undecided'; ob.detail = 'vacuous'
        elif not bad:
            ob.status = 'discharged'; ob.sample = {'ok_paths': ob.reach}
        else:
            p, why = bad[0]
            ctx.candidate(ob, f'batch/{ob.id.split("/")[0]}', f'batch: {why}', confirm=lambda: oracle.run_battery(ctx, 'c01-batch'))


READ_EV = {'get': 'T_GET', 'contains_key': 'T_CONTAINS', 'size_of': 'T_SIZE_OF', 'first_key_value': 'T_FIRST', 'last_key_value': 'T_LAST', 'is_empty': 'T_IS_EMPTY'}


def check_reads(ctx):
    for m, evk in READ_EV.items():
        pat = rf'^keyspace::<impl>::{m}$'
        ob = ctx.ob(f'R1/{m}', f'Keyspace::{m}: one tree read of the same name on this handle\'s tree, caller\'s key unchanged, at SeqNo::MAX', [pat])
        ex, paths = ctx.run(pat, cache_key='r1.' + m, loop_bound=2)
        bad = []
        for p in paths:
            if p.status != 'returned':
                continue
            reads = [e for e in p.events if e.kind.startswith('T_') and e.kind not in ('T_QUERY',)]
            ob.reach += 1
            if len(reads) != 1 or reads[0].kind != evk:
                bad.append((p, f'tree events {[e.kind for e in reads]}')); continue
            e = reads[0]
            s = e.args.get('seqno')
            if not z3.is_bv(s) or ctx.sat(p.pc + [s != bv(MAXU64)], ob)[0] != z3.unsat:
                bad.append((p, 'does not read the latest state (SeqNo::MAX)')); continue
            if 'key' in e.args:
                key = W.arg_value(p, 'key')
                if key is None or cid(e.args['key']) != cid(key):
                    bad.append((p, 'reads a key other than the caller\'s')); continue
            inner, ksid, tree = W.self_keyspace(ex, p)
            if tree is not None and e.obj is not tree:
                bad.append((p, 'reads a tree that is not this handle\'s')); continue
        finish_simple(ctx, ob, bad, lambda: oracle.run_battery(ctx, 'c01-reads'), f'Keyspace.{m}/wrong-read')
    # iterator and guard forwarding
    for m, evk in (('next', 'IT_NEXT'), ('next_back', 'IT_NEXT_BACK')):
        pat = rf'^iter::<impl>::{m}$'
        ob = ctx.ob(f'R1/Iter.{m}', f'Iter::{m} forwards to the inner iterator\'s {m} and wraps the item unchanged', [pat])
        ex, paths = ctx.run(pat, cache_key='it.' + m, loop_bound=2)
        bad = []
        for p in paths:
            if p.status != 'returned':
                continue
            its = [e for e in p.events if e.kind in ('IT_NEXT', 'IT_NEXT_BACK')]
            ob.reach += 1
            if len(its) != 1 or its[0].kind != evk:
                bad.append((p, f'inner iterator events {[e.kind for e in its]}'))
        finish_simple(ctx, ob, bad, lambda: oracle.run_battery(ctx, 'c01-iter'), f'Iter.{m}/wrong-direction')
    for m in ('key', 'value', 'size', 'into_inner'):
        pat = rf'^guard::<impl>::{m}$'
        ob = ctx.ob(f'R1/Guard.{m}', f'Guard::{m} forwards to the inner guard\'s {m}', [pat])
        ex, paths = ctx.run(pat, cache_key='g.' + m, loop_bound=2)
        bad = []
        for p in paths:
            if p.status != 'returned':
                continue
            calls = [e for e in p.events if e.kind == 'CALL' and 'Guard' in e.args.get('callee', '')]
            ob.reach += 1
            if len(calls) != 1 or not calls[0].args['callee'].endswith('::' + m):
                bad.append((p, f'calls {[e.args["callee"] for e in calls]}'))
        finish_simple(ctx, ob, bad, lambda: oracle.run_battery(ctx, 'c01-guard'), f'Guard.{m}/wrong-forward')
    # len() counts the items of iter()
    pat = r'^keyspace::<impl>::len$'
    ob = ctx.ob('R1/len', 'Keyspace::len returns the number of items produced by a full scan at a registered instant', [pat])
    ex, paths = ctx.run(pat, cache_key='len', loop_bound=3, no_inline=[r'SnapshotTracker::gc$'])
    bad = []
    for p in paths:
        if p.status != 'returned' or not isinstance(p.ret, EnumV):
            continue
        if ctx.sat(p.pc + [ret_is_ok(p)], ob)[0] != z3.sat:
            continue
        n_some = 0
        for e in p.events:
            if e.kind == 'IT_NEXT' and isinstance(e.res, EnumV):
                if ctx.sat(p.pc + [e.res.disc != bv(1)], ob)[0] == z3.unsat:
                    n_some += 1
        ob.reach += 1
        okp = p.ret.payloads.get('Ok')
        v = okp.fields[0].val if okp is not None and 0 in okp.fields else None
        if not z3.is_bv(v) or ctx.sat(p.pc + [v != z3.BitVecVal(n_some, v.size())], ob)[0] != z3.unsat:
            bad.append((p, f'returns {v} after {n_some} items'))
        if not any(e.kind == 'T_ITER' for e in p.events):
            bad.append((p, 'does not scan the tree'))
    finish_simple(ctx, ob, bad, lambda: oracle.run_battery(ctx, 'c01-len'), 'Keyspace.len/wrong-count')


def finish_simple(ctx, ob, bad, confirm, role):
    if ob.reach == 0:
        ob.status = 'undecided'; ob.detail = 'vacuous'
    elif not bad:
        ob.status = 'discharged'; ob.sample = {'paths': ob.reach}
    else:
        ctx.candidate(ob, role, f'{ob.id}: {bad[0][1]}', confirm=confirm)


def check_maintenance(ctx):
    for name, pat, evk in (('flush-worker', r'^flush::worker::run$', 'T_FLUSH'), ('compaction-worker', r'^compaction::worker::run$', 'T_COMPACT'),
                           ('major_compact', r'^keyspace::<impl>::major_compact$', 'T_MAJOR_COMPACT')):
        ob = ctx.ob(f'G1/{name}', f'{name}: the GC watermark handed to the tree is the tracker\'s watermark read in the same call', [pat])
        ex, paths = ctx.run(pat, cache_key='g1.' + name, loop_bound=2)
        bad = []
        for p in paths:
            for e in p.events:
                if e.kind == evk:
                    ob.reach += 1
                    wm = e.args.get('watermark')
                    loads = [x for x in p.events if x.kind == 'ATOMIC_LOAD' and 'lowest_freed_instant' in obj_name(x) and x.idx < e.idx]
                    if not loads or not z3.is_bv(wm) or ctx.sat(p.pc + [wm != loads[-1].res], ob)[0] != z3.unsat:
                        bad.append((p, f'watermark argument is {wm}, not the tracker\'s watermark'))
        finish_simple(ctx, ob, bad, lambda: oracle.run_battery(ctx, 'c01-maint', extra=SNAPSHOT_MAINT), f'{name}/wrong-gc-watermark')


# maintenance under a live snapshot: a wrong watermark shows up as a changed snapshot answer or lost data
SNAPSHOT_MAINT = {}


def check_tx_keyspace_reads(ctx):
    """the keyspaces of the two transactional databases are keyspaces as well: their point reads forward to the inner keyspace's method of the same name with the caller's key,
    first/last_key_value go through a fresh read transaction's method of the same name; the result is handed back unchanged"""
    for mod, nm in (('single_writer', 'SingleWriterTxKeyspace'), ('optimistic', 'OptimisticTxKeyspace')):
        ob = ctx.ob(f'tx-keyspace-reads/{nm}', f'{nm}::get / size_of / contains_key / approximate_len call the inner Keyspace method of the same name with the same key; first_key_value / last_key_value '
                    'call the read transaction\'s method of the same name on this keyspace; each returns that result unchanged', [f'{mod}::keyspace::<impl>::*'])
        bad = []
        for m in ('get', 'size_of', 'contains_key', 'approximate_len', 'first_key_value', 'last_key_value'):
            pat = rf'^{mod}::keyspace::<impl>::{m}$'
            try:
                ex, paths = ctx.run(pat, cache_key='c01.txks.' + pat, loop_bound=2,
                                    no_inline=[r'^keyspace::<impl>::(get|size_of|contains_key|approximate_len|path)$', r'Keyspace::(get|size_of|contains_key|approximate_len|path)$', r'read_tx$', r'(first|last)_key_value$'])
            except KeyError:
                continue
            for p in paths:
                if p.status in ('error', 'timeout'):
                    ob.status = 'undecided'; ob.detail = f'executor: {p.status} {p.notes[-1:]}'; break
                if p.status != 'returned':
                    continue
                ob.reach += 1
                calls = [e for e in p.events if e.kind == 'CALL' and not e.args.get('callee', '').endswith('read_tx')]
                if len(calls) != 1 or calls[0].args['callee'].rsplit('::', 1)[-1] != m:
                    bad.append((p, f'{nm}::{m} answers through {[c.args["callee"] for c in calls]}')); break
                c = calls[0]
                if m in ('get', 'size_of', 'contains_key'):
                    fr = p.st.frames[0] if p.st.frames else None
                    key_in = deref(fr.locals[fr.fn.args[1]].val) if fr is not None else None
                    key_out = deref(c.args['args'][1]) if len(c.args.get('args', [])) > 1 else None
                    if key_in is None or key_out is None or (getattr(key_in, 'uid', 1) != getattr(key_out, 'uid', 2) and key_in is not key_out):
                        bad.append((p, f'{nm}::{m} passes another key to the inner keyspace')); break
                same = (p.ret is c.res) or (getattr(p.ret, 'disc', 1) is getattr(c.res, 'disc', 2)) or (z3.is_expr(p.ret) and z3.is_expr(c.res) and z3.eq(p.ret, c.res)) or \
                       (getattr(deref(p.ret), 'uid', 1) == getattr(deref(c.res), 'uid', 2))
                if not same:
                    bad.append((p, f'{nm}::{m} does not return the inner result unchanged')); break
            if bad or ob.detail:
                break
        if ob.detail:
            continue
        if ob.reach == 0:
            ob.status = 'undecided'; ob.detail = 'vacuous'
        elif not bad:
            ob.status = 'discharged'; ob.sample = {'paths': ob.reach}
        else:
            ctx.candidate(ob, f'{nm}/read-not-forwarded', f'{ob.id}: {bad[0][1]}', confirm=lambda mod=mod: native_tx_keyspace_reads(ctx, 'single' if mod == 'single_writer' else 'opt'))


def native_tx_keyspace_reads(ctx, kind):
    """the reference-map battery on a transactional database: every read of the driver goes through the transactional keyspace's own methods"""
    K = ['6b31', '6b32', '6b33', '6b39']
    L = ['dir $DIR/db', f'kind {kind}', 'open workers=0', 'ks a'] + [f'wreads a {k}' for k in K] + ['insert a 6b32 32', 'insert a 6b31 3131', 'insert a 6b33 -'] + [f'wreads a {k}' for k in K] + \
        ['remove a 6b31', 'rotate a', 'worker_drain'] + [f'wreads a {k}' for k in K] + ['close']
    spath, out = ctx.run_scenario('\n'.join(L) + '\n', tag=f'txks-reads-{kind}')
    rs = [(c, r) for _i, c, r in out]
    if any(c == 'CRASH' for c, _r in rs):
        return True, spath, 'crash: ' + rs[-1][1][-200:]
    for c, r in rs:
        if c == 'wreads' and r.startswith('w['):
            wv, iv = r[2:].split('] i[')
            if wv != iv.rstrip(']'):
                return True, spath, f'a read through the transactional keyspace answers {wv}, the keyspace itself answers {iv.rstrip("]")}'
    return False, spath, 'held natively'


def run(ctx):
    ctx.assumptions += [
        'E1-E8: lsm-tree implements an MVCC ordered map (insert/remove/get/scan at an instant, flush/compaction keep the latest version and everything above the watermark)',
        'byte-string conversions (Into/From/AsRef/clone) preserve content identity',
        'xxh3 is a function of the bytes it is fed (F5)',
        'batch size 2 (quick) / 3 (thorough); single thread',
    ]
    for op in ('insert', 'remove', 'remove_weak', 'clear'):
        check_single(ctx, op)
    check_batch(ctx, 2)
    if ctx.tier == 'thorough':
        check_batch(ctx, 3)
    check_reads(ctx)
    check_maintenance(ctx)
    # a bulk ingestion takes effect as ONE step of the write order (its tables get a seqno above every write applied before and below every write
    # applied after) only because it holds the journal lock across the tree ingestion: the obligation of C14, part of "point reads and scans agree"
    from . import c14
    c14.check_ingestion(ctx)
    check_tx_keyspace_reads(ctx)
    # every tree of the database (new, recovered, meta) must be wired to the same two counters in the same roles (shared obligations, see wiring.py)
    from . import wiring
    wiring.check_all(ctx)
    for o in ctx.obligations:
        ctx.samples.append(o.as_dict())
    return ctx.finish()


MUTANTS = [
    {'name': 'single-writer keyspace: last_key_value answers with first_key_value', 'edits': [('src/tx/single_writer/keyspace.rs', "        read_tx.last_key_value(self)", "        read_tx.first_key_value(self)")]},
    {'name': 'optimistic keyspace: contains_key asks for size_of', 'edits': [('src/tx/optimistic/keyspace.rs', "        self.inner.contains_key(key)", "        self.inner.size_of(key).map(|x| x.is_some_and(|n| n > 0))")]},
    {'name': 'remove applies to the tree with seqno + 1', 'edits': [('src/keyspace/mod.rs', """        let (item_size, memtable_size) = self.tree.remove(key, seqno);

        self.supervisor.snapshot_tracker.publish(seqno);

        drop(journal_writer);

        self.supervisor.write_buffer_size.allocate(item_size);
        self.maintenance(memtable_size);

        Ok(())
    }

    /// Removes an item from the keyspace, leaving behind a weak tombstone.""", """        let (item_size, memtable_size) = self.tree.remove(key, seqno + 1);

        self.supervisor.snapshot_tracker.publish(seqno);

        drop(journal_writer);

        self.supervisor.write_buffer_size.allocate(item_size);
        self.maintenance(memtable_size);

        Ok(())
    }

    /// Removes an item from the keyspace, leaving behind a weak tombstone.""")]},
    {'name': 'Iter::next_back calls next', 'edits': [('src/iter.rs', "self.iter.next_back().map(Guard)", "self.iter.next().map(Guard)")]},
    {'name': 'Guard::value forwards to key', 'edits': [('src/guard.rs', "self.0.value().map_err(Into::into)", "self.0.key().map_err(Into::into)")]},
    {'name': 'insert does not publish', 'edits': [('src/keyspace/mod.rs', """        let (item_size, memtable_size) = self.tree.insert(key, value, seqno);

        self.supervisor.snapshot_tracker.publish(seqno);
""", """        let (item_size, memtable_size) = self.tree.insert(key, value, seqno);
""")]},
    {'name': 'batch applies item i with batch_seqno + i', 'edits': [('src/batch/mod.rs', """        for item in std::mem::take(&mut self.data) {
            // TODO: need a better, generic write op
            let (item_size, _) = match item.value_type {
                ValueType::Value => item.keyspace.tree.insert(item.key, item.value, batch_seqno),""", """        let mut n = 0;
        for item in std::mem::take(&mut self.data) {
            n += 1;
            // TODO: need a better, generic write op
            let (item_size, _) = match item.value_type {
                ValueType::Value => item.keyspace.tree.insert(item.key, item.value, batch_seqno + n - 1),""")]},
    {'name': 'batch tombstones are applied as inserts of the empty value', 'edits': [('src/batch/mod.rs', "ValueType::Tombstone => item.keyspace.tree.remove(item.key, batch_seqno),", "ValueType::Tombstone => item.keyspace.tree.insert(item.key, item.value, batch_seqno),")]},
    {'name': 'contains_key reads at seqno - 1 of the current counter', 'edits': [('src/keyspace/mod.rs', "self.tree.contains_key(key, SeqNo::MAX).map_err(Into::into)", "self.tree.contains_key(key, self.supervisor.snapshot_tracker.get().saturating_sub(1)).map_err(Into::into)")]},
    {'name': 'len saturates at 2', 'edits': [('src/keyspace/mod.rs', """            let _ = guard.key()?;
            count += 1;""", """            let _ = guard.key()?;
            if count < 2 {
                count += 1;
            }""")]},
    {'name': 'last_key_value returns the first', 'edits': [('src/keyspace/mod.rs', "self.tree.last_key_value(SeqNo::MAX, None).map(Guard)", "self.tree.first_key_value(SeqNo::MAX, None).map(Guard)")]},
    {'name': 'flush worker passes the current seqno as GC watermark', 'edits': [('src/flush/worker.rs', "let gc_watermark = snapshot_tracker.get_seqno_safe_to_gc();", "let gc_watermark = snapshot_tracker.get();")]},
    {'name': 'clear does not clear the tree when manual persist is on', 'edits': [('src/keyspace/mod.rs', """        self.tree.clear().inspect_err(|_| {
            self.is_poisoned.poison();
        })?;""", """        if !self.config.manual_journal_persist {
            self.tree.clear().inspect_err(|_| {
                self.is_poisoned.poison();
            })?;
        }""")]},
]
