"""C05 — snapshots, read transactions and iterators are frozen in time.

M obligations (MIR paths, z3):
  view-instant/<view>.<method>   every tree read issued by a view passes exactly that view's instant (no SeqNo::MAX,
                                 no other counter value); returned iterators own a *registered* nonce of the same instant
  scan-instant/Keyspace.<m>      Keyspace::{iter,range,prefix}: the scan reads at the instant of the nonce opened in the
                                 same call and the returned Iter owns that nonce
  close-once/<fn>                along every path of every function that consumes a view, each tracker registration
                                 is closed exactly once
  tracker-step/<fn>              one inductive step of the snapshot tracker from an arbitrary state satisfying the
                                 invariant Inv (live holder ⇒ entry present, count ≥ multiplicity, watermark < instant;
                                 watermark < visible seqno; keys ≤ visible seqno) re-establishes Inv
Counterexamples are replayed natively before they are reported.
"""
import z3
from ..core import ret_is_err, ret_is_ok, obj_name
from ..symex import Obj, EnumV, Ref, Cell, deref, bv
from ..contract import dm_lookup, dm_slots
from . import common as C

CM_OPAQUE = [r'ConflictManager::(mark_read|mark_range|mark_conflict|push_read)$', r'SnapshotTracker::gc$']
READS = ('T_GET', 'T_CONTAINS', 'T_SIZE_OF', 'T_ITER', 'T_RANGE', 'T_PREFIX', 'T_FIRST', 'T_LAST', 'T_IS_EMPTY', 'T_LEN')
POINT = ['get', 'contains_key', 'size_of']
SCANS = ['iter', 'range', 'prefix']
ENDS = ['first_key_value', 'last_key_value']

VIEWS = {
    'Snapshot': ('snapshot::<impl>::', 'Snapshot'),
    'BaseTransaction': ('tx::write_tx::<impl>::', 'BaseTransaction'),
    'OptimisticWriteTx': ('optimistic::write_tx::<impl>::', 'optimistic::write_tx::WriteTransaction'),
    'SingleWriterWriteTx': ('single_writer::write_tx::<impl>::', 'single_writer::write_tx::WriteTransaction'),
}


def find_objs(v, pred, seen=None, depth=0):
    """all Objs reachable from v satisfying pred"""
    seen = seen if seen is not None else set()
    out = []
    if id(v) in seen or depth > 12:
        return out
    seen.add(id(v))
    if isinstance(v, Ref):
        return find_objs(v.cell.val, pred, seen, depth + 1)
    if isinstance(v, Obj):
        if pred(v):
            out.append(v)
        for c in v.fields.values():
            out += find_objs(c.val, pred, seen, depth + 1)
        inner = v.data.get('inner')
        if isinstance(inner, Cell):
            out += find_objs(inner.val, pred, seen, depth + 1)
    if isinstance(v, EnumV):
        for o in v.payloads.values():
            out += find_objs(o, pred, seen, depth + 1)
    return out


def is_nonce(o):
    return 'SnapshotNonce' in o.ty and o.kind in ('opaque', 'struct')


def nonce_instant(o):
    c = o.fields.get(0)
    return c.val if c is not None else None


def self_arg(p):
    fr = p.st.frames[0]
    return fr.locals[fr.fn.args[0]].val


def registrations(p):
    """tracker registrations made on this path: list of (event, instant)"""
    out = []
    for e in p.events:
        if e.kind == 'DM_OR_INSERT' and 'data' in obj_name(e):
            out.append((e, e.args['key']))
    return out


def closes(p):
    return [e for e in p.events if e.kind == 'DM_ALTER' and 'data' in obj_name(e)]


def check_view_method(ctx, view, prefix, method):
    pat = '^' + prefix.replace('<', r'\<').replace('>', r'\>') + method + '$'
    ob = ctx.ob(f'view-instant/{view}.{method}', f'{view}::{method}: every tree read uses the view\'s own instant; returned iterators own a registered nonce of that instant', [pat])
    try:
        ex, paths = ctx.run(pat, cache_key=f'{view}.{method}', no_inline=C.NO_BACKPRESSURE + CM_OPAQUE, loop_bound=2)
    except KeyError as e:
        ob.status = 'undecided'; ob.detail = f'function not found: {e}'
        return ob
    bad = []
    for p in paths:
        if p.status in ('error', 'timeout'):
            ob.status = 'undecided'; ob.detail = 'executor: ' + str(p.notes[-1:])
            return ob
        reads = [e for e in p.events if e.kind in READS]
        if not reads:
            continue
        nonces = find_objs(self_arg(p), is_nonce)
        inst = nonce_instant(nonces[0]) if nonces else None
        for e in reads:
            ob.reach += 1
            s = e.args.get('seqno')
            if inst is None or not z3.is_bv(s) or not z3.is_bv(inst):
                bad.append((p, e, 'the read does not use the view\'s nonce at all')); continue
            r, m = ctx.sat(p.pc + [s != inst], ob)
            if r != z3.unsat:
                bad.append((p, e, f'reads at {z3.simplify(s)} instead of the view instant'))
        # iterators returned by scans must own a registered nonce with the same instant
        if method in SCANS and p.status == 'returned' and isinstance(p.ret, Obj):
            rn = find_objs(p.ret, is_nonce)
            regs = registrations(p) + [(e, e.args['key']) for e in p.events if e.kind == 'DM_AND_MODIFY']
            ok = False
            if rn and inst is not None:
                ni = nonce_instant(rn[0])
                if z3.is_bv(ni):
                    r, _ = ctx.sat(p.pc + [ni != inst], ob)
                    same = (r == z3.unsat)
                    registered = any(ctx.sat(p.pc + [k != inst], ob)[0] == z3.unsat for _e, k in regs)
                    ok = same and registered
            if not ok:
                bad.append((p, None, 'the returned iterator does not own a registered nonce of the view instant'))
    if ob.reach == 0:
        ob.status = 'undecided'; ob.detail = 'vacuous: no tree read on any path'
        return ob
    if not bad:
        ob.status = 'discharged'; ob.sample = {'reads_checked': ob.reach, 'paths': len(paths)}
        return ob
    p, e, why = bad[0]
    role = f'{view}.{method}/read-not-at-view-instant'
    text = f'{view}::{method}: {why}' + (f' ({e.kind} seqno={C_fmt(e.args.get("seqno"))})' if e is not None else '')
    ctx.candidate(ob, role, text, confirm=lambda: native_view_frozen(ctx, view, method))
    return ob


def C_fmt(v):
    return str(z3.simplify(v)) if z3.is_expr(v) else repr(v)


def check_keyspace_scan(ctx, method):
    pat = rf'^keyspace::<impl>::{method}$'
    ob = ctx.ob(f'scan-instant/Keyspace.{method}', f'Keyspace::{method}: the scan reads at the instant of the nonce opened in the same call and the returned Iter owns that nonce', [pat])
    ex, paths = ctx.run(pat, cache_key=f'ks.{method}', loop_bound=2)
    bad = []
    for p in paths:
        if p.status != 'returned':
            continue
        reads = [e for e in p.events if e.kind in READS]
        regs = registrations(p)
        for e in reads:
            ob.reach += 1
            s = e.args.get('seqno')
            if not regs:
                bad.append((p, 'no snapshot is registered for the scan')); continue
            k = regs[-1][1]
            if not z3.is_bv(s):
                bad.append((p, 'scan seqno is not the nonce instant')); continue
            r, _ = ctx.sat(p.pc + [s != k], ob)
            if r != z3.unsat:
                bad.append((p, f'scan reads at {z3.simplify(s)}, the registered nonce is at {z3.simplify(k)}'))
            if e.idx < regs[-1][0].idx:
                bad.append((p, 'the tree iterator is created before the snapshot is registered'))
        rn = find_objs(p.ret, is_nonce) if isinstance(p.ret, Obj) else []
        if reads and not rn:
            bad.append((p, 'the returned Iter does not hold the nonce (dropped early)'))
        if reads and closes(p):
            bad.append((p, 'the nonce is closed before the iterator is returned'))
    if ob.reach == 0:
        ob.status = 'undecided'; ob.detail = 'vacuous'
        return ob
    if not bad:
        ob.status = 'discharged'; ob.sample = {'reads_checked': ob.reach}
        return ob
    role = f'Keyspace.{method}/scan-not-frozen'
    ctx.candidate(ob, role, f'Keyspace::{method}: {bad[0][1]}', confirm=lambda: native_view_frozen(ctx, 'Keyspace', method))
    return ob


# ------------------------------------------------------------------ native oracle: a live view is frozen
def native_view_frozen(ctx, view, method):
    """create the view, write/overwrite/remove afterwards, (re)read through the view; it must still answer as at creation"""
    K = ['6b31', '6b32', '6b33']      # k1 k2 k3
    kind = {'Snapshot': 'plain', 'Keyspace': 'plain', 'BaseTransaction': 'single', 'SingleWriterWriteTx': 'single', 'OptimisticWriteTx': 'opt'}[view]
    head = ['dir $DIR/db', f'kind {kind}', 'open workers=0', 'ks a', f'insert a {K[0]} 6f6c64', f'insert a {K[1]} 6f6c64']
    writes = [f'insert a {K[0]} 6e6577', f'remove a {K[1]}', f'insert a {K[2]} 6e6577']
    frozen = {K[0]: '6f6c64', K[1]: '6f6c64'}
    if view == 'Keyspace':
        last = (False, None, 'not run')
        for variant in ('lazy', 'started'):
            L = list(head) + [f'kiter it a {method} 6b'] + (['it_next it'] if variant == 'started' else []) + writes + ['it_rest it', 'close']
            spath, out = ctx.run_scenario('\n'.join(L) + '\n', tag=f'frozen-{view}-{method}-{variant}')
            rs = [(cmd, r) for _i, cmd, r in out]
            if any(cmd == 'CRASH' for cmd, _r in rs):
                return True, spath, 'using the live iterator crashed: ' + rs[-1][1][:300]
            first = [r for c, r in rs if c == 'it_next']
            rest = [r for c, r in rs if c == 'it_rest']
            got = ([first[0]] if first else []) + (rest[0][1:-1].split(',') if rest and rest[0] != '[]' else [])
            want = [f'{k}:{frozen[k]}' for k in sorted(frozen)]
            if got != want:
                return True, spath, f'Keyspace::{method} iterator created before later writes ({variant}) yielded {got}; the state at creation is {want}'
            last = (False, spath, 'held natively')
        return last
    L = list(head)
    rd = 'view_read'
    if view == 'Snapshot':
        L += ['snapshot v']
    else:
        L += ['tx v begin']
    L += [f'{rd} v a {method} {K[0]} pre'] + writes + [f'{rd} v a {method} {K[0]} post', f'{rd} v a {method} {K[1]} post2', 'close']
    spath, out = ctx.run_scenario('\n'.join(L) + '\n', tag=f'frozen-{view}-{method}')
    rs = [(cmd, r) for _i, cmd, r in out]
    if any(cmd == 'CRASH' for cmd, _r in rs):
        return True, spath, 'using the live view crashed: ' + rs[-1][1][:300]
    if any(r.startswith('err:UnknownCommand') for _c, r in rs):
        return False, spath, 'replay driver lacks a command: ' + str([r for _c, r in rs if r.startswith('err:Unknown')][:1])
    reads = [r for c, r in rs if c == 'view_read']
    if len(reads) != 3:
        return False, spath, f'unexpected driver output {rs[-4:]}'
    pre, post, post2 = reads
    exp_pre = expected_read(method, K[0], frozen)
    exp_post2 = expected_read(method, K[1], frozen)
    if pre != exp_pre:
        return True, spath, f'{view}::{method} answered {pre} right after creation; the committed state is {exp_pre}'
    if post != pre:
        return True, spath, f'{view}::{method} answered {pre} at creation and {post} after later writes'
    if post2 != exp_post2:
        return True, spath, f'{view}::{method}({K[1]}) answers {post2} after a later remove; frozen answer is {exp_post2}'
    return False, spath, 'held natively'


def expected_read(method, key, state):
    ks = sorted(state)
    if method == 'get':
        return 'some:' + state[key] if key in state else 'none'
    if method == 'contains_key':
        return 'true' if key in state else 'false'
    if method == 'size_of':
        return f'some:{len(state[key]) // 2}' if key in state else 'none'
    if method == 'first_key_value':
        return f'{ks[0]}:{state[ks[0]]}' if ks else 'none'
    if method == 'last_key_value':
        return f'{ks[-1]}:{state[ks[-1]]}' if ks else 'none'
    if method in ('iter', 'range', 'prefix'):
        return '[' + ','.join(f'{k}:{state[k]}' for k in ks) + ']'
    if method == 'len':
        return str(len(ks))
    if method == 'is_empty':
        return 'true' if not ks else 'false'
    return '?'


# ------------------------------------------------------------------ exactly-once close
CONSUMERS = {
    'OptimisticWriteTx.commit': (r'^optimistic::write_tx::<impl>::commit$', 'opt'),
    'OptimisticWriteTx.rollback': (r'^optimistic::write_tx::<impl>::rollback$', 'opt'),
    'SingleWriterWriteTx.commit': (r'^single_writer::write_tx::<impl>::commit$', 'single'),
    'SingleWriterWriteTx.rollback': (r'^single_writer::write_tx::<impl>::rollback$', 'single'),
    'BaseTransaction.commit': (r'^tx::write_tx::<impl>::commit$', 'single'),
}


def check_close_once(ctx, name, pat, kind):
    ob = ctx.ob(f'close-once/{name}', f'{name}: the view\'s tracker registration is closed exactly once on every path', [pat])
    ex, paths = ctx.run(pat, cache_key='close.' + name, no_inline=C.NO_BACKPRESSURE + CM_OPAQUE + [r'^batch::<impl>::commit$', r'WriteBatch::commit$', r'has_conflict$'], loop_bound=2)
    bad = []
    for p in paths:
        if p.status in ('error', 'timeout'):
            ob.status = 'undecided'; ob.detail = 'executor: ' + str(p.notes[-1:])
            return ob
        if p.status != 'returned':
            continue
        nonces = find_objs(self_arg(p), is_nonce)
        if not nonces:
            # the function never touched the nonce: with drop glue modelled this means it leaked or was never closed
            bad.append((p, 0, 'the nonce is never closed'))
            ob.reach += 1
            continue
        inst = nonce_instant(nonces[0])
        cl = closes(p)
        ob.reach += 1
        n_for = 0
        for e in cl:
            k = e.args['key']
            if z3.is_bv(inst) and z3.is_bv(k) and ctx.sat(p.pc + [k != inst], ob)[0] == z3.unsat:
                n_for += 1
        regs_same = sum(1 for _e, k in registrations(p) + [(e, e.args['key']) for e in p.events if e.kind == 'DM_AND_MODIFY']
                        if z3.is_bv(inst) and ctx.sat(p.pc + [k != inst], ob)[0] == z3.unsat)
        # one close for the transaction's own registration plus one per extra registration made on this path (clones)
        if n_for != 1 + regs_same:
            bad.append((p, n_for, f'{n_for} close(s) for {1 + regs_same} registration(s)'))
    if ob.reach == 0:
        ob.status = 'undecided'; ob.detail = 'vacuous'
        return ob
    if not bad:
        ob.status = 'discharged'; ob.sample = {'paths': ob.reach}
        return ob
    p, n, why = bad[0]
    role = f'{name}/registration-not-closed-exactly-once'
    text = f'{name}: {why}; events: ' + ' · '.join(e.kind for e in p.events if e.kind.startswith(('DM_', 'LOCK', 'UNLOCK', 'CALL')))[:300]
    ctx.candidate(ob, role, text, confirm=lambda: native_close_once(ctx, name, kind, n))
    return ob


def native_close_once(ctx, name, kind, n_closes):
    """two transactions opened at one instant; the first ends (commit/rollback); the tracker must still count the second"""
    end = name.split('.')[1]
    L = ['dir $DIR/db', f'kind {kind}', 'open workers=0', 'ks a', 'insert a 6b31 6f6c64']
    if kind == 'opt':
        L += ['tx t2 begin', 'tx t1 begin', 'tx t1 insert a 6b32 78', 'open_snapshots', f'tx t1 {end}', 'open_snapshots',
              # t2 is still alive here: now make the old version collectable and use t2
              'insert a 6b31 6e6577', 'rotate a', 'insert a 6b31 6e657732', 'rotate a', 'major_compact a', 'tx t2 get a 6b31', 'tx t2 rollback', 'open_snapshots']
    else:
        L += ['snapshot s', 'tx t1 begin', 'tx t1 insert a 6b32 78', 'open_snapshots', f'tx t1 {end}', 'open_snapshots',
              'insert a 6b31 6e6577', 'rotate a', 'insert a 6b31 6e657732', 'rotate a', 'major_compact a', 'snap_get s a 6b31', 'snap_drop s', 'open_snapshots']
    L += ['close']
    spath, out = ctx.run_scenario('\n'.join(L) + '\n', tag=f'closeonce-{name}')
    rs = [(cmd, r) for _i, cmd, r in out]
    if any(cmd == 'CRASH' for cmd, _r in rs):
        return True, spath, 'using the surviving view crashed: ' + rs[-1][1][:300]
    if any(r.startswith('err:UnknownCommand') for _c, r in rs):
        return False, spath, 'replay driver lacks a command'
    counts = [r for c, r in rs if c == 'open_snapshots']
    # before the end: 2 holders (+ the snapshot) ; after: exactly one fewer
    try:
        c = [int(x.split('=')[1]) for x in counts]
    except Exception:
        return False, spath, f'unexpected output {counts}'
    if c[1] != c[0] - 1:
        detail = f'tracker counted {c[0]} open views before {end} and {c[1]} after it (one view ended)'
        reads = [r for cmd, r in rs if cmd in ('tx', 'snap_get') and ('some:' in r or 'none' in r or 'err' in r)]
        return True, spath, detail + f'; surviving view then read {reads[-1:]}'
    if c[-1] != 0:
        return True, spath, f'{c[-1]} registration(s) leaked after all views ended'
    return False, spath, 'held natively'


# ------------------------------------------------------------------ tracker inductive step
def tracker_state(ex, st, tracker_inner):
    """(slots, V, watermark) of the abstract tracker object after/before a step"""
    names = ex.src.struct_fields('SnapshotTrackerInner')
    data = tracker_inner.fields[names.index('data')].val
    seqno = tracker_inner.fields[names.index('seqno')].val
    lfi = tracker_inner.fields[names.index('lowest_freed_instant')].val
    return data, seqno, lfi


def mk_tracker(ex, st):
    from ..contract import dm_slots, atomic_val, counter_obj
    inner = Obj('snapshot_tracker::SnapshotTrackerInner', 'T', 'struct')
    names = ex.src.struct_fields('SnapshotTrackerInner')
    data = Obj('DashMap<u64, usize, Xxh3Builder>', 'T.data', 'opaque')
    seqno = Obj('lsm_tree::SequenceNumberCounter', 'T.seqno', 'struct')
    lfi = Obj('AtomicU64', 'T.lowest_freed_instant', 'opaque')
    fc = Obj('AtomicU64', 'T.freed_count', 'opaque')
    gl = Obj('RwLock<()>', 'T.gc_lock', 'opaque')
    for n, o in (('data', data), ('seqno', seqno), ('lowest_freed_instant', lfi), ('freed_count', fc), ('gc_lock', gl)):
        inner.fields[names.index(n)] = Cell(o)
    arc = Obj('Arc<SnapshotTrackerInner>', 'T.arc', 'struct'); arc.fields['ptr'] = Cell(inner)
    tr = Obj('snapshot_tracker::SnapshotTracker', 'tracker', 'struct'); tr.fields[0] = Cell(arc)
    slots = dm_slots(ex, st, data)
    pre_slots = [dict(s) for s in slots]
    V = atomic_val(ex, st, counter_obj(ex, st, seqno))
    W = atomic_val(ex, st, lfi)
    return tr, inner, pre_slots, V, W


def inv(slots, V, W, holders, bound_counts=False):
    """holders: list of (live Bool, instant BV)"""
    cs = []
    for j, (lj, hj) in enumerate(holders):
        present, cnt = dm_lookup(slots, hj)
        mult = bv(0)
        for (lk, hk) in holders:
            mult = mult + z3.If(z3.And(lk, hk == hj), bv(1), bv(0))
        cs.append(z3.Implies(lj, z3.And(present, z3.UGE(cnt, mult), z3.Or(z3.ULT(W, hj), hj == 0), z3.ULE(hj, V))))
    cs.append(z3.Or(z3.ULT(W, V), W == 0))
    for s in slots:
        cs.append(z3.Implies(s['present'], z3.ULE(s['key'], V)))
        if bound_counts:
            cs.append(z3.ULT(s['val'], bv(2 ** 32)))      # bound: fewer than 2^32 simultaneous holders of one instant
    return z3.And(*cs)


def check_tracker_step(ctx, fname):
    pat = rf'^snapshot_tracker::<impl>::{fname}$'
    ob = ctx.ob(f'tracker-step/{fname}', f'SnapshotTracker::{fname} preserves the tracker invariant from an arbitrary state satisfying it (3 map slots, 2 ghost holders, 64-bit instants)', [pat])
    fn = ctx.prog.find(pat)
    ex = ctx.executor(loop_bound=3)
    holder_vars = [(z3.Bool(f'live{j}'), z3.BitVec(f'h{j}', 64)) for j in range(2)]
    env = {}

    def setup(ex_, st, fr):
        tr, inner, pre_slots, V, W = mk_tracker(ex_, st)
        env.update(tr=tr, inner=inner, pre_slots=pre_slots, V=V, W=W)
        st.pc.append(inv(pre_slots, V, W, holder_vars, bound_counts=True))
        st.pc.append(z3.ULT(V, bv(2 ** 62)))      # lsm-tree reserves the upper seqno range; fetch_add cannot wrap within the bound
        fr.locals[fn.args[0]] = Cell(Ref(Cell(tr)))
        st.globals['tracker'] = inner
        if fname == 'close_raw':
            # precondition: the caller owns a live registration at `instant` (it is holder 0) and gives it up
            inst = z3.BitVec('instant_arg', 64)
            fr.locals[fn.args[1]] = Cell(inst)
            st.pc.append(z3.And(holder_vars[0][0], holder_vars[0][1] == inst))
        if fname == 'clone_snapshot':
            n = Obj('snapshot_nonce::SnapshotNonce', 'nonce', 'struct'); n.fields[0] = Cell(holder_vars[0][1])
            fr.locals[fn.args[1]] = Cell(Ref(Cell(n)))
            st.pc.append(holder_vars[0][0])
        if fname in ('publish', 'set'):
            s = z3.BitVec('published', 64)
            fr.locals[fn.args[1]] = Cell(s)
            st.pc.append(z3.ULT(s, bv(2 ** 62)))
    paths = ex.run(fn, setup=setup)
    ctx.functions_encoded[fn.key] = ctx.prog.hashes.get(fn.name, '')
    ctx.paths_total += len(paths); ctx.events_total += sum(len(p.events) for p in paths)
    ctx.solver_s += ex.stats['solver_s']; ctx.queries += ex.stats['solver_calls']
    bad = None
    for p in paths:
        if p.status != 'returned':
            if p.status in ('error', 'timeout', 'loop_bound'):
                ob.status = 'undecided'; ob.detail = 'executor: ' + str(p.notes[-1:])
                return ob
            continue
        inner = p.st.globals['tracker']
        data, seqno, lfi = tracker_state(ex, p.st, inner)
        from ..contract import counter_obj
        slots = data.data['slots']
        V2 = counter_obj(ex, p.st, seqno).data['val']
        W2 = lfi.data['val']
        holders2 = list(holder_vars)
        if fname == 'close_raw':
            holders2 = [(z3.BoolVal(False), holder_vars[0][1]), holder_vars[1]]
        if fname in ('open', 'clone_snapshot'):
            # the returned nonce is a new live holder
            rn = find_objs(p.ret, is_nonce) if isinstance(p.ret, Obj) else []
            if rn and z3.is_bv(nonce_instant(rn[0])):
                holders2 = holders2 + [(z3.BoolVal(True), nonce_instant(rn[0]))]
            else:
                bad = (p, None, 'no nonce returned'); break
        ob.reach += 1
        r, m = ctx.sat(p.pc + [z3.Not(inv(slots, V2, W2, holders2))], ob)
        if r != z3.unsat:
            bad = (p, m, 'invariant broken after the step'); break
    if ob.reach == 0 and bad is None:
        ob.status = 'undecided'; ob.detail = 'vacuous'
        return ob
    if bad is None:
        ob.status = 'discharged'; ob.sample = {'paths': ob.reach, 'slots': 3, 'holders': 2}
        return ob
    p, m, why = bad
    vals = {}
    if m is not None:
        for d in m.decls():
            if d.name().startswith(('h', 'live', 'dm:', 'pre:', 'instant', 'published')):
                vals[d.name()] = str(m[d])
    role = f'SnapshotTracker.{fname}/invariant-not-inductive'
    text = f'SnapshotTracker::{fname}: {why}; model: {dict(list(vals.items())[:14])}'
    ctx.candidate(ob, role, text, confirm=lambda: native_tracker(ctx, fname, vals))
    return ob


def native_tracker(ctx, fname, vals):
    """end-to-end oracle for tracker defects: live snapshots (one of them taken at instant 0, before the first write)
    must keep answering identically and never crash while writes, other snapshots, GC, rotation, flush and major
    compaction happen.  The DashMap visiting order depends on the instants, so a small family of histories is tried."""
    last = (False, None, 'not run')
    for n0 in (2, 3, 1, 4):
        for n in (2, 1, 6, 3, 4, 5):
            L = ['dir $DIR/db', 'kind plain', 'open workers=0', 'snapshot s0', 'ks a', 'insert a 6b31 6f6c64']
            L += [f'insert a 6b3{i} 78' for i in range(2, n0 + 1)]
            L += ['snapshot sA', 'snap_get sA a 6b31', 'rotate a', 'worker_drain']
            L += [f'insert a 6b31 6e657{i}' for i in range(1, n + 1)]
            L += ['snapshot sB', 'snapshot sC', 'snap_drop sC', 'gc', 'rotate a', 'worker_drain', 'major_compact a', 'gc',
                  'snap_get sA a 6b31', 'snap_dump sA a', 'snap_drop sA', 'snap_drop sB', 'snap_drop s0', 'open_snapshots', 'close']
            spath, out = ctx.run_scenario('\n'.join(L) + '\n', tag=f'tracker-{fname}-{n0}-{n}')
            rs = [(cmd, r) for _i, cmd, r in out]
            if any(cmd == 'CRASH' for cmd, _r in rs):
                return True, spath, 'reading through a live snapshot crashed after GC + maintenance: ' + rs[-1][1][-300:]
            if any(r.startswith('err:UnknownCommand') for _c, r in rs):
                return False, spath, 'replay driver lacks a command'
            gets = [r for c, r in rs if c == 'snap_get']
            dump = [r for c, r in rs if c == 'snap_dump']
            exp_dump = '[' + ','.join(['6b31:6f6c64'] + [f'6b3{i}:78' for i in range(2, n0 + 1)]) + ']'
            if len(gets) == 2 and gets[0] != gets[1]:
                return True, spath, f'snapshot read {gets[0]} at creation and {gets[1]} after GC + compaction'
            if dump and dump[0] != exp_dump:
                return True, spath, f'snapshot scan after GC + compaction = {dump[0]}, at creation it was {exp_dump}'
            left = [r for c, r in rs if c == 'open_snapshots']
            if left and left[-1] != 'n=0':
                return True, spath, f'registrations leaked after all snapshots were dropped ({left[-1]})'
            last = (False, spath, 'held natively on 24 histories')
    return last


def run(ctx):
    ctx.assumptions += [
        'E2/E3: a tree read at instant t observes exactly the versions with seqno < t of the newest SuperVersion older than t',
        'E5: flush/compaction drop a shadowed version only if its seqno < the GC watermark handed in; version-history GC keeps the newest SuperVersion below the watermark',
        'F4: DashMap modelled with 3 slots (at most 3 distinct instants registered at once), entry/alter/retain atomic per call',
        'tracker invariant: live holder ⇒ entry present ∧ count ≥ multiplicity ∧ (watermark < instant ∨ instant = 0); watermark < V ∨ V = 0; keys ≤ V; V < 2^62',
    ]
    for view, (prefix, _ty) in VIEWS.items():
        for m in POINT + SCANS + ENDS:
            check_view_method(ctx, view, prefix, m)
    for m in SCANS:
        check_keyspace_scan(ctx, m)
    for name, (pat, kind) in CONSUMERS.items():
        check_close_once(ctx, name, pat, kind)
    for f in ('open', 'clone_snapshot', 'close_raw', 'publish', 'pullup', 'gc'):
        check_tracker_step(ctx, f)
    # a view is frozen only if what it sees is a complete prefix of the commit order: a batch must become visible in one step
    # (single seqno, publish after the last apply, all under the journal lock) - the obligation of C06, part of this property as well
    from . import c06
    c06.check_atomic_publish(ctx, 2)
    # every tree of the database (new, recovered, meta) must be wired to the same two counters in the same roles (shared obligations, see wiring.py)
    from . import wiring
    wiring.check_all(ctx)
    for o in ctx.obligations:
        ctx.samples.append(o.as_dict())
    return ctx.finish()


MUTANTS = [
    {'name': 'Keyspace::range reads at SeqNo::MAX', 'edits': [('src/keyspace/mod.rs', 'let iter = self.tree.range(range, nonce.instant, None);', 'let iter = self.tree.range(range, SeqNo::MAX, None);')]},
    {'name': 'Snapshot::get reads at SeqNo::MAX', 'edits': [('src/snapshot.rs', """            .get(key, self.nonce.instant)""", """            .get(key, SeqNo::MAX)""")]},
    {'name': 'with_commit closes the snapshot a second time', 'edits': [('src/tx/optimistic/oracle.rs', """        // TODO: This can be expensive""", """        self.snapshot_tracker.close_raw(instant);

        // TODO: This can be expensive""")]},
    {'name': 'gc watermark without saturating_sub(1)', 'edits': [('src/snapshot_tracker.rs', """            lowest_retained.saturating_sub(1),
            std::sync::atomic::Ordering::AcqRel,""", """            lowest_retained,
            std::sync::atomic::Ordering::AcqRel,""")]},
    {'name': 'gc treats instant 0 as unset', 'edits': [('src/snapshot_tracker.rs', "lowest_retained = Some(lowest_retained.map_or(k, |lo| lo.min(k)));", "lowest_retained = Some(lowest_retained.filter(|lo| *lo != 0).map_or(k, |lo| lo.min(k)));")]},
    {'name': 'BaseTransaction::contains_key reads the tree at SeqNo::MAX', 'edits': [('src/tx/write_tx.rs', "let contains = keyspace.tree.contains_key(key, self.nonce.instant)?;", "let contains = keyspace.tree.contains_key(key, SeqNo::MAX)?;")]},
    {'name': 'Snapshot::iter hands the iterator a nonce of the current instant', 'edits': [('src/snapshot.rs', """        let iter = keyspace.as_ref().tree.iter(self.nonce.instant, None);

        Iter::new(self.nonce.clone(), iter)""", """        let iter = keyspace.as_ref().tree.iter(self.nonce.instant.saturating_sub(1), None);

        Iter::new(self.nonce.clone(), iter)""")]},
    {'name': 'pullup stores the current seqno as watermark', 'edits': [('src/snapshot_tracker.rs', """                self.seqno.get().saturating_sub(1),
                std::sync::atomic::Ordering::Release,""", """                self.seqno.get(),
                std::sync::atomic::Ordering::Release,""")]},
    {'name': 'single-writer commit forgets the transaction (nonce never closed)', 'edits': [('src/tx/single_writer/write_tx.rs', """    pub fn commit(self) -> crate::Result<()> {
        self.inner.commit()""", """    pub fn commit(self) -> crate::Result<()> {
        if self.inner.memtables.is_empty() {
            std::mem::forget(self.inner);
            return Ok(());
        }
        self.inner.commit()""")]},
]
