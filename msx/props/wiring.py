"""Which counter goes where.

fjall keeps two sequence-number counters per database: `seqno` (next number to assign) and the *visible* seqno (owned by the snapshot tracker: the instant
handed to new views).  Every LSM tree is configured with both, in that order; reads, snapshots, clear and ingestion are only correct when every tree -
new, recovered, and the meta keyspace's - gets the same two objects in the same roles.  The wiring is written out by hand in five places
(Database::create_new, Database::recover, Keyspace::create_new, recover_keyspaces, MetaKeyspace::new): one obligation per place, decided on the object
graph the symbolic execution builds (identity of the shared counter cells, not names).

Used by C01 (scans of a recovered keyspace), C05 (snapshot instants), C06 (visible seqno vs. batches), C11 (counters after reopen).
"""
import z3
from ..core import ret_is_ok
from ..symex import deref, Obj, EnumV
from ..contract import counter_obj
from .c05 import find_objs


def _cfg_calls(p):
    return [e for e in p.events if e.kind == 'CALL' and e.args.get('callee', '').endswith('Config::new') and len(e.args.get('args', [])) >= 3]


def _roles_from_db(ex, p, root):
    """(S, V): the counter behind supervisor.seqno and the one behind the snapshot tracker"""
    sup = find_objs(root, lambda o: o.ty.split('<')[0].endswith('SupervisorInner'))
    trk = find_objs(root, lambda o: o.ty.split('<')[0].endswith('SnapshotTrackerInner'))
    if not sup or not trk:
        return None, None
    sn = ex.src.struct_fields('SupervisorInner'); tn = ex.src.struct_fields('SnapshotTrackerInner')
    sc = sup[0].fields.get(sn.index('seqno')); tc = trk[0].fields.get(tn.index('seqno'))
    if sc is None or tc is None:
        return None, None
    return counter_obj(ex, p.st, sc.val), counter_obj(ex, p.st, tc.val)


def check_database(ctx, which, confirm):
    """Database::create_new / Database::recover: two distinct counters; the tracker owns the visible one; the meta tree and MetaKeyspace get (seqno, visible)"""
    from . import recov
    fnname = 'db::<impl>::' + which
    ob = ctx.ob(f'wiring/Database::{which}', f'Database::{which}: supervisor.seqno and the snapshot tracker\'s counter are two different counters; the meta keyspace\'s tree is configured with '
                '(seqno, visible seqno) in that order and MetaKeyspace keeps the same two', [fnname])
    bad = []
    try:
        if which == 'recover':
            ex, paths, env = recov.run_recover(ctx, n_ks=1, shape=((1, 0),))
        else:
            ex, paths = ctx.run(r'^db::<impl>::create_new$', cache_key='wiring.create_new', loop_bound=3,
                                no_inline=[r'Journal::create_new$', r'WorkerPool::', r'LockedFileGuard::', r'fsync_directory$', r'create_dir_all$'])
    except Exception as e:      # noqa
        ob.status = 'undecided'; ob.detail = f'executor: {e!r}'; return ob
    inc = [p for p in paths if p.status in ('error', 'timeout', 'loop_bound')]
    if inc:
        ob.status = 'undecided'; ob.detail = f'executor: {inc[0].status} {inc[0].notes[-1:]}'; return ob
    for p in paths:
        if p.status != 'returned' or not isinstance(p.ret, EnumV) or ctx.sat(p.pc + [ret_is_ok(p)], ob)[0] != z3.sat:
            continue
        pl = p.ret.payloads.get('Ok')
        if pl is None or 0 not in pl.fields:
            continue
        root = pl.fields[0].val
        S, V = _roles_from_db(ex, p, root)
        if S is None or V is None:
            bad.append((p, 'cannot find the two counters in the returned database')); continue
        ob.reach += 1
        if S is V:
            bad.append((p, 'the snapshot tracker is built on the seqno counter itself: a snapshot opened while a write is being applied already sees that write (instants are taken from the allocation counter, not from what was published)')); continue
        cfg = _cfg_calls(p)
        if not cfg:
            bad.append((p, 'no tree configuration for the meta keyspace')); continue
        for e in cfg:
            a = e.args['args']
            s_, v_ = counter_obj(ex, p.st, a[1]), counter_obj(ex, p.st, a[2])
            if s_ is not S or v_ is not V:
                bad.append((p, f'the meta keyspace\'s tree is configured with ({_nm(s_, S, V)}, {_nm(v_, S, V)}) instead of (seqno, visible seqno)')); break
        else:
            mk = find_objs(root, lambda o: o.ty.split('<')[0].endswith('MetaKeyspace'))
            if mk:
                mn = ex.src.struct_fields('MetaKeyspace')
                g = mk[0].fields.get(mn.index('seqno_generator')); v = mk[0].fields.get(mn.index('visible_seqno'))
                if g is not None and v is not None:
                    g_, v_ = counter_obj(ex, p.st, g.val), counter_obj(ex, p.st, v.val)
                    if g_ is not S or v_ is not V:
                        bad.append((p, f'MetaKeyspace keeps ({_nm(g_, S, V)}, {_nm(v_, S, V)}) as (seqno generator, visible seqno)'))
    return _finish(ctx, ob, bad, f'Database.{which}/counter-wiring', confirm)


def _nm(x, S, V):
    return 'seqno' if x is S else ('visible seqno' if x is V else 'another counter')


def check_tree_config(ctx, which, confirm):
    """Keyspace::create_new / recover_keyspaces: lsm_tree::Config::new(path, db.supervisor.seqno, db.supervisor.snapshot_tracker's counter)"""
    if which == 'recover_keyspaces':
        from . import c12
        ck = [k for k in ctx._run_cache if 'c12.recover_keyspaces' in k]
        if not ck:
            o_before = list(ctx.obligations)
            c12.check_recover_keyspaces(ctx)
            # only the execution is wanted here: drop the obligation C12 registers (it is C12's, decided there)
            ctx.obligations[:] = o_before
            ck = [k for k in ctx._run_cache if 'c12.recover_keyspaces' in k]
        ex, paths = ctx._run_cache[ck[0]]
        fnname = 'recovery::recover_keyspaces'
    else:
        ex, paths = ctx.run(r'^keyspace::<impl>::create_new$', cache_key='wiring.ks_create_new', loop_bound=3, no_inline=[r'apply_to_base_config$'])
        fnname = 'keyspace::<impl>::create_new'
    ob = ctx.ob(f'wiring/{"Keyspace::create_new" if which == "create_new" else which}', f'{which}: the tree is configured with (db.supervisor.seqno, the snapshot tracker\'s visible-seqno counter) in that order - the same two counters '
                'every other tree of the database uses', [fnname])
    bad = []
    inc = [p for p in paths if p.status in ('error', 'timeout', 'loop_bound')]
    if inc:
        ob.status = 'undecided'; ob.detail = f'executor: {inc[0].status} {inc[0].notes[-1:]}'; return ob
    for p in paths:
        for e in _cfg_calls(p):
            ob.reach += 1
            a = e.args['args']
            n1, n2 = getattr(deref(a[1]), 'name', '?'), getattr(deref(a[2]), 'name', '?')
            ok1 = 'supervisor' in n1 and 'snapshot_tracker' not in n1 and n1.rstrip("'").endswith('seqno')
            ok2 = 'snapshot_tracker' in n2 and n2.rstrip("'").endswith('seqno')
            if not ok1 or not ok2:
                what = []
                if not ok1:
                    what.append('its seqno generator is ' + ('the visible-seqno counter of the snapshot tracker' if 'snapshot_tracker' in n1 else n1))
                if not ok2:
                    what.append('its visible-seqno counter is ' + ('the seqno counter' if 'snapshot_tracker' not in n2 and 'seqno' in n2 else n2))
                bad.append((p, f'{which}: the tree gets other counters than the rest of the database: ' + '; '.join(what) +
                            ' (clear, ingestion and flush then publish to / draw from the wrong counter: scans disagree with point reads, snapshots see later writes, or seqnos are reused)'))
                break
        if bad:
            break
    return _finish(ctx, ob, bad, f'{which}/counter-wiring', confirm)


def _finish(ctx, ob, bad, role, confirm):
    if ob.status == 'undecided' and ob.detail:
        return ob
    if ob.reach == 0:
        ob.status = 'undecided'; ob.detail = 'vacuous'
    elif not bad:
        ob.status = 'discharged'; ob.sample = {'paths': ob.reach}
    else:
        ctx.candidate(ob, role, f'{ob.id}: {bad[0][1]}', confirm=confirm)
    return ob


def native_wiring(ctx):
    """what the two counters are for, observed on a fresh and on a reopened database:
    (a) reference-map programs that clear / ingest / flush right after a reopen (scans vs. point reads),
    (b) the visible seqno never runs ahead of the next seqno; a snapshot does not see a later write; a write after an ingestion wins,
    (c) a snapshot taken while a batch is between its two applies sees none of it."""
    from . import oracle
    v, path, d = oracle.run_battery(ctx, 'wiring', focus='reopened')
    if v:
        return True, path, d
    K = '6b31'
    last = (False, path, 'held natively')
    for reopened in (True, False):
        L = ['dir $DIR/db', 'open workers=0', 'ks a', 'ks b', f'insert a {K} 30', f'insert b {K} 30']
        if reopened:
            L += ['close', 'open workers=0', 'ks a', 'ks b']
        L += ['insert a 6b32 32', 'rotate a', 'worker_drain', 'seqno', 'snapshot s', 'insert a 6b39 39', 'snap_get s a 6b39', 'seqno',
              'ingest a 6b35:35', 'insert a 6b35 6e6577', 'rotate a', 'worker_drain', 'major_compact a', 'get a 6b35', 'seqno',
              'arm_pause batch.between_applies', f'spawn B batch2 a {K} 76 b {K} 76', 'wait_parked batch.between_applies 5000', f'snapget2 a {K} b {K}',
              'release batch.between_applies', 'join B', f'snapget2 a {K} b {K}', 'seqno', 'close']
        spath, out = ctx.run_scenario('\n'.join(L) + '\n', tag='wiring-' + ('reopened' if reopened else 'fresh'))
        rs = [(c, r) for _i, c, r in out]
        what = 'after a reopen' if reopened else 'on a fresh database'
        if any(c == 'CRASH' for c, _r in rs):
            return True, spath, f'{what}: crash ' + rs[-1][1][-200:]
        for c, r in rs:
            if c == 'seqno':
                sq, vis = int(r.split('=')[1].split()[0]), int(r.split('visible=')[1])
                if vis > sq:
                    return True, spath, f'{what}: the visible seqno ({vis}) is ahead of the next seqno ({sq}): new snapshots see writes that are still being applied, and seqnos below it are handed out again'
        sg = [r for c, r in rs if c == 'snap_get']
        if sg and sg[0] != 'none':
            return True, spath, f'{what}: a snapshot sees a write made after it was opened ({sg[0]})'
        g = [r for c, r in rs if c == 'get']
        if g and g[0] != 'some:6e6577':
            return True, spath, f'{what}: a write made after an ingestion of the same key does not win once flushed and compacted (get = {g[0]})'
        parked = [r for c, r in rs if c == 'wait_parked']
        reads = [r for c, r in rs if c == 'snapget2']
        if parked and parked[0].startswith('ok') and reads:
            if reads[0] != 'Some("30")|Some("30")':
                return True, spath, f'{what}: a snapshot opened while a batch was between its two applies read {reads[0]} (must see none of the batch)'
            if len(reads) > 1 and reads[1] != 'Some("76")|Some("76")':
                return True, spath, f'{what}: after the batch committed a snapshot read {reads[1]}'
        last = (False, spath, 'held natively')
    return last


def check_all(ctx, confirm=None):
    confirm = confirm or (lambda: native_wiring(ctx))
    check_database(ctx, 'create_new', confirm)
    check_database(ctx, 'recover', confirm)
    check_tree_config(ctx, 'create_new', confirm)
    check_tree_config(ctx, 'recover_keyspaces', confirm)
