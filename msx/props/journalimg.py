"""Byte-level symbolic journal images (engine M, DESIGN §C02/C03/C15).

writer side  Writer::write_raw / write_clear / write_batch are executed from MIR with keys/values of concrete length and
             *symbolic content*; the appended segments are flattened into a list of z3 bytes = the journal image.  The End
             marker's checksum is the uninterpreted function H_k(item bytes) (F5: collision-free on the compared inputs).
reader side  JournalBatchReader::next (→ JournalReader::next → Entry::decode_from) is executed from MIR over a SymFile:
             the image, a concrete cut offset (bytes beyond it are zeros = pre-allocation, or EOF) and optionally one
             altered byte.  Structure (tags, lengths) is concrete, contents are symbolic.
"""
import z3, itertools
from ..symex import Obj, EnumV, Ref, Cell, Ev, deref, bv, base_name
from ..contract import as_bv64, norm_segs, fork_cond
from . import common as C

_registry = []      # (content: list of BV8, chk: BV64 variable)   -- checksums of contents produced by the writer
_derived = []       # fresh checksum variables for contents that match no registered content
_u64_reads = []
_mode = {'register': True}


def H(bytes_list):
    """F5 model of xxh3 over a byte list.  Writer side (register mode): a fresh 64-bit variable per content.
    Reader side: the variable of the registered content the bytes are equal to, else a fresh value that collides with nothing."""
    n = len(bytes_list)
    if _mode['register']:
        for c, chk in _registry:
            if len(c) == n and all(z3.eq(a, b) for a, b in zip(c, bytes_list)):
                return chk
        chk = z3.BitVec(f'chk{len(_registry)}', 64)
        _registry.append((list(bytes_list), chk))
        return chk
    other = z3.BitVec(f'hx{len(_derived)}', 64)
    _derived.append(other)
    t = other
    for c, chk in reversed(_registry):
        if len(c) != n:
            continue
        same = z3.And(*[a == b for a, b in zip(c, bytes_list)]) if n else z3.BoolVal(True)
        t = z3.If(same, chk, t)
    return z3.simplify(t)


def H_unknown():
    """checksum of bytes we cannot enumerate (e.g. re-compressed data): collides with nothing known"""
    other = z3.BitVec(f'hx{len(_derived)}', 64)
    _derived.append(other)
    return other


def is_chk(e):
    return z3.is_const(e) and e.decl().name().startswith('chk')


def injectivity_axioms():
    """F5: distinct contents have distinct checksums; a checksum of unregistered content equals no registered checksum;
    a 64-bit value read from the file that is not literally a stored checksum equals no checksum (2^-64 events excluded)"""
    ax = []
    for i in range(len(_registry)):
        for j in range(i + 1, len(_registry)):
            ci, ki = _registry[i]; cj, kj = _registry[j]
            if len(ci) != len(cj):
                ax.append(ki != kj)
            else:
                ax.append((ki == kj) == z3.And(*[a == b for a, b in zip(ci, cj)]))
    for hx in _derived:
        for _c, k in _registry:
            ax.append(hx != k)
    seen = set()
    for e in _u64_reads:
        e = z3.simplify(e)
        if e.get_id() in seen or is_chk(e) or z3.is_bv_value(e):
            continue
        seen.add(e.get_id())
        for _c, k in _registry:
            ax.append(e != k)
        for hx in _derived:
            ax.append(e != hx)
    return ax


def reset_hashes():
    _registry.clear(); _derived.clear(); _u64_reads.clear()
    _mode['register'] = True


def reader_mode():
    _mode['register'] = False


def le_bytes(v, width):
    if isinstance(v, int):
        v = z3.BitVecVal(v, width)
    if v.size() != width:
        v = z3.Extract(width - 1, 0, v) if v.size() > width else z3.ZeroExt(width - v.size(), v)
    return [z3.simplify(z3.Extract(8 * i + 7, 8 * i, v)) for i in range(width // 8)]


def flatten(segs):
    """segments → list of z3 BV8 (None if some segment has unknown bytes)"""
    out = []
    for s in norm_segs(segs):
        k, v = s[0], s[1]
        if k == 'u8':
            out += le_bytes(v, 8)
        elif k == 'u16le':
            out += le_bytes(v, 16)
        elif k == 'u32le':
            out += le_bytes(v, 32)
        elif k == 'u64le':
            out += le_bytes(v, 64)
        elif k in ('obj', 'val'):
            o = v
            if isinstance(o, Obj) and 'bytes_list' in o.data:
                out += list(o.data['bytes_list'])
            elif isinstance(o, Obj) and o.kind == 'array' and o.data.get('len') is not None:
                out += [o.fields[('i', i)].val for i in range(o.data['len'])]
            elif isinstance(o, Obj) and 'segs' in o.data:
                r = flatten(o.data['segs'])
                if r is None:
                    return None
                out += r
            else:
                return None
        elif k == 'const':
            raw = v.encode('latin1').decode('unicode_escape').encode('latin1')
            out += [z3.BitVecVal(b, 8) for b in raw]
        else:
            return None
    return out


def mk_bytes(name, n):
    o = Obj('lsm_tree::Slice', name, 'bytes')
    o.data['bytes_list'] = [z3.BitVec(f'{name}[{i}]', 8) for i in range(n)]
    o.data['len'] = n
    return o


# ------------------------------------------------------------------ contract overrides for the writer side
def ov_hash_finish(ex, st, call):
    h = deref(call.args[0])
    segs = h.data.get('hashed', []) if isinstance(h, Obj) else []
    fl = flatten(segs)
    if fl is None:
        v = H_unknown()
        st.emit(Ev('HASH_FINISH', obj=h, args={'bytes': list(segs), 'flat': None}, res=v, site=call.site))
        return v
    v = H(fl)
    st.emit(Ev('HASH_FINISH', obj=h, args={'bytes': list(segs), 'flat': fl}, res=v, site=call.site))
    return v


WRITER_OVERRIDES = [(r'^<Xxh3 as Hasher>::finish$', ov_hash_finish)]


def write_unit(ctx, unit, seqno, ksids):
    """unit = ('raw', ks_index, vtype, keylen, vallen) | ('clear', ks_index) | ('batch', [(ks_index, vtype, keylen, vallen), ...])
    returns (bytes list, description dict) from executing the real writer"""
    kind = unit[0]
    if kind == 'raw':
        fn = ctx.prog.find(r'writer::<impl>::write_raw$')
    elif kind == 'clear':
        fn = ctx.prog.find(r'writer::<impl>::write_clear$')
    else:
        fn = ctx.prog.find(r'writer::<impl>::write_batch$')
    ex = ctx.executor(loop_bound=6, overrides=WRITER_OVERRIDES, disabled_faults=('J_APPEND', 'J_FLUSH', 'W_INT', 'W_ALL'))
    desc = {'seqno': seqno, 'items': [], 'clears': []}
    tag = f's{seqno}'

    def setup(ex_, st, fr):
        names = ex_.src.struct_fields('journal::writer::Writer')
        w = Obj('journal::writer::Writer', 'writer', 'struct')
        w.fields[names.index('compression_threshold')] = Cell(bv(0))
        w.fields[names.index('compression')] = Cell(ex_.mk_enum('lsm_tree::CompressionType', 'None'))
        fr.locals[fn.args[0]] = Cell(Ref(Cell(w)))
        if kind == 'raw':
            _k, ki, vt, kl, vl = unit
            key = mk_bytes(f'{tag}.key', kl); val = mk_bytes(f'{tag}.val', vl)
            fr.locals[fn.args[1]] = Cell(ksids[ki])
            fr.locals[fn.args[2]] = Cell(Ref(Cell(key), bv(kl)))
            fr.locals[fn.args[3]] = Cell(Ref(Cell(val), bv(vl)))
            fr.locals[fn.args[4]] = Cell(ex_.mk_enum('lsm_tree::ValueType', vt))
            fr.locals[fn.args[5]] = Cell(seqno_sym(seqno))
            desc['items'].append({'ks': ksids[ki], 'vtype': vt, 'key': key.data['bytes_list'], 'value': val.data['bytes_list']})
        elif kind == 'clear':
            fr.locals[fn.args[1]] = Cell(ksids[unit[1]])
            fr.locals[fn.args[2]] = Cell(seqno_sym(seqno))
            desc['clears'].append(ksids[unit[1]])
        else:
            from ..contract import mk_seq, mk_iter
            items = []
            for j, (ki, vt, kl, vl) in enumerate(unit[1]):
                it = Obj('batch::item::Item', f'{tag}.item{j}', 'struct')
                ks = Obj('keyspace::Keyspace', f'{tag}.ks{j}', 'struct')
                inner = Obj('keyspace::KeyspaceInner', f'{tag}.ksinner{j}', 'struct'); inner.fields[0] = Cell(ksids[ki])
                arc = Obj('Arc<KeyspaceInner>', 'arc', 'struct'); arc.fields['ptr'] = Cell(inner); ks.fields[0] = Cell(arc)
                key = mk_bytes(f'{tag}.key{j}', kl); val = mk_bytes(f'{tag}.val{j}', vl)
                it.fields[0] = Cell(ks); it.fields[1] = Cell(key); it.fields[2] = Cell(val)
                it.fields[3] = Cell(ex_.mk_enum('lsm_tree::ValueType', vt))
                items.append(it)
                desc['items'].append({'ks': ksids[ki], 'vtype': vt, 'key': key.data['bytes_list'], 'value': val.data['bytes_list']})
            seq = mk_seq('Vec<Item>', items, 'items')
            fr.locals[fn.args[1]] = Cell(mk_iter(ex_, st, 'std::slice::Iter<Item>', seq, True))
            fr.locals[fn.args[2]] = Cell(bv(len(items)))
            fr.locals[fn.args[3]] = Cell(seqno_sym(seqno))
    paths = ex.run(fn, setup=setup)
    ctx.functions_encoded[fn.key] = ctx.prog.hashes.get(fn.name, '')
    ctx.paths_total += len(paths); ctx.events_total += sum(len(p.events) for p in paths)
    ok = [p for p in paths if p.status == 'returned']
    if len(ok) != 1:
        raise RuntimeError(f'writer harness: {len(ok)} returning paths for {unit} ({[(p.status, p.notes[-1:]) for p in paths][:3]})')
    p = ok[0]
    segs = []
    for e in p.events:
        if e.kind == 'J_APPEND':
            segs += list(e.args['bytes'])
    fl = flatten(segs)
    if fl is None:
        raise RuntimeError(f'writer harness: cannot flatten the appended segments {[s[0] for s in segs]}')
    return fl, desc


def seqno_sym(i):
    return z3.BitVec(f'seqno{i}', 64)


# ------------------------------------------------------------------ the symbolic file and the reader-side contract
class SymFileState:
    pass


def mk_symfile(image, length, zero_from, name='journal'):
    f = Obj('std::fs::File', name, 'symfile')
    f.data['image'] = image          # list of z3 BV8
    f.data['len'] = length           # EOF position (may exceed len(image): zero padding)
    f.data['zero_from'] = zero_from  # bytes at index >= zero_from read as 0
    f.data['pos'] = 0
    return f


def file_byte(f, i):
    img = f.data['image']
    if i >= f.data['zero_from'] or i >= len(img):
        return z3.BitVecVal(0, 8)
    return img[i]


def symfile_of(v):
    v = deref(v)
    seen = 0
    while isinstance(v, Obj) and v.kind != 'symfile' and seen < 5:
        seen += 1
        c = v.fields.get('inner')
        if c is None:
            # JournalReader { path, reader, last_valid_pos }: not expected here
            return None
        v = deref(c.val)
    return v if isinstance(v, Obj) and v.kind == 'symfile' else None


def eof_err():
    e = EnumV('std::io::Error', 0, 'ioerr')
    e.data['kind'] = 'UnexpectedEof'
    o = Obj('std::io::Error', 'eof', 'opaque'); o.data['kind'] = 'UnexpectedEof'
    return o


def ov_read_int(ex, st, call):
    f = symfile_of(call.args[0])
    if f is None:
        return NotImplemented
    kind = call.c0.rsplit('_', 1)[-1]
    n = {'u8': 1, 'u16': 2, 'u32': 4, 'u64': 8}[kind]
    pos = f.data['pos']
    if pos + n > f.data['len']:
        f.data['pos'] = f.data['len']
        st.emit(Ev('R_EOF', obj=f, args={'at': pos, 'need': n}, site=call.site))
        return ex.mk_enum(call.dst_ty, 'Err', [eof_err()])
    bs = [file_byte(f, pos + i) for i in range(n)]
    v = z3.simplify(z3.Concat(*reversed(bs))) if n > 1 else bs[0]
    if n == 8:
        _u64_reads.append(v)
    f.data['pos'] = pos + n
    return ex.mk_enum(call.dst_ty, 'Ok', [v])


def concrete_values(ex, st, v, limit=70):
    """feasible concrete values of a BV under the path condition (bounded enumeration through the solver)"""
    v = z3.simplify(v)
    if z3.is_bv_value(v):
        return [v.as_long()]
    vals = []
    s = z3.Solver(); s.add(*st.pc)
    while len(vals) < limit and s.check() == z3.sat:
        x = s.model().eval(v, model_completion=True).as_long()
        vals.append(x); s.add(v != x)
    return vals


def ov_from_reader(ex, st, call):
    f = symfile_of(call.args[0])
    if f is None:
        return NotImplemented
    n = call.args[1]
    remaining = f.data['len'] - f.data['pos']
    n = z3.simplify(n)
    if not z3.is_bv_value(n):
        # a length that depends on an altered byte: case split; anything longer than the file is one EOF case
        vals = [x for x in concrete_values(ex, st, n, limit=remaining + 3)]
        outs = []
        small = sorted(set(x for x in vals if x <= remaining))
        big = [x for x in vals if x > remaining]
        cases = [(n == x, x) for x in small]
        if big or len(vals) >= remaining + 3:
            cases.append((z3.UGT(n, remaining), None))
        cur = st
        for i, (cond, x) in enumerate(cases):
            if not ex.feasible(cur.pc, cond):
                continue
            s2, memo = cur.clone() if i < len(cases) - 1 else (cur, None)
            s2.pc.append(cond)
            f2 = symfile_of(memo.get(id(call.args[0]), call.args[0])) if memo is not None else f
            if f2 is None:
                f2 = ex._find_obj(s2, f.uid)
            outs.append((s2, _read_exact(ex, s2, f2, x, call)))
            if i < len(cases) - 1:
                cur.pc.append(z3.Not(cond))
        return outs
    return _read_exact(ex, st, f, n.as_long(), call)


def _read_exact(ex, st, f, n, call):
    pos = f.data['pos']
    if n is None or pos + n > f.data['len']:
        f.data['pos'] = f.data['len']
        st.emit(Ev('R_EOF', obj=f, args={'at': pos, 'need': n}, site=call.site))
        return ex.mk_enum(call.dst_ty, 'Err', [eof_err()])
    o = Obj('lsm_tree::Slice', f'read@{pos}', 'bytes')
    o.data['bytes_list'] = [file_byte(f, pos + i) for i in range(n)]
    o.data['len'] = n
    f.data['pos'] = pos + n
    return ex.mk_enum(call.dst_ty, 'Ok', [o])


def ov_read_exact(ex, st, call):
    f = symfile_of(call.args[0])
    if f is None:
        return NotImplemented
    buf = deref(call.args[1])
    n = buf.data.get('len') if isinstance(buf, Obj) else None
    if n is None:
        return NotImplemented
    pos = f.data['pos']
    if pos + n > f.data['len']:
        f.data['pos'] = f.data['len']
        st.emit(Ev('R_EOF', obj=f, args={'at': pos, 'need': n}, site=call.site))
        return ex.mk_enum(call.dst_ty, 'Err', [eof_err()])
    for i in range(n):
        buf.fields[('i', i)] = Cell(file_byte(f, pos + i))
    f.data['pos'] = pos + n
    return ex.mk_enum(call.dst_ty, 'Ok', [ex.unit()])


def ov_comp_decode(ex, st, call):
    f = symfile_of(call.args[0])
    if f is None:
        return NotImplemented
    pos = f.data['pos']
    if pos + 1 > f.data['len']:
        f.data['pos'] = f.data['len']
        return ex.mk_enum(call.dst_ty, 'Err', [Obj('lsm_tree::Error', 'eof', 'opaque')])
    b = file_byte(f, pos); f.data['pos'] = pos + 1
    ok = z3.Or(b == 0, b == 1)
    e = EnumV(call.dst_ty, z3.simplify(z3.If(ok, bv(0), bv(1))), 'ct_res')
    ct = EnumV('lsm_tree::CompressionType', z3.simplify(z3.ZeroExt(56, b)), 'ct')
    o = Obj('Ok', 'Ok', 'variant'); o.fields[0] = Cell(ct); e.payloads['Ok'] = o
    err = Obj('lsm_tree::Error', 'InvalidTag', 'opaque')
    o2 = Obj('Err', 'Err', 'variant'); o2.fields[0] = Cell(err); e.payloads['Err'] = o2
    return e


def ov_stream_position(ex, st, call):
    f = symfile_of(call.args[0])
    if f is None:
        return NotImplemented
    return ex.mk_enum(call.dst_ty, 'Ok', [bv(f.data['pos'])])


def ov_get_mut(ex, st, call):
    r = deref(call.args[0])
    if isinstance(r, Obj) and 'inner' in r.fields:
        return Ref(r.fields['inner'])
    return NotImplemented


def ov_set_len(ex, st, call):
    f = deref(call.args[0])
    n = z3.simplify(as_bv64(call.args[1]))
    st.emit(Ev('F_SET_LEN', obj=f if isinstance(f, Obj) else None, args={'len': n}, site=call.site))
    if isinstance(f, Obj) and f.kind == 'symfile' and z3.is_bv_value(n):
        f.data['len'] = min(f.data['len'], n.as_long())
    return ex.mk_enum(call.dst_ty, 'Ok', [ex.unit()])


def ov_sync(ex, st, call):
    st.emit(Ev('F_SYNC_ALL', obj=deref(call.args[0]) if isinstance(deref(call.args[0]), Obj) else None, site=call.site))
    return ex.mk_enum(call.dst_ty, 'Ok', [ex.unit()])


def ov_open_for_truncate(ex, st, call):
    # JournalBatchReader::truncate_to opens the journal by path: same underlying file
    tgt = st.globals.get('symfile')
    return ex.mk_enum(call.dst_ty, 'Ok', [tgt if tgt is not None else Obj('std::fs::File', 'reopened', 'opaque')])


def ov_io_kind(ex, st, call):
    e = deref(call.args[0])
    k = e.data.get('kind') if isinstance(e, Obj) else None
    kinds = {'UnexpectedEof': 'UnexpectedEof', 'Other': 'Other'}
    vs = ex.src.enum_variants('std::io::ErrorKind')
    en = EnumV('std::io::ErrorKind', z3.BitVec(f'iokind!{next(st.fresh)}', 64), 'kind')
    en.data['kind'] = k
    return en


def ov_error_kind(ex, st, call):
    e = deref(call.args[0])
    k = e.data.get('kind') if isinstance(e, Obj) else None
    code = {'UnexpectedEof': 37, 'Other': 40}.get(k)
    if code is None:
        return EnumV('std::io::ErrorKind', z3.BitVec(f'iokind!{next(st.fresh)}', 64), 'kind')
    return EnumV('std::io::ErrorKind', code, 'kind')


READER_OVERRIDES = [
    (r'^(std::io::)?Error::kind$', ov_error_kind),
    (r'as ReadBytesExt>::read_(u8|u16|u32|u64)$', ov_read_int),
    (r'Slice::from_reader$', ov_from_reader),
    (r'as (std::io::)?Read>::read_exact$', ov_read_exact),
    (r'CompressionType as (lsm_tree::coding::)?Decode>::decode_from$', ov_comp_decode),
    (r'as (std::io::)?Seek>::stream_position$', ov_stream_position),
    (r'^BufReader::get_mut$', ov_get_mut),
    (r'^File::set_len$', ov_set_len),
    (r'^File::sync_all$', ov_sync),
    (r'^OpenOptions::open$', ov_open_for_truncate),
    (r'^<Xxh3 as Hasher>::finish$', ov_hash_finish),
]


def run_reader(ctx, image, length, zero_from, max_batches=4, extra_pc=()):
    """execute JournalBatchReader::next repeatedly over the image; returns list of outcomes (one per feasible path):
       {'batches': [...], 'end': 'none'|'error', 'err': .., 'set_len': [...], 'pc': [...], 'status': ..}"""
    fn = ctx.prog.find(r'^batch_reader::<impl>::next$|^journal::batch_reader::<impl>::next$')
    reader_mode()
    _derived.clear(); _u64_reads.clear()      # per reader run; the registry of written contents stays
    results = []
    # the reader object persists across calls: run next() up to max_batches+1 times on the evolving state
    ex = ctx.executor(loop_bound=12, overrides=READER_OVERRIDES, max_depth=14)

    # ErrorKind matching in JournalReader::next: io errors created by our overrides are UnexpectedEof
    def ov_kind(ex_, st, call):
        e = deref(call.args[0])
        vs = dict(ex_.src.enum_variants('std::io::ErrorKind') or [])
        return EnumV('std::io::ErrorKind', 0, 'kind')
    from .. import contract as K

    def setup(ex_, st, fr):
        f = mk_symfile(image, length, zero_from)
        st.globals['symfile'] = f
        br = Obj('BufReader<File>', 'bufreader', 'struct'); br.fields['inner'] = Cell(f)
        jr = Obj('journal::reader::JournalReader', 'jreader', 'struct')
        jn = ex_.src.struct_fields('journal::reader::JournalReader')
        jr.fields[jn.index('reader')] = Cell(br); jr.fields[jn.index('last_valid_pos')] = Cell(bv(0))
        bn = ex_.src.struct_fields('journal::batch_reader::JournalBatchReader')
        b = Obj('journal::batch_reader::JournalBatchReader', 'breader', 'struct')
        b.fields[bn.index('reader')] = Cell(jr)
        from ..contract import mk_seq
        b.fields[bn.index('items')] = Cell(mk_seq('Vec<ReadBatchItem>', [], 'items'))
        b.fields[bn.index('cleared_keyspaces')] = Cell(mk_seq('Vec<u64>', [], 'cleared'))
        b.fields[bn.index('is_in_batch')] = Cell(z3.BoolVal(False))
        b.fields[bn.index('batch_counter')] = Cell(z3.BitVecVal(0, 32))
        b.fields[bn.index('batch_seqno')] = Cell(bv(0))
        b.fields[bn.index('last_valid_pos')] = Cell(bv(0))
        hs = Obj('Xxh3', 'hasher', 'struct'); hs.data['hashed'] = []
        b.fields[bn.index('checksum_builder')] = Cell(hs)
        st.globals['breader'] = b
        st.pc.extend(extra_pc)
        fr.locals[fn.args[0]] = Cell(Ref(Cell(b)))
    frontier = None
    finished = []
    # first call
    paths = ex.run(fn, setup=setup)
    ctx.functions_encoded[fn.key] = ctx.prog.hashes.get(fn.name, '')
    work = [(p, []) for p in paths]
    rounds = 0
    while work and rounds < max_batches + 2:
        rounds += 1
        nxt = []
        for p, got in work:
            ctx.paths_total += 1; ctx.events_total += len(p.events)
            if p.status != 'returned':
                finished.append({'batches': got, 'end': p.status, 'path': p}); continue
            r = p.ret
            d = bv(r.disc) if isinstance(r.disc, int) else r.disc
            d = z3.simplify(d)
            if z3.is_bv_value(d) and d.as_long() == 0:
                finished.append({'batches': got, 'end': 'none', 'path': p}); continue
            inner = r.payloads['Some'].fields[0].val
            di = z3.simplify(bv(inner.disc) if isinstance(inner.disc, int) else inner.disc)
            if z3.is_bv_value(di) and di.as_long() == 1:
                finished.append({'batches': got, 'end': 'error', 'err': inner.payloads.get('Err'), 'path': p}); continue
            batch = inner.payloads['Ok'].fields[0].val
            got2 = got + [batch]
            # continue with the same reader state
            st2 = p.st
            st2.status = 'running'
            st2.frames = []
            b = st2.globals['breader']

            def setup_more(ex_, st, fr, b=b):
                fr.locals[fn.args[0]] = Cell(Ref(Cell(b)))
            more = ex.run(fn, st=st2, setup=setup_more)
            nxt += [(q, got2) for q in more]
        work = nxt
    for p, got in work:
        finished.append({'batches': got, 'end': 'unfinished', 'path': p})
    return finished


def batch_view(ex, batch):
    """(seqno, [(ks, vtype_disc, key bytes, value bytes)], [cleared ks]) of a Batch object produced by the reader"""
    names = ex.src.struct_fields('journal::batch_reader::Batch')
    seq = batch.fields[names.index('seqno')].val
    items = batch.fields[names.index('items')].val
    cl = batch.fields[names.index('cleared_keyspaces')].val
    rn = ex.src.struct_fields('journal::batch_reader::ReadBatchItem')
    out = []
    for c in (items.data.get('items') or []):
        it = c.val
        ks = it.fields[rn.index('keyspace_id')].val
        key = it.fields[rn.index('key')].val; val = it.fields[rn.index('value')].val
        vt = it.fields[rn.index('value_type')].val
        out.append((ks, vt, key.data.get('bytes_list'), val.data.get('bytes_list')))
    cls = [c.val for c in (cl.data.get('items') or [])]
    return seq, out, cls
