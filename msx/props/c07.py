"""C07 — optimistic transactions are serializable.

M obligations:
  read-tracked/<method>    every read method of the optimistic write transaction records a read (point key / range / all)
                           that covers what it read, under the id of the keyspace it read from
  write-tracked/<method>   every write method records the written key as a conflict key
  has-conflict/spec        ConflictManager::has_conflict == ∃ keyspace, recorded read r, written key k: k ∈ r
                           (symbolic reads of every shape, bounds of every kind, ≤ 2 reads × ≤ 2 keys, key order abstract)
  commit/*                 Oracle::with_commit validates exactly against commits with ts > instant, calls the commit
                           closure only if not conflicted, registers after the apply under the same mutex, never prunes
                           an entry newer than the GC watermark
Native replay: small SSI histories (read through the method, concurrent overwrite, write elsewhere, commit ⇒ Conflict).
"""
import z3
from ..core import ret_is_err, ret_is_ok, obj_name
from ..symex import Obj, EnumV, Ref, Cell, deref, bv, base_name
from ..contract import cid, ord_of, mk_seq
from . import common as C
from .c05 import find_objs, self_arg

P = 'optimistic::write_tx::<impl>::'
CM_CALLS = [r'ConflictManager::(mark_read|mark_range|mark_conflict|push_read)$', r'SnapshotTracker::gc$']
POINT_READS = ['get', 'contains_key', 'size_of']
SCAN_READS = ['iter', 'range', 'prefix', 'first_key_value', 'last_key_value']
RMW = ['take', 'fetch_update', 'update_fetch']
WRITES = ['insert', 'remove', 'remove_weak']
TREE_POINT = ('T_GET', 'T_CONTAINS', 'T_SIZE_OF')
TREE_SCAN = ('T_ITER', 'T_RANGE', 'T_PREFIX', 'T_FIRST', 'T_LAST', 'T_IS_EMPTY')


def owner_keyspace_id(ex, p, tree_obj):
    """id field (z3) of the KeyspaceInner whose `tree` field is tree_obj"""
    names = ex.src.struct_fields('KeyspaceInner')
    ti, ii = names.index('tree'), names.index('id')
    roots = [c.val for c in p.st.frames[0].locals.values()]
    for r in roots:
        for o in find_objs(r, lambda o: o.ty.split('<')[0].endswith('KeyspaceInner')):
            c = o.fields.get(ti)
            if c is not None and (c.val is tree_obj or (isinstance(c.val, EnumV) and c.val.data.get('as_obj') is tree_obj)):
                ic = o.fields.get(ii)
                return ic.val if ic is not None else None
    return None


def marks(p):
    out = []
    for e in p.events:
        if e.kind == 'CALL' and 'ConflictManager::mark_' in e.args.get('callee', ''):
            out.append((e.args['callee'].rsplit('::', 1)[-1], e.args['args'], e))
    return out


def covers_scan(ex, ctx, p, mark_arg, read_ev, ob):
    m = deref(mark_arg)
    if isinstance(m, Obj) and (base_name(m.ty) == 'RangeFull' or m.ty.strip() == 'RangeFull' or 'RangeFull' in m.name):
        return True
    if read_ev.kind in ('T_ITER', 'T_FIRST', 'T_LAST', 'T_IS_EMPTY'):
        return False     # a full scan is only covered by RangeFull
    rb = read_ev.args.get('bounds')
    if isinstance(m, Obj) and m.kind == 'tuple' and isinstance(rb, Obj):
        if m is rb:
            return True
        ok = True
        for i, side in ((0, 'start'), (1, 'end')):
            c = m.fields.get(i)
            b = c.val if c is not None else None
            if not isinstance(b, EnumV):
                return False
            bo = b.data.get('bound_of')
            if bo != (rb.uid, side):
                ok = False
            mc = b.data.get('mapped_cid')
            if mc is not None and mc[0] != mc[1]:
                ok = False
        return ok
    return False


def check_read_tracked(ctx, method, self_ty=None, pat=None):
    pat = pat or ('^' + P.replace('<', r'\<').replace('>', r'\>') + method + '$')
    ob = ctx.ob(f'read-tracked/{method}', f'optimistic WriteTransaction::{method}: whatever is read is recorded in the read set (covering key/range, right keyspace id)', [pat])
    fn = ctx.prog.find(pat)
    ex = ctx.executor(no_inline=C.NO_BACKPRESSURE + CM_CALLS, loop_bound=2)
    setup = None
    if self_ty:
        def setup(ex_, st, fr):
            fr.self_ty = self_ty
    paths = ex.run(fn, setup=setup)
    ctx.functions_encoded[fn.key] = ctx.prog.hashes.get(fn.name, '')
    ctx.paths_total += len(paths); ctx.events_total += sum(len(p.events) for p in paths)
    ctx.solver_s += ex.stats['solver_s']; ctx.queries += ex.stats['solver_calls']
    bad = []
    for p in paths:
        if p.status in ('error', 'timeout', 'loop_bound'):
            if p.status == 'loop_bound':
                continue
            ob.status = 'undecided'; ob.detail = 'executor: ' + str(p.notes[-1:])
            return ob
        if p.status != 'returned':
            continue
        if isinstance(p.ret, EnumV) and base_name(p.ret.ty) == 'Result':
            r, _ = ctx.sat(p.pc + [ret_is_ok(p)], ob)
            if r != z3.sat:
                continue
        ms = marks(p)
        for e in p.events:
            if e.kind in TREE_POINT:
                ob.reach += 1
                kid = owner_keyspace_id(ex, p, e.obj)
                ok = False
                for name, args, me in ms:
                    if name != 'mark_read' or len(args) < 3:
                        continue
                    same_key = cid(args[2]) == cid(e.args['key'])
                    same_id = kid is not None and z3.is_bv(args[1]) and ctx.sat(p.pc + [args[1] != kid], ob)[0] == z3.unsat
                    if same_key and same_id:
                        ok = True
                if not ok:
                    bad.append((p, e, 'point read is not recorded in the read set'))
            elif e.kind in TREE_SCAN:
                ob.reach += 1
                kid = owner_keyspace_id(ex, p, e.obj)
                ok = False
                for name, args, me in ms:
                    if name != 'mark_range' or len(args) < 3:
                        continue
                    same_id = kid is not None and z3.is_bv(args[1]) and ctx.sat(p.pc + [args[1] != kid], ob)[0] == z3.unsat
                    if same_id and covers_scan(ex, ctx, p, args[2], e, ob):
                        ok = True
                if not ok:
                    bad.append((p, e, 'scan is not covered by a recorded range'))
    if ob.reach == 0:
        ob.status = 'undecided'; ob.detail = 'vacuous: no tree read reached'
        return ob
    if not bad:
        ob.status = 'discharged'; ob.sample = {'reads_checked': ob.reach, 'paths': len(paths)}
        return ob
    p, e, why = bad[0]
    role = f'OptimisticWriteTx.{method}/read-not-tracked'
    ctx.candidate(ob, role, f'{method}: {why} ({e.kind}); marks on the path: {[m[0] for m in marks(p)]}',
                  confirm=lambda: native_ssi(ctx, 'read', method))
    return ob


def check_write_tracked(ctx, method):
    pat = '^' + P.replace('<', r'\<').replace('>', r'\>') + method + '$'
    ob = ctx.ob(f'write-tracked/{method}', f'optimistic WriteTransaction::{method}: the written key is recorded as a conflict key under the right keyspace id', [pat])
    ex, paths = ctx.run(pat, cache_key='w.' + method, no_inline=C.NO_BACKPRESSURE + CM_CALLS, loop_bound=2)
    bad = []
    for p in paths:
        if p.status in ('error', 'timeout'):
            ob.status = 'undecided'; ob.detail = 'executor: ' + str(p.notes[-1:])
            return ob
        if p.status != 'returned':
            continue
        if isinstance(p.ret, EnumV) and base_name(p.ret.ty) == 'Result' and ctx.sat(p.pc + [ret_is_ok(p)], ob)[0] != z3.sat:
            continue
        writes = [e for e in p.events if e.kind == 'MT_INSERT']
        ms = marks(p)
        for e in writes:
            ob.reach += 1
            key = e.args.get('key')
            ok = any(name == 'mark_conflict' and len(args) >= 3 and cid(args[2]) == cid(key) for name, args, _ in ms)
            if not ok:
                bad.append((p, e, 'write is not recorded as a conflict key'))
    if ob.reach == 0 and method in WRITES:
        ob.status = 'undecided'; ob.detail = 'vacuous: no memtable write reached'
        return ob
    if not bad:
        ob.status = 'discharged'; ob.sample = {'writes_checked': ob.reach}
        return ob
    role = f'OptimisticWriteTx.{method}/write-not-tracked'
    ctx.candidate(ob, role, f'{method}: {bad[0][2]}', confirm=lambda: native_ssi(ctx, 'write', method))
    return ob


# ------------------------------------------------------------------ native SSI battery
def native_ssi(ctx, what, method):
    K1, K2, K3, K0 = '6b31', '6b32', '6b33', '6b30'
    head = ['dir $DIR/db', 'kind opt', 'open workers=0', 'ks a', f'insert a {K1} 6f6c64', f'insert a {K2} 78']
    if what == 'read':
        point = method in POINT_READS + RMW
        t1_read = {'take': f'tx t1 take a {K1}', 'fetch_update': f'tx t1 fetch_update a {K1} 7a', 'update_fetch': f'tx t1 update_fetch a {K1} 7a'}.get(
            method, f'tx t1 {method} a {K1}')
        t2_write = f'tx t2 insert a {K1} 6e6577' if point else f'tx t2 insert a {K0} 70'   # overwrite / phantom
        L = head + ['tx t1 begin', t1_read, 'tx t2 begin', t2_write, 'tx t2 commit', f'tx t1 insert a {K3} 7a', 'tx t1 commit', 'close']
    else:
        w = {'insert': f'tx t2 insert a {K1} 6e6577', 'remove': f'tx t2 remove a {K1}', 'remove_weak': f'tx t2 remove_weak a {K1}',
             'take': f'tx t2 take a {K1}', 'fetch_update': f'tx t2 fetch_update a {K1} 6e6577', 'update_fetch': f'tx t2 update_fetch a {K1} 6e6577'}[method]
        L = head + ['tx t1 begin', f'tx t1 get a {K1}', 'tx t2 begin', w, 'tx t2 commit', f'tx t1 insert a {K3} 7a', 'tx t1 commit', 'close']
    spath, out = ctx.run_scenario('\n'.join(L) + '\n', tag=f'ssi-{what}-{method}')
    rs = [(cmd, r) for _i, cmd, r in out]
    if any(cmd == 'CRASH' for cmd, _r in rs):
        return True, spath, 'crash: ' + rs[-1][1][-200:]
    commits = [r for (c, r), l in zip(rs, [x for x in L]) if l.endswith('commit')]
    lines = list(zip(L, [r for _c, r in rs]))
    t2c = [r for l, r in lines if l == 'tx t2 commit']
    t1c = [r for l, r in lines if l == 'tx t1 commit']
    if not t2c or t2c[0] != 'ok':
        return False, spath, f't2 did not commit ({t2c})'
    if t1c and t1c[0] == 'ok':
        return True, spath, (f't1 observed a key through {method}, t2 overwrote/added it and committed, t1 then committed a write: '
                             f'accepted (must be Conflict)' if what == 'read' else
                             f't1 read k1, t2 changed k1 through {method} and committed, t1 then committed: accepted (must be Conflict)')
    return False, spath, f'held natively (t1 commit: {t1c})'


# ------------------------------------------------------------------ has_conflict against its specification
def mk_key(name):
    o = Obj('lsm_tree::Slice', name, 'bytes')
    o.data['ord'] = z3.BitVec(f'ord:{name}', 8)
    return o


def mk_bound_sym(ex, st, name):
    e = EnumV('Bound<lsm_tree::Slice>', z3.BitVec(f'bd:{name}', 64), name)
    st.pc.append(z3.ULE(e.disc, bv(2)))
    k = mk_key(name + '.k')
    for var in ('Included', 'Excluded'):
        o = Obj('', var, 'variant'); o.fields[0] = Cell(k); e.payloads[var] = o
    e.data['key'] = k
    return e


def mk_read_sym(ex, st, name):
    e = EnumV('tx::optimistic::conflict_manager::Read', z3.BitVec(f'rd:{name}', 64), name)
    st.pc.append(z3.ULE(e.disc, bv(2)))
    k = mk_key(name + '.single')
    o = Obj('', 'Single', 'variant'); o.fields[0] = Cell(k); e.payloads['Single'] = o
    s, t = mk_bound_sym(ex, st, name + '.start'), mk_bound_sym(ex, st, name + '.end')
    o2 = Obj('', 'Range', 'variant'); o2.fields[0] = Cell(s); o2.fields[1] = Cell(t); e.payloads['Range'] = o2
    e.data.update(single=k, start=s, end=t)
    return e


def read_contains(rd, k_ord):
    """specification: key position k_ord ∈ read rd"""
    s, t = rd.data['start'], rd.data['end']
    so, to = s.data['key'].data['ord'], t.data['key'].data['ord']
    in_lo = z3.Or(s.disc == bv(2), z3.And(s.disc == bv(0), z3.UGE(k_ord, so)), z3.And(s.disc == bv(1), z3.UGT(k_ord, so)))
    in_hi = z3.Or(t.disc == bv(2), z3.And(t.disc == bv(0), z3.ULE(k_ord, to)), z3.And(t.disc == bv(1), z3.ULT(k_ord, to)))
    return z3.Or(z3.And(rd.disc == bv(0), k_ord == rd.data['single'].data['ord']),
                 z3.And(rd.disc == bv(1), in_lo, in_hi),
                 rd.disc == bv(2))


def read_wellformed(rd):
    s, t = rd.data['start'], rd.data['end']
    so, to = s.data['key'].data['ord'], t.data['key'].data['ord']
    both = z3.And(s.disc != bv(2), t.disc != bv(2))
    ok = z3.Implies(both, z3.Or(z3.ULT(so, to), z3.And(so == to, s.disc == bv(0), t.disc == bv(0))))
    # mark_range turns (Unbounded, Unbounded) into Read::All, so a Range is never doubly unbounded
    return z3.Implies(rd.disc == bv(1), z3.And(ok, z3.Not(z3.And(s.disc == bv(2), t.disc == bv(2)))))


def check_has_conflict(ctx, n_reads, n_keys, n_ks=1):
    """n_ks keyspace entries in the read table of `self` and in the write table of the other transaction, each with n_reads reads / n_keys keys;
    ids symbolic (ascending within a table, as a BTreeMap iterates), each entry optional when n_ks > 1"""
    pat = r'^conflict_manager::<impl>::has_conflict$'
    tag = f'{n_reads}r{n_keys}k' + (f'-{n_ks}ks' if n_ks > 1 else '')
    ob = ctx.ob(f'has-conflict/spec-{tag}', f'has_conflict agrees with ∃ read r, written key k (same keyspace): k ∈ r  ({n_ks} keyspace entr{"y" if n_ks == 1 else "ies"} per table with symbolic ids, '
                f'{n_reads} symbolic reads of any shape and {n_keys} written keys per entry)', [pat])
    fn = ctx.prog.find(pat)
    ex = ctx.executor(loop_bound=n_reads + n_keys + n_ks + 2, max_depth=14, timeout_s=240)
    env = {}

    def mk_cm(ex_, st, name, reads_kv, keys_kv):
        names = ex_.src.struct_fields('ConflictManager')
        cm = Obj('tx::optimistic::conflict_manager::ConflictManager', name, 'struct')
        for fname, kvs, ty in (('reads', reads_kv, 'BTreeMap<u64, Vec<conflict_manager::Read>>'), ('conflict_keys', keys_kv, 'BTreeMap<u64, BTreeSet<lsm_tree::Slice>>')):
            m = Obj(ty, f'{name}.{fname}.map', 'opaque'); m.data['kv'] = kvs
            mx = Obj(f'Mutex<{ty}>', f'{name}.{fname}', 'struct'); mx.fields['data'] = Cell(m)
            cm.fields[names.index(fname)] = Cell(mx)
        return cm

    def setup(ex_, st, fr):
        sfx = (lambda g: '' if n_ks == 1 else str(g))
        idr = [z3.BitVec('id_reads' + sfx(g), 64) for g in range(n_ks)]
        idk = [z3.BitVec('id_keys' + sfx(g), 64) for g in range(n_ks)]
        pr = [z3.BoolVal(True) if n_ks == 1 else z3.Bool(f'has_reads{g}') for g in range(n_ks)]
        pk = [z3.BoolVal(True) if n_ks == 1 else z3.Bool(f'has_keys{g}') for g in range(n_ks)]
        for ids in (idr, idk):
            for x, y in zip(ids, ids[1:]):
                st.pc.append(z3.ULT(x, y))
        rgroups, kgroups, rkv, kkv = [], [], [], []
        for g in range(n_ks):
            rds = [mk_read_sym(ex_, st, f'r{sfx(g) and sfx(g) + "_"}{i}') for i in range(n_reads)]
            for r in rds:
                st.pc.append(read_wellformed(r))
            keys = [mk_key(f'k{sfx(g) and sfx(g) + "_"}{i}') for i in range(n_keys)]
            rgroups.append(rds); kgroups.append(keys)
            rkv.append({'key': idr[g], 'present': pr[g], 'cell': Cell(mk_seq('Vec<conflict_manager::Read>', rds, f'reads_vec{g}'))})
            kkv.append({'key': idk[g], 'present': pk[g], 'cell': Cell(mk_seq('BTreeSet<lsm_tree::Slice>', keys, f'keyset{g}'))})
        me = mk_cm(ex_, st, 'self_cm', rkv, [])
        other = mk_cm(ex_, st, 'other_cm', [], kkv)
        fr.locals[fn.args[0]] = Cell(Ref(Cell(me))); fr.locals[fn.args[1]] = Cell(Ref(Cell(other)))
        env.update(idr=idr, idk=idk, pr=pr, pk=pk, rgroups=rgroups, kgroups=kgroups)
    paths = ex.run(fn, setup=setup)
    ctx.functions_encoded[fn.key] = ctx.prog.hashes.get(fn.name, '')
    ctx.paths_total += len(paths); ctx.events_total += sum(len(p.events) for p in paths)
    ctx.solver_s += ex.stats['solver_s']; ctx.queries += ex.stats['solver_calls']
    spec = z3.Or(*[z3.And(env['pr'][i], env['pk'][j], env['idr'][i] == env['idk'][j],
                          z3.Or(*[read_contains(r, k.data['ord']) for r in env['rgroups'][i] for k in env['kgroups'][j]]) if env['kgroups'][j] else z3.BoolVal(False))
                   for i in range(n_ks) for j in range(n_ks)])
    bad = None
    for p in paths:
        if p.status in ('error', 'timeout', 'loop_bound'):
            ob.status = 'undecided'; ob.detail = f'executor: {p.status} {p.notes[-1:]}'
            return ob
        if p.status == 'panic':
            r, m = ctx.sat(p.pc, ob)
            if r == z3.sat:
                bad = (p, m, 'panics on a well-formed read set'); break
            continue
        if p.status != 'returned' or not z3.is_bool(p.ret):
            continue
        ob.reach += 1
        r, m = ctx.sat(p.pc + [p.ret != spec], ob)
        if r != z3.unsat:
            bad = (p, m, f'returns {z3.simplify(p.ret)} where the specification says {m.eval(spec) if m else "?"}'); break
    if bad is None and ob.reach:
        ob.status = 'discharged'; ob.sample = {'paths': len(paths), 'reads': n_reads, 'keys': n_keys, 'keyspace_entries': n_ks}
        return ob
    if bad is None:
        ob.status = 'undecided'; ob.detail = 'vacuous'
        return ob
    p, m, why = bad
    desc = {}
    if m is not None:
        for d in m.decls():
            if d.name().startswith(('rd:', 'bd:', 'ord:', 'id_', 'has_')):
                desc[d.name()] = str(m[d])
    role = 'ConflictManager.has_conflict/disagrees-with-specification'
    def confirm():
        r = native_has_conflict(ctx, m, env)
        if r[0]:
            return r
        r2 = native_range_bounds(ctx)
        return r2 if r2[0] else r
    ctx.candidate(ob, role, f'has_conflict {why}; model {desc}', confirm=confirm)
    return ob


def native_has_conflict(ctx, m, env):
    """turn the model into an SSI history: t1 performs the reads, t2 writes the keys and commits, t1 writes elsewhere and commits"""
    if m is None:
        return False, None, 'no model'

    def ordv(o):
        v = m.eval(o.data['ord'], model_completion=True).as_long()
        return v

    def keyhex(v):
        return '6b%02x' % v      # 'k' + order byte: byte order = abstract order

    def ev_true(c):
        return z3.is_true(m.eval(c, model_completion=True))
    n_ks = len(env['idr'])
    # keyspaces are created in ascending id order, so the real ids are ordered like the model's
    idvals = sorted({m.eval(x, model_completion=True).as_long() for x in env['idr'] + env['idk']})
    name_of = {v: 'abcdefgh'[i] for i, v in enumerate(idvals)}
    L = ['dir $DIR/db', 'kind opt', 'open workers=0'] + [f'ks {name_of[v]}' for v in idvals]
    L += ['tx t1 begin']
    rlist, klist = [], []
    for g in range(n_ks):
        if not ev_true(env['pr'][g]):
            continue
        ks_r = name_of[m.eval(env['idr'][g], model_completion=True).as_long()]
        for r in env['rgroups'][g]:
            rlist.append((ks_r, r))
            d = m.eval(r.disc, model_completion=True).as_long()
            if d == 0:
                L.append(f'tx t1 get {ks_r} {keyhex(ordv(r.data["single"]))}')
            elif d == 2:
                L.append(f'tx t1 iter {ks_r}')
            else:
                s, t = r.data['start'], r.data['end']
                sd, td = m.eval(s.disc, model_completion=True).as_long(), m.eval(t.disc, model_completion=True).as_long()
                L.append(f'tx t1 range_b {ks_r} {"ieu"[sd]} {keyhex(ordv(s.data["key"]))} {"ieu"[td]} {keyhex(ordv(t.data["key"]))}')
    L += ['tx t2 begin']
    for g in range(n_ks):
        if not ev_true(env['pk'][g]):
            continue
        ks_k = name_of[m.eval(env['idk'][g], model_completion=True).as_long()]
        for k in env['kgroups'][g]:
            klist.append((ks_k, k))
            L.append(f'tx t2 insert {ks_k} {keyhex(ordv(k))} 77')
    spare = 'abcdefgh'[len(idvals)]
    L.insert(3 + len(idvals), f'ks {spare}')
    L += ['tx t2 commit', f'tx t1 insert {spare} 7a7a 7a', 'tx t1 commit', 'close']
    spath, out = ctx.run_scenario('\n'.join(L) + '\n', tag='hasconflict')
    rs = [r for _i, _c, r in out]
    if any(c == 'CRASH' for _i, c, _r in out):
        return True, spath, 'commit crashed: ' + rs[-1][-200:]
    if any(r.startswith('err:') and 'BadCmd' in r for r in rs):
        return False, spath, 'driver lacks range_b'
    lines = list(zip(L, rs))
    t1c = [r for l, r in lines if l == 'tx t1 commit']
    # ground truth natively: does any written key fall into any read of the same keyspace? (computed from the same concrete values)
    hit = False
    for ks_r, r in rlist:
        d = m.eval(r.disc, model_completion=True).as_long()
        for ks_k, k in klist:
            if ks_k != ks_r:
                continue
            ko = ordv(k)
            if d == 0:
                hit |= ko == ordv(r.data['single'])
            elif d == 2:
                hit = True
            else:
                s, t = r.data['start'], r.data['end']
                sd, td = m.eval(s.disc, model_completion=True).as_long(), m.eval(t.disc, model_completion=True).as_long()
                lo_ok = sd == 2 or (sd == 0 and ko >= ordv(s.data['key'])) or (sd == 1 and ko > ordv(s.data['key']))
                hi_ok = td == 2 or (td == 0 and ko <= ordv(t.data['key'])) or (td == 1 and ko < ordv(t.data['key']))
                hit |= (lo_ok and hi_ok)
    got = t1c[0] if t1c else '?'
    if hit and got == 'ok':
        return True, spath, 't1 read a key/range that t2 wrote and committed; t1 then committed (must be Conflict)'
    if (not hit) and got == 'conflict':
        return False, spath, 'spurious Conflict natively (not a serializability violation)'
    return False, spath, f'held natively (expected conflict={hit}, got {got})'


# ------------------------------------------------------------------ mark_range records exactly the given bounds
def check_mark_range(ctx):
    pat = r'^conflict_manager::<impl>::mark_range$'
    ob = ctx.ob('mark-range/records-bounds', 'ConflictManager::mark_range records Read::All for an unbounded range and otherwise a Range with exactly the given bound kinds and keys', [pat])
    fn = ctx.prog.find(pat)
    ex = ctx.executor(no_inline=[r'ConflictManager::push_read$'], loop_bound=2)
    env = {}

    def setup(ex_, st, fr):
        s, t = mk_bound_sym(ex_, st, 'in.start'), mk_bound_sym(ex_, st, 'in.end')
        rng = Obj('(Bound<lsm_tree::Slice>, Bound<lsm_tree::Slice>)', 'range', 'tuple')
        rng.fields[0] = Cell(s); rng.fields[1] = Cell(t)
        fr.locals[fn.args[2]] = Cell(rng)
        env.update(s=s, t=t)
    paths = ex.run(fn, setup=setup)
    ctx.functions_encoded[fn.key] = ctx.prog.hashes.get(fn.name, '')
    ctx.paths_total += len(paths); ctx.events_total += sum(len(p.events) for p in paths)
    bad = None
    s, t = env['s'], env['t']
    for p in paths:
        if p.status in ('error', 'timeout', 'loop_bound'):
            ob.status = 'undecided'; ob.detail = f'executor: {p.status} {p.notes[-1:]}'
            return ob
        if p.status != 'returned':
            continue
        pushes = [e for e in p.events if e.kind == 'CALL' and e.args.get('callee', '').endswith('push_read')]
        ob.reach += 1
        if len(pushes) != 1:
            bad = (p, f'{len(pushes)} reads recorded'); break
        rd = pushes[0].args['args'][2]
        if not isinstance(rd, EnumV):
            bad = (p, 'recorded read is not a Read value'); break
        d = bv(rd.disc) if isinstance(rd.disc, int) else rd.disc
        both_unb = z3.And(s.disc == bv(2), t.disc == bv(2))
        claims = [z3.Implies(both_unb, d == bv(2)), z3.Implies(z3.Not(both_unb), d == bv(1))]
        o = rd.payloads.get('Range')
        if o is not None and 0 in o.fields and 1 in o.fields:
            rs_, rt_ = o.fields[0].val, o.fields[1].val
            for given, rec in ((s, rs_), (t, rt_)):
                if isinstance(rec, EnumV):
                    rdsc = bv(rec.disc) if isinstance(rec.disc, int) else rec.disc
                    claims.append(z3.Implies(d == bv(1), rdsc == given.disc))
                    for var in ('Included', 'Excluded'):
                        ro = rec.payloads.get(var)
                        if ro is not None and 0 in ro.fields and isinstance(deref(ro.fields[0].val), Obj):
                            if cid(ro.fields[0].val) != cid(given.data['key']):
                                vd = {'Included': 0, 'Excluded': 1}[var]
                                claims.append(z3.Implies(z3.And(d == bv(1), rdsc == bv(vd)), z3.BoolVal(False)))
        r, m = ctx.sat(p.pc + [z3.Not(z3.And(*claims))], ob)
        if r != z3.unsat:
            bad = (p, 'recorded read differs from the given bounds'); break
    if bad is None and ob.reach:
        ob.status = 'discharged'; ob.sample = {'paths': ob.reach}
    elif bad is None:
        ob.status = 'undecided'; ob.detail = 'vacuous'
    else:
        ctx.candidate(ob, 'ConflictManager.mark_range/wrong-bounds-recorded', f'mark_range: {bad[1]}', confirm=lambda: native_range_bounds(ctx))
    return ob


def native_range_bounds(ctx):
    """phantom at each edge of a scanned range: t1 scans (lo, hi] / [lo, hi) etc., t2 inserts a key exactly on / next to a bound"""
    lo, mid, hi = '6b32', '6b34', '6b36'
    cases = []
    for sk in 'ie':
        for ek in 'ie':
            for key, inside in ((lo, sk == 'i'), (hi, ek == 'i'), (mid, True), ('6b31', False), ('6b37', False)):
                cases.append((sk, ek, key, inside))
    last = (False, None, 'not run')
    for sk, ek, key, inside in cases:
        L = ['dir $DIR/db', 'kind opt', 'open workers=0', 'ks a', 'insert a 6b30 30', 'tx t1 begin', f'tx t1 range_b a {sk} {lo} {ek} {hi}',
             'tx t2 begin', f'tx t2 insert a {key} 77', 'tx t2 commit', 'tx t1 insert a 7a7a 7a', 'tx t1 commit', 'close']
        spath, out = ctx.run_scenario('\n'.join(L) + '\n', tag=f'rangeb-{sk}{ek}-{key}')
        rs = [r for _i, _c, r in out]
        if any(c == 'CRASH' for _i, c, _r in out):
            return True, spath, 'crash: ' + rs[-1][-200:]
        t1c = [r for l, r in zip(L, rs) if l == 'tx t1 commit']
        if inside and t1c and t1c[0] == 'ok':
            return True, spath, f't1 scanned {"[" if sk == "i" else "("}{lo},{hi}{"]" if ek == "i" else ")"}, t2 inserted {key} inside it and committed, t1 committed: accepted (must be Conflict)'
        last = (False, spath, 'held natively on 20 bound/phantom combinations')
    return last


# ------------------------------------------------------------------ Oracle::with_commit
def check_with_commit(ctx):
    pat = r'^oracle::<impl>::with_commit$'
    fn = ctx.prog.find(pat)
    obs = {k: ctx.ob(f'commit/{k}', d, [pat]) for k, d in [
        ('validates-newer-commits', 'with_commit checks the transaction against every registered commit with ts > instant and no other'),
        ('conflict-no-effect', 'a conflicting transaction is refused: the commit closure is not called and nothing is registered'),
        ('registers-after-apply', 'a successful commit is registered under ts = visible seqno read after the apply, inside the oracle mutex'),
        ('prune-keeps-needed', 'pruning drops only entries with ts <= GC watermark'),
    ]}
    ex = ctx.executor(no_inline=[r'has_conflict$', r'SnapshotTracker::gc$'], loop_bound=4)
    env = {}

    def setup(ex_, st, fr):
        names = ex_.src.struct_fields('Oracle')
        ts = [z3.BitVec(f'ts{i}', 64) for i in range(2)]
        pr = [z3.Bool(f'reg{i}') for i in range(2)]
        st.pc.append(z3.ULT(ts[0], ts[1]))
        kv = [{'key': ts[i], 'present': pr[i], 'cell': Cell(Obj('ConflictManager', f'cm{i}', 'struct'))} for i in range(2)]
        m = Obj('BTreeMap<u64, ConflictManager>', 'committed', 'opaque'); m.data['kv'] = kv
        mx = Obj('Mutex<BTreeMap<u64, ConflictManager>>', 'oracle.write_serialize_lock', 'struct'); mx.fields['data'] = Cell(m)
        o = Obj('tx::optimistic::oracle::Oracle', 'oracle', 'struct')
        o.fields[names.index('write_serialize_lock')] = Cell(mx)
        inst = z3.BitVec('instant', 64)
        st.pc.append(z3.ULT(inst, bv(2 ** 62)))
        fr.locals[fn.args[0]] = Cell(Ref(Cell(o))); fr.locals[fn.args[1]] = Cell(inst)
        f = Obj('F', 'commit_closure', 'opaque')
        fr.locals[fn.args[3]] = Cell(f)
        st.globals['committed'] = m
        env.update(ts=ts, pr=pr, inst=inst)
    paths = ex.run(fn, setup=setup)
    ctx.functions_encoded[fn.key] = ctx.prog.hashes.get(fn.name, '')
    ctx.paths_total += len(paths); ctx.events_total += sum(len(p.events) for p in paths)
    ctx.solver_s += ex.stats['solver_s']; ctx.queries += ex.stats['solver_calls']
    inst, ts, pr = env['inst'], env['ts'], env['pr']
    problems = {k: [] for k in obs}
    for p in paths:
        if p.status in ('error', 'timeout', 'loop_bound'):
            for o in obs.values():
                o.status = 'undecided'; o.detail = f'executor: {p.status} {p.notes[-1:]}'
            return
        if p.status != 'returned':
            continue
        visits = [e for e in p.events if e.kind == 'BTM_ANY_VISIT']
        hc = [e for e in p.events if e.kind == 'CALL' and e.args.get('callee', '').endswith('has_conflict')]
        fcalls = [e for e in p.events if e.kind == 'CALL_FN']
        inserts = [e for e in p.events if e.kind == 'BTM_INSERT']
        lock = [e for e in p.events if e.kind == 'LOCK' and 'write_serialize_lock' in obj_name(e)]
        unlock = [e for e in p.events if e.kind == 'UNLOCK' and 'write_serialize_lock' in obj_name(e)]
        o1 = obs['validates-newer-commits']
        for v in visits:
            o1.reach += 1
            if ctx.sat(p.pc + [z3.Not(z3.UGT(v.args['key'], inst))], o1)[0] != z3.unsat:
                problems['validates-newer-commits'].append((p, 'validates against a commit that is not newer than the snapshot'))
        conflicted = any(z3.is_bool(e.res) and ctx.sat(p.pc + [z3.Not(e.res)], o1)[0] == z3.unsat for e in hc)
        if not conflicted:
            # every registered commit newer than the snapshot must have been checked
            for i in range(2):
                need = z3.And(pr[i], z3.UGT(ts[i], inst))
                if ctx.sat(p.pc + [need], o1)[0] == z3.sat:
                    seen = any(ctx.sat(p.pc + [need, v.args['key'] != ts[i]], o1)[0] == z3.unsat for v in visits)
                    if not seen:
                        problems['validates-newer-commits'].append((p, f'a registered commit with ts > instant is not validated against'))
        o2 = obs['conflict-no-effect']
        if conflicted:
            o2.reach += 1
            if fcalls or inserts:
                problems['conflict-no-effect'].append((p, 'commit closure called / entry registered although a conflict was detected'))
            if not (isinstance(p.ret, EnumV)):
                problems['conflict-no-effect'].append((p, 'unexpected return'))
        o3 = obs['registers-after-apply']
        if fcalls:
            o3.reach += 1
            fres = fcalls[0].res
            ok_path = isinstance(fres, EnumV) and ctx.sat(p.pc + [fres.disc != bv(0)], o3)[0] == z3.unsat
            if ok_path:
                if len(inserts) != 1:
                    problems['registers-after-apply'].append((p, f'{len(inserts)} registrations after a successful apply'))
                else:
                    ins = inserts[0]
                    gets = [e for e in p.events if e.kind == 'CTR_GET' and e.idx > fcalls[0].idx and e.idx < ins.idx]
                    if not gets or ctx.sat(p.pc + [ins.args['key'] != gets[-1].res], o3)[0] != z3.unsat:
                        problems['registers-after-apply'].append((p, 'commit is not registered under the visible seqno read after the apply'))
                    if not lock or not unlock or not (lock[0].idx < fcalls[0].idx < ins.idx < unlock[-1].idx):
                        problems['registers-after-apply'].append((p, 'validation, apply and registration are not inside one critical section of the oracle mutex'))
                    elif len(lock) != 1 or any(lock[0].idx < u.idx < ins.idx for u in unlock):
                        problems['registers-after-apply'].append((p, 'the oracle mutex is released between validation and registration: another transaction can validate before this commit is registered'))
            else:
                if inserts:
                    problems['registers-after-apply'].append((p, 'a failed apply is registered'))
        o4 = obs['prune-keeps-needed']
        rv = [e for e in p.events if e.kind == 'BTM_RETAIN_VISIT']
        wm = [e for e in p.events if e.kind == 'ATOMIC_LOAD' and 'lowest_freed_instant' in obj_name(e)]
        if rv and wm:
            o4.reach += 1
            W = wm[-1].res
            for e in rv:
                if ctx.sat(p.pc + [e.args['present'], z3.UGT(e.args['key'], W), z3.Not(e.args['keep'])], o4)[0] != z3.unsat:
                    problems['prune-keeps-needed'].append((p, 'prunes a commit newer than the GC watermark'))
    for k, o in obs.items():
        if problems[k]:
            p, why = problems[k][0]
            role = f'Oracle.with_commit/{k}'
            ctx.candidate(o, role, f'with_commit: {why}; events: ' + ' · '.join(e.kind for e in p.events)[:300],
                          confirm=lambda: native_commit_battery(ctx))
        elif o.reach:
            o.status = 'discharged'; o.sample = {'paths': o.reach}
        else:
            o.status = 'undecided'; o.detail = 'vacuous'


def check_helpers(ctx):
    """the single-operation helpers of OptimisticTxKeyspace are transactions of their own: they must go through write_tx + commit (oracle), never write to the
    inner keyspace directly - otherwise an open transaction that read the key is not invalidated by them"""
    for m in ('insert', 'remove', 'remove_weak', 'fetch_update', 'update_fetch', 'take'):
        pat = r'^optimistic::keyspace::<impl>::' + m + '$'
        ob = ctx.ob(f'helpers/through-oracle-{m}', f'OptimisticTxKeyspace::{m}: the write is made inside a write transaction obtained from write_tx() and committed through WriteTransaction::commit; no direct write to the inner keyspace', [pat])
        try:
            ex, paths = ctx.run(pat, cache_key='c07.helper.' + m, loop_bound=2,
                                no_inline=[r'write_tx$', r'WriteTransaction::(insert|remove|remove_weak|commit|fetch_update|update_fetch|rollback)$', r'^optimistic::write_tx::<impl>::(insert|remove|remove_weak|commit|fetch_update|update_fetch)$',
                                           r'^keyspace::<impl>::(insert|remove|remove_weak)$', r'Keyspace::(insert|remove|remove_weak)$'])
        except KeyError as e:
            ob.status = 'undecided'; ob.detail = f'function not found: {e}'; continue
        bad = []
        for p in paths:
            if p.status != 'returned' or ctx.sat(p.pc + [ret_is_ok(p)], ob)[0] != z3.sat:
                continue
            ob.reach += 1
            calls = [e.args.get('callee', '') for e in p.events if e.kind == 'CALL']
            direct = [c for c in calls if c.endswith(('Keyspace::insert', 'Keyspace::remove', 'Keyspace::remove_weak')) or c.startswith('keyspace::<impl>::')]
            eff = [e for e in p.events if e.kind in ('T_INSERT', 'T_REMOVE', 'T_REMOVE_WEAK', 'J_APPEND')]
            wt = [c for c in calls if c.endswith('write_tx')]
            cm = [c for c in calls if c.endswith('::commit')]
            txw = [c for c in calls if c.endswith(tuple(x + t for x in ('WriteTransaction::', 'write_tx::<impl>::') for t in ((m, 'fetch_update') if m == 'take' else (m,))))]
            if direct or eff:
                bad.append((p, f'writes to the inner keyspace directly ({(direct or [eff[0].kind])[0]}): the commit is not registered with the oracle, so a concurrent transaction that read the key is not refused')); continue
            if not wt or not cm or not txw:
                bad.append((p, f'acknowledged without write_tx / transaction write / commit (calls: {calls[:5]})')); continue
        if ob.reach == 0:
            ob.status = 'undecided'; ob.detail = 'vacuous'
        elif not bad:
            ob.status = 'discharged'; ob.sample = {'paths': ob.reach}
        else:
            ctx.candidate(ob, f'OptimisticTxKeyspace.{m}/bypasses-oracle', f'{m}: {bad[0][1]}', confirm=lambda: native_helper_conflict(ctx))


def native_helper_conflict(ctx):
    """t1 reads k; a single-operation helper overwrites / removes k; t1 writes something and commits: must be Conflict"""
    K1, K2 = '6b31', '6b32'
    last = (False, None, 'not run')
    for name, h in (('hinsert', f'hinsert a {K1} 3939'), ('hremove', f'hremove a {K1}'), ('htake', f'htake a {K1}')):
        L = ['dir $DIR/db', 'kind opt', 'open workers=0', 'ks a', f'insert a {K1} 30', 'tx t1 begin', f'tx t1 get a {K1}', h, f'tx t1 insert a {K2} 31', 'tx t1 commit', f'get a {K2}', 'close']
        spath, out = ctx.run_scenario('\n'.join(L) + '\n', tag='helper-' + name)
        rs = [(L[i - 1] if 0 < i <= len(L) else '?', r) for i, _c, r in out]
        if any(c == 'CRASH' for _i, c, _r in out):
            return True, spath, f'{name}: crash ' + out[-1][2][-200:]
        cm = [r for l, r in rs if l == 'tx t1 commit']
        if cm and cm[0] != 'conflict':
            return True, spath, f't1 read {K1}; `{h}` (single-operation helper) changed it; t1 then wrote and committed: verdict {cm[0]}, serializability requires conflict'
        last = (False, spath, 'held natively on 3 helper histories')
    return last


def native_commit_battery(ctx):
    """classic SSI histories through the public API; each must end with exactly the expected verdicts"""
    K1, K2 = '6b31', '6b32'
    H = {
        'write-skew': (['tx t1 begin', 'tx t2 begin', f'tx t1 get a {K1}', f'tx t2 get a {K2}', f'tx t1 insert a {K2} 31', f'tx t2 insert a {K1} 32',
                        'tx t1 commit', 'tx t2 commit'], ['ok', 'conflict']),
        'lost-update': (['tx t1 begin', 'tx t2 begin', f'tx t1 get a {K1}', f'tx t2 get a {K1}', f'tx t1 insert a {K1} 31', f'tx t2 insert a {K1} 32',
                         'tx t1 commit', 'tx t2 commit'], ['ok', 'conflict']),
        'stale-read-after-two-commits': (['tx t0 begin', f'tx t0 get a {K1}', 'tx t1 begin', f'tx t1 insert a {K1} 31', 'tx t1 commit',
                                          'tx t2 begin', f'tx t2 insert a {K2} 32', 'tx t2 commit', f'tx t0 insert a {K2} 33', 'tx t0 commit'], ['ok', 'ok', 'conflict']),
        'stale-read-after-three-commits': (['tx t0 begin', f'tx t0 get a {K1}', 'tx t1 begin', f'tx t1 insert a {K1} 31', 'tx t1 commit',
                                            'tx t2 begin', f'tx t2 insert a {K2} 32', 'tx t2 commit', 'tx t3 begin', 'tx t3 insert a 6b33 33', 'tx t3 commit',
                                            'tx t4 begin', 'tx t4 insert a 6b34 34', 'tx t4 commit', f'tx t0 insert a {K2} 35', 'tx t0 commit'], ['ok', 'ok', 'ok', 'ok', 'conflict']),
        'conflict-leaves-no-effect': (['tx t1 begin', 'tx t2 begin', f'tx t1 get a {K1}', f'tx t2 insert a {K1} 32', 'tx t2 commit',
                                       f'tx t1 insert a 6b39 39', 'tx t1 commit', 'get a 6b39'], ['ok', 'conflict']),
        'serial-commits-succeed': (['tx t1 begin', f'tx t1 get a {K1}', f'tx t1 insert a {K1} 31', 'tx t1 commit', 'tx t2 begin', f'tx t2 get a {K1}',
                                    f'tx t2 insert a {K1} 32', 'tx t2 commit', 'get a 6b31'], ['ok', 'ok']),
    }
    last = (False, None, 'not run')
    for name, (ops, expect) in H.items():
        L = ['dir $DIR/db', 'kind opt', 'open workers=0', 'ks a', f'insert a {K1} 30', f'insert a {K2} 30'] + ops + ['close']
        spath, out = ctx.run_scenario('\n'.join(L) + '\n', tag='ssi-' + name)
        rs = [r for _i, _c, r in out]
        if any(c == 'CRASH' for _i, c, _r in out):
            return True, spath, f'{name}: crash ' + rs[-1][-200:]
        lines = list(zip(L, rs))
        commits = [r for l, r in lines if l.endswith('commit')]
        if commits != expect:
            return True, spath, f'history {name}: commit verdicts {commits}, serializability requires {expect}'
        if name == 'conflict-leaves-no-effect':
            g = [r for l, r in lines if l == 'get a 6b39']
            if g and g[0] != 'none':
                return True, spath, f'a refused transaction left an effect: {g[0]}'
        if name == 'serial-commits-succeed':
            g = [r for l, r in lines if l == 'get a 6b31']
            if g and g[0] != 'some:32':
                return True, spath, f'final state after serial commits is {g[0]}'
        last = (False, spath, 'held natively on 5 SSI histories')
    r = native_concurrent_commit(ctx)
    return r if r[0] else last


def native_concurrent_commit(ctx):
    """write skew with the two commits overlapping: the first committer is parked inside its apply (at the journal lock), the second one commits meanwhile.
    Serializability allows at most one of them to succeed."""
    K1, K2 = '6b31', '6b32'
    L = ['dir $DIR/db', 'kind opt', 'open workers=0', 'ks a', f'insert a {K1} 30', f'insert a {K2} 30',
         'tx t1 begin', 'tx t2 begin', f'tx t1 get a {K1}', f'tx t2 get a {K2}', f'tx t1 insert a {K2} 31', f'tx t2 insert a {K1} 32',
         'arm_pause journal.get_writer', 'tx t1 spawn_commit A', 'wait_parked journal.get_writer 5000', 'tx t2 spawn_commit_free B', 'sleep 400',
         'release journal.get_writer', 'join A', 'join B', f'get a {K1}', f'get a {K2}', 'close']
    spath, out = ctx.run_scenario('\n'.join(L) + '\n', tag='ssi-overlapping-commits')
    rs = [r for _i, _c, r in out]
    if any(c == 'CRASH' for _i, c, _r in out):
        return True, spath, 'overlapping commits: crash ' + rs[-1][-200:]
    lines = list(zip(L, rs))
    parked = [r for l, r in lines if l.startswith('wait_parked')]
    ja = [r for l, r in lines if l == 'join A']; jb = [r for l, r in lines if l == 'join B']
    if not parked or parked[0] != 'ok':
        return False, spath, f'the first committer did not reach the pause point ({parked})'
    if ja and jb and ja[0].endswith('ok') and jb[0].endswith('ok'):
        return True, spath, 'write skew: two transactions that each read what the other wrote both committed (the second validated while the first was between validation and registration)'
    return False, spath, f'overlapping commits held natively (A: {ja}, B: {jb})'


def run(ctx):
    ctx.assumptions += [
        'E2/E3 (lsm-tree reads at an instant), F4 (BTreeMap/BTreeSet as mathematical maps/sets; BTreeSet::range panics iff start > end or start == end both excluded)',
        'keys are compared through an abstract injective order (8-bit positions); byte-string clones and conversions keep identity',
        'commit path: the commit closure and has_conflict are opaque calls with symbolic results when checking with_commit; has_conflict is checked separately against its specification',
        'bounds: ≤ 2 recorded reads × ≤ 2 written keys × 1 keyspace id pair, and 1 read × 1–2 keys in each of 2 optional keyspace entries per table (ids symbolic; thorough: 2 reads × 1 key); 2 registered commits in the oracle',
    ]
    for m in POINT_READS + SCAN_READS + RMW:
        check_read_tracked(ctx, m)
    check_read_tracked(ctx, 'is_empty', self_ty='optimistic::write_tx::WriteTransaction', pat=r'^Readable::is_empty$')
    check_read_tracked(ctx, 'len', self_ty='optimistic::write_tx::WriteTransaction', pat=r'^Readable::len$')
    for m in WRITES + RMW:
        check_write_tracked(ctx, m)
    shapes = [(1, 1), (1, 2), (2, 1)] if ctx.tier == 'quick' else [(1, 0), (1, 1), (1, 2), (2, 1), (2, 2)]
    for nr, nk in shapes:
        check_has_conflict(ctx, nr, nk)
    # several keyspaces in both tables (a transaction that read in one keyspace and another that wrote in a different one, in either id order)
    check_has_conflict(ctx, 1, 1, n_ks=2)
    check_has_conflict(ctx, 1, 2, n_ks=2)
    if ctx.tier != 'quick':
        check_has_conflict(ctx, 2, 1, n_ks=2)
    check_mark_range(ctx)
    check_with_commit(ctx)
    check_helpers(ctx)
    for o in ctx.obligations:
        ctx.samples.append(o.as_dict())
    return ctx.finish()


MUTANTS = [
    {'name': 'contains_key without mark_read', 'edits': [('src/tx/optimistic/write_tx.rs', """        let contains = self.inner.contains_key(keyspace, key.as_ref())?;

        self.cm.mark_read(keyspace.id, key.as_ref().into());
""", """        let contains = self.inner.contains_key(keyspace, key.as_ref())?;
""")]},
    {'name': 'remove without mark_conflict', 'edits': [('src/tx/optimistic/write_tx.rs', """        self.inner.remove(keyspace, key.clone());
        self.cm.mark_conflict(keyspace.id, key);""", """        self.inner.remove(keyspace, key.clone());""")]},
    {'name': 'validation range (instant + 2)..', 'edits': [('src/tx/optimistic/oracle.rs', ".range((instant + 1)..)", ".range((instant + 2)..)")]},
    {'name': 'has_conflict: Included end treated as Excluded', 'edits': [('src/tx/optimistic/conflict_manager.rs', """                                    .range::<Slice, _>((
                                        Bound::Included(start),
                                        Bound::Included(end),""", """                                    .range::<Slice, _>((
                                        Bound::Included(start),
                                        Bound::Excluded(end),""")]},
    {'name': 'registration before the apply', 'edits': [('src/tx/optimistic/oracle.rs', """        if let Err(e) = f() {
            return Ok(CommitOutcome::Aborted(e));
        }

        committed_txns.insert(self.snapshot_tracker.get(), conflict_checker);
""", """        committed_txns.insert(self.snapshot_tracker.get(), conflict_checker);

        if let Err(e) = f() {
            return Ok(CommitOutcome::Aborted(e));
        }
""")]},
    {'name': 'iter marks nothing', 'edits': [('src/tx/optimistic/write_tx.rs', """        self.cm.mark_range(keyspace.as_ref().id, RangeFull);
        self.inner.iter(keyspace)""", """        self.inner.iter(keyspace)""")]},
    {'name': 'range records only the start bound (end unbounded -> fine) but swaps start/end', 'edits': [('src/tx/optimistic/write_tx.rs', "self.cm.mark_range(keyspace.as_ref().id, (start, end));", "self.cm.mark_range(keyspace.as_ref().id, (end, start));")]},
    {'name': 'prune keeps only entries newer than the current seqno', 'edits': [('src/tx/optimistic/oracle.rs', "committed_txns.retain(|ts, _| *ts > safe_to_gc);", "let cur = self.snapshot_tracker.get();\n        committed_txns.retain(|ts, _| *ts >= cur);")]},
    {'name': 'mark_range stores Excluded start as Included', 'edits': [('src/tx/optimistic/conflict_manager.rs', "Bound::Excluded(k) => Bound::Excluded(k.clone()),\n            Bound::Unbounded => Bound::Unbounded,\n        };\n\n        let end", "Bound::Excluded(k) => Bound::Included(k.clone()),\n            Bound::Unbounded => Bound::Unbounded,\n        };\n\n        let end")]},
    {'name': 'has_conflict ignores reads of the second keyspace id check (uses any table)', 'edits': [('src/tx/optimistic/conflict_manager.rs', "if let Some(other_conflict_keys) = conflict_keys_lock.get(keyspace_name) {", "if let Some(other_conflict_keys) = conflict_keys_lock.values().next() {")]},
]
