"""C17 — one live instance per directory; only compatible directories open.

M obligations:
  version/parse-<n>       FormatVersion::parse_file_header on every byte string of length n (0..6, bytes symbolic):
                          Some(v) iff the bytes start with "FJL" followed by v ∈ {1,2,3}
  version/check           check_version accepts exactly V3
  recover/order           Database::recover checks the version first, then takes the directory lock, and only then touches
                          journals/keyspaces; a refused open (bad version or lock held) performs no file-mutating call
  create/order            Database::create_new takes the lock before creating the journal; the version marker is written
                          and synced after the journal exists; directories are fsynced
  lock/shared             every keyspace handle stores a clone of the database's lock guard; the only unlock is the guard's Drop
  drop/waits              DatabaseInner::drop leaves its wait loop only when the worker-thread counter reads 0 and clears the
                          cyclic holders; Journal::drop syncs the journal
Native replay: second open while a handle lives → Locked and directory untouched; marker contents from the solver model.
"""
import z3, os
from ..core import ret_is_err, ret_is_ok, obj_name
from ..symex import Obj, EnumV, Ref, Cell, deref, bv, Ev
from ..contract import SliceView
from . import common as C

MUTATING = ('F_OPEN', 'F_SET_LEN', 'F_SYNC_ALL', 'F_SYNC_DATA', 'J_APPEND', 'J_FLUSH', 'FS_CREATE_DIR_ALL', 'FS_REMOVE_FILE', 'FS_REMOVE_DIR_ALL',
            'FS_REMOVE_DIR', 'FS_RENAME', 'DIR_FSYNC', 'T_INSERT', 'T_REMOVE', 'T_CLEAR')


def check_parse(ctx, n):
    pat = r'^version::<impl>::parse_file_header$'
    ob = ctx.ob(f'version/parse-{n}', f'parse_file_header over all {n}-byte strings: Some(v) iff "FJL" + v, v in 1..=3', [pat])
    fn = ctx.prog.find(pat)
    ex = ctx.executor(loop_bound=3)
    bs = [z3.BitVec(f'b{i}', 8) for i in range(n)]

    def setup(ex_, st, fr):
        buf = Obj('[u8]', 'marker', 'bytes'); buf.data['segs'] = [('u8', b) for b in bs]
        fr.locals[fn.args[0]] = Cell(Ref(Cell(buf), SliceView(0)))
    paths = ex.run(fn, setup=setup)
    ctx.functions_encoded[fn.key] = ctx.prog.hashes.get(fn.name, '')
    ctx.paths_total += len(paths); ctx.events_total += sum(len(p.events) for p in paths)
    magic = z3.And(bs[0] == 70, bs[1] == 74, bs[2] == 76) if n >= 3 else z3.BoolVal(False)
    valid = z3.And(magic, z3.Or(bs[3] == 1, bs[3] == 2, bs[3] == 3)) if n >= 4 else z3.BoolVal(False)
    bad = None
    for p in paths:
        if p.status in ('error', 'timeout', 'loop_bound') or any(e.kind == 'CALL' for e in p.events):
            ob.status = 'undecided'; ob.detail = f'executor: {p.status} {p.notes[-1:]} {[e.args.get("callee") for e in p.events if e.kind == "CALL"][:2]}'
            return ob
        if p.status == 'panic':
            if ctx.sat(p.pc, ob)[0] == z3.sat:
                bad = (p, ctx.sat(p.pc, ob)[1], 'panics'); break
            continue
        if p.status != 'returned' or not isinstance(p.ret, EnumV):
            continue
        ob.reach += 1
        d = bv(p.ret.disc) if isinstance(p.ret.disc, int) else p.ret.disc
        is_some = d == bv(1)
        r, m = ctx.sat(p.pc + [is_some != valid], ob)
        if r != z3.unsat:
            bad = (p, m, 'accepts/refuses the wrong byte string'); break
        if n >= 4:
            so = p.ret.payloads.get('Some')
            if so is not None and 0 in so.fields and isinstance(so.fields[0].val, EnumV):
                v = so.fields[0].val
                vd = bv(v.disc) if isinstance(v.disc, int) else v.disc
                # FormatVersion::V1=0, V2=1, V3=2
                r, m = ctx.sat(p.pc + [is_some, vd != z3.ZeroExt(56, bs[3]) - 1], ob)
                if r != z3.unsat:
                    bad = (p, m, 'returns a version different from the stored byte'); break
    if bad is None and ob.reach:
        ob.status = 'discharged'; ob.sample = {'length': n, 'paths': ob.reach}
    elif bad is None:
        ob.status = 'undecided'; ob.detail = 'vacuous'
    else:
        p, m, why = bad
        content = bytes(m.eval(b, model_completion=True).as_long() for b in bs) if m is not None else b''
        ctx.candidate(ob, 'FormatVersion.parse_file_header/wrong-acceptance', f'parse_file_header {why} for {content!r}',
                      confirm=lambda: native_marker(ctx, [content]))
    return ob


def check_check_version(ctx):
    pat = r'^db::<impl>::check_version$'
    ob = ctx.ob('version/check', 'check_version returns Ok exactly when the marker parses to V3', [pat])
    pd, vd = z3.BitVec('parsed_disc', 64), z3.BitVec('parsed_version', 64)

    def ov_parse(ex_, st, call):
        e = EnumV(call.dst_ty, pd, 'parsed')
        st.pc.append(z3.ULE(pd, bv(1))); st.pc.append(z3.ULE(vd, bv(2)))
        o = Obj('Some', 'Some', 'variant'); o.fields[0] = Cell(EnumV('version::FormatVersion', vd, 'version')); e.payloads['Some'] = o
        return e

    def ov_read(ex_, st, call):
        return ex_.mk_enum(call.dst_ty, 'Ok', [Obj('Vec<u8>', 'marker_bytes', 'bytes')])
    ex = ctx.executor(loop_bound=2, overrides=[(r'parse_file_header$', ov_parse), (r'^(std::fs::)?read$', ov_read)])
    fn = ctx.prog.find(pat)
    paths = ex.run(fn)
    ctx.functions_encoded[fn.key] = ctx.prog.hashes.get(fn.name, '')
    ctx.paths_total += len(paths)
    bad = []
    is_v3 = z3.And(pd == bv(1), vd == bv(2))
    for p in paths:
        if p.status != 'returned' or not isinstance(p.ret, EnumV):
            continue
        if not any('parsed_disc' in str(c) for c in p.pc):
            continue
        ob.reach += 1
        if ctx.sat(p.pc + [ret_is_ok(p) != is_v3], ob)[0] != z3.unsat:
            bad.append((p, 'accepts a marker that is not V3 or refuses V3'))
    finish(ctx, ob, bad, 'check_version/accepts-wrong-version', lambda: native_marker(ctx, [b'FJL\x01', b'FJL\x02', b'FJL\x04', b'FJL\x00', b'', b'FJL']))
    return ob


def finish(ctx, ob, bad, role, confirm):
    if ob.reach == 0:
        ob.status = 'undecided'; ob.detail = ob.detail or 'vacuous'
    elif not bad:
        ob.status = 'discharged'; ob.sample = {'paths': ob.reach}
    else:
        ctx.candidate(ob, role, f'{ob.id}: {bad[0][1]}', confirm=confirm)


OPAQUE_RECOVER = [r'^recover_keyspaces$', r'^recover_sealed_memtables$', r'WorkerPool::start$', r'Journal::recover$', r'check_version$',
                  r'LockedFileGuard::try_acquire$', r'LockedFileGuard::create_new$', r'Journal::create_new$', r'Journal::get_reader$', r'SnapshotTracker::gc$']


def check_recover_order(ctx):
    pat = r'^db::<impl>::recover$'
    ob = ctx.ob('recover/order', 'recover: version check, then directory lock, then journals; a refused open mutates nothing', [pat])
    from ..contract import mk_seq, mk_iter

    def ov_reader_next(ex_, st, call):
        return ex_.mk_enum(call.dst_ty, 'None')

    def ov_values(ex_, st, call):
        return mk_iter(ex_, st, call.dst_ty, mk_seq('', [], 'no_keyspaces'), True)
    ex, paths = ctx.run(pat, cache_key='recover.order', no_inline=OPAQUE_RECOVER, loop_bound=1, timeout_s=60,
                        overrides=[(r'JournalBatchReader as Iterator>::next$', ov_reader_next), (r'HashMap::values$', ov_values)])
    bad = []
    for p in paths:
        calls = [(e.idx, e.args.get('callee', '')) for e in p.events if e.kind == 'CALL']
        cv = [i for i, c in calls if c.endswith('check_version')]
        lk = [i for i, c in calls if c.endswith('try_acquire')]
        jr = [i for i, c in calls if c.endswith('Journal::recover')]
        mut = [e for e in p.events if e.kind in MUTATING]
        ob.reach += 1
        if not cv:
            bad.append((p, 'the version marker is not checked')); continue
        first_other = min([i for i, c in calls if not c.endswith('check_version') and ('Path::join' not in c)] + [e.idx for e in mut] + [10 ** 9])
        if cv[0] > first_other:
            bad.append((p, 'something happens before the version check')); continue
        if jr and (not lk or lk[0] > jr[0]):
            bad.append((p, 'journals are recovered before the directory lock is taken')); continue
        if mut and (not lk or lk[0] > mut[0].idx):
            bad.append((p, f'{mut[0].kind} happens before the directory lock is held')); continue
        # refused paths: check_version / try_acquire returned Err  ⇒  nothing after
        for idx, name in ((cv[0], 'version check'), (lk[0] if lk else None, 'lock')):
            if idx is None:
                continue
            e = p.events[idx]
            if isinstance(e.res, EnumV) and ctx.sat(p.pc + [e.res.disc != bv(1)], ob)[0] == z3.unsat:
                later = [x for x in p.events if x.idx > idx and (x.kind in MUTATING or (x.kind == 'CALL' and not x.args['callee'].startswith(('<', 'Path::'))))]
                if later:
                    bad.append((p, f'after a failed {name} the open still performs {later[0].kind}:{later[0].args.get("callee", "")}'))
                if p.status == 'returned' and ctx.sat(p.pc + [ret_is_ok(p)], ob)[0] == z3.sat:
                    bad.append((p, f'open succeeds although the {name} failed'))
    finish(ctx, ob, bad, 'Database.recover/order', lambda: native_lock_and_marker(ctx))
    return ob


def check_create_order(ctx):
    pat = r'^db::<impl>::create_new$'
    ob = ctx.ob('create/order', 'create_new: lock before the journal is created; version marker created, written and synced after the journal; directories fsynced', [pat])
    ex, paths = ctx.run(pat, cache_key='create.order', no_inline=OPAQUE_RECOVER + [r'write_file_header$'], loop_bound=1, timeout_s=60)
    bad = []
    for p in paths:
        if p.status != 'returned' or ctx.sat(p.pc + [ret_is_ok(p)], ob)[0] != z3.sat:
            continue
        ob.reach += 1
        calls = [(e.idx, e.args.get('callee', '')) for e in p.events if e.kind == 'CALL']
        lk = [i for i, c in calls if c.endswith('LockedFileGuard::create_new')]
        jc = [i for i, c in calls if c.endswith('Journal::create_new')]
        hdr = [i for i, c in calls if c.endswith('write_file_header')]
        marker_open = [e.idx for e in p.events if e.kind == 'F_OPEN' and e.args.get('how') == 'create_new']
        syncs = [e.idx for e in p.events if e.kind == 'F_SYNC_ALL']
        dsync = [e.idx for e in p.events if e.kind == 'DIR_FSYNC']
        if not lk or not jc or lk[0] > jc[0]:
            bad.append((p, 'the journal is created before the directory lock exists')); continue
        if not hdr or not marker_open or marker_open[0] < jc[0]:
            bad.append((p, 'the version marker is created before the journal')); continue
        if not syncs or syncs[-1] < hdr[0]:
            bad.append((p, 'the version marker is not synced after it is written')); continue
        if len(dsync) < 2 or dsync[0] < syncs[-1]:
            bad.append((p, 'directories are not fsynced after the marker')); continue
    finish(ctx, ob, bad, 'Database.create_new/order', lambda: native_lock_and_marker(ctx))
    return ob


def check_journal_exclusive(ctx):
    """a directory that holds a journal but no version marker goes down the create path: what refuses it is that the first journal file is created exclusively.
    Writer::create_new must therefore never open an existing file (no create+truncate)"""
    pat = r'^journal::writer::<impl>::create_new$|^writer::<impl>::create_new$'
    ob = ctx.ob('create/journal-exclusive', 'Writer::create_new: the journal file is created with create_new semantics (fails if it exists), so creating a database can never truncate the journal of an '
                'existing database whose version marker is missing', [pat])
    try:
        ex, paths = ctx.run(pat, cache_key='c17.writer_create_new', loop_bound=2)
    except KeyError as e:
        ob.status = 'undecided'; ob.detail = f'function not found: {e}'; return ob
    bad = []
    for p in paths:
        opens = [e for e in p.events if e.kind == 'F_OPEN']
        calls = [e.args.get('callee', '') for e in p.events if e.kind == 'CALL']
        for e in opens:
            ob.reach += 1
            if e.args.get('how') != 'create_new':
                bad.append((p, f'the journal file is opened with "{e.args.get("how")}" instead of an exclusive create: an existing journal is reused or truncated')); break
        if not opens and any(c.endswith(('File::create', 'OpenOptions::open')) for c in calls):
            ob.reach += 1
            bad.append((p, 'the journal file is not created exclusively (File::create truncates an existing journal)'))
        if bad:
            break
    finish(ctx, ob, bad, 'Writer.create_new/not-exclusive', lambda: native_marker(ctx, [None]))
    return ob


def check_lock_shared(ctx):
    ob = ctx.ob('lock/shared', 'keyspace handles hold a clone of the database lock guard; File::unlock is called only from the guard\'s Drop', ['*'])
    bad = []
    unlockers = []
    for f in ctx.prog.fns.values():
        for _bb, (stmts, term) in f.blocks.items():
            if term[0] == 'call' and term[2].endswith('File::unlock'):
                unlockers.append(f.key)
    ob.reach = 1
    if [u for u in unlockers if not u.startswith('locked_file::<impl>::drop')]:
        bad.append((None, f'File::unlock is called from {unlockers}'))
    for pat in (r'^keyspace::<impl>::create_new$', r'^keyspace::<impl>::from_database$'):
        ex, paths = ctx.run(pat, cache_key='lockshared.' + pat, no_inline=[r'apply_to_base_config$'], loop_bound=1)
        names = ctx.src.struct_fields('KeyspaceInner')
        from .c05 import find_objs
        for p in paths:
            if p.status != 'returned':
                continue
            ks = find_objs(p.ret, lambda o: o.ty.split('<')[0].endswith('KeyspaceInner')) if isinstance(p.ret, (Obj, EnumV)) else []
            if isinstance(p.ret, EnumV):
                okp = p.ret.payloads.get('Ok')
                ks = find_objs(okp, lambda o: o.ty.split('<')[0].endswith('KeyspaceInner')) if okp is not None else []
                if ctx.sat(p.pc + [ret_is_ok(p)], ob)[0] != z3.sat:
                    continue
            if not ks:
                continue
            ob.reach += 1
            lf = ks[0].fields.get(names.index('lock_file'))
            v = deref(lf.val) if lf is not None else None
            from ..contract import canon_id
            fr = p.st.frames[0]
            dbarg = [fr.locals[a].val for a in fr.fn.args if 'Database' in fr.fn.locals[a]]
            dbl = find_objs(dbarg[0], lambda o: 'LockedFileGuard' in o.ty and 'Inner' not in o.ty) if dbarg else []
            if v is None or not dbl or canon_id(v) != canon_id(dbl[0]):
                bad.append((p, f'{pat}: the keyspace\'s lock guard is not the database\'s'))
    finish(ctx, ob, bad, 'lock-guard/not-shared', lambda: native_lock_and_marker(ctx))
    return ob


def check_lock_acquire(ctx):
    for name, pat in (('create_new', r'^locked_file::<impl>::create_new$'), ('try_acquire', r'^locked_file::<impl>::try_acquire$')):
        ob = ctx.ob(f'lock/acquire-{name}', f'LockedFileGuard::{name}: a guard is returned only if try_lock succeeded; a held lock yields Err(Locked)', [pat])
        ex, paths = ctx.run(pat, cache_key='lockacq.' + name, loop_bound=4)
        bad = []
        for p in paths:
            if p.status != 'returned' or not isinstance(p.ret, EnumV):
                continue
            tl = [e for e in p.events if e.kind == 'F_TRY_LOCK']
            ob.reach += 1
            if ctx.sat(p.pc + [ret_is_ok(p)], ob)[0] == z3.sat:
                if not tl:
                    bad.append((p, 'returns a guard without trying to lock the file')); continue
                last = tl[-1].res
                if isinstance(last, EnumV) and ctx.sat(p.pc + [ret_is_ok(p), last.disc != bv(0)], ob)[0] != z3.unsat:
                    bad.append((p, 'returns a guard although try_lock failed'))
        finish(ctx, ob, bad, f'LockedFileGuard.{name}/lock-not-enforced', lambda: native_lock_and_marker(ctx))


def check_drop(ctx):
    pat = r'^db::<impl>::drop$'
    ob = ctx.ob('drop/waits', 'DatabaseInner::drop leaves the wait loop only when the thread counter reads 0, then clears keyspaces / flush queue / journal manager; Journal::drop persists with SyncAll', [pat, r'^journal::<impl>::drop$'])
    ex, paths = ctx.run(pat, cache_key='dbdrop', loop_bound=2, no_inline=[r'FlushManager::clear$', r'JournalManager::clear$', r'StopSignal::send$'])
    bad = []
    for p in paths:
        if p.status == 'loop_bound':
            # the wait loop while worker threads are still counted (the counter is not changed by this thread: the loop is cut by the bound)
            lds = [e for e in p.events if e.kind == 'ATOMIC_LOAD' and 'active_thread_counter' in obj_name(e)]
            blk = [e for e in p.events if e.kind == 'CALL' and e.args.get('callee', '').endswith('Sender::send') and lds and e.idx > lds[0].idx]
            if blk:
                ob.reach += 1
                bad.append((p, 'the wait loop of DatabaseInner::drop sends close messages with a blocking send into the bounded worker queue: with a worker that is itself about to send into that '
                               'queue (rotation -> flush request) the queue fills up and drop and worker block each other; background threads never stop and the directory stays locked'))
            continue
        if p.status != 'returned':
            continue
        loads = [e for e in p.events if e.kind == 'ATOMIC_LOAD' and 'active_thread_counter' in obj_name(e)]
        ob.reach += 1
        if not loads:
            bad.append((p, 'does not wait for worker threads')); continue
        last = loads[-1].res
        if ctx.sat(p.pc + [last != 0], ob)[0] != z3.unsat:
            bad.append((p, 'leaves the wait loop while worker threads are still counted')); continue
        clears = [e.args.get('callee', '') for e in p.events if e.kind == 'CALL']
        if not any(c.endswith('FlushManager::clear') for c in clears) or not any(c.endswith('JournalManager::clear') for c in clears):
            bad.append((p, 'cyclic holders are not cleared')); continue
        # the wait loop must not block on the bounded worker queue: a worker that is still busy (e.g. in the middle of a memtable rotation) sends into the
        # same queue; once the queue is full of close messages both sides wait for each other and the drop never finishes
        blocking = [e for e in p.events if e.kind == 'CALL' and e.args.get('callee', '').endswith('Sender::send') and loads[0].idx < e.idx < loads[-1].idx]
        if blocking:
            bad.append((p, 'the wait loop of DatabaseInner::drop sends close messages with a blocking send into the bounded worker queue: with a worker that is itself about to send into that '
                           'queue (rotation -> flush request) the queue fills up and drop and worker block each other; background threads never stop and the directory stays locked')); continue
        early = [e for e in p.events if e.kind == 'CALL' and e.args.get('callee', '').endswith(('FlushManager::clear', 'JournalManager::clear')) and e.idx < loads[-1].idx]
        late = [e for e in p.events if e.kind == 'CALL' and e.args.get('callee', '').endswith('FlushManager::clear') and e.idx > loads[-1].idx]
        if early and not late:
            bad.append((p, f'{early[0].args["callee"].split("::")[-2]} is emptied before the worker threads have stopped and not again afterwards: a worker that is still running can enqueue a task that keeps a '
                           'Keyspace (and with it the directory lock) alive for the rest of the process'))
    ex2, paths2 = ctx.run(r'^journal::<impl>::drop$', cache_key='jdrop', loop_bound=2)
    for p in paths2:
        if p.status != 'returned':
            continue
        ob.reach += 1
        locks = [e for e in p.events if e.kind == 'LOCK']
        if not locks:
            bad.append((p, 'Journal::drop does not persist')); continue
        flush_or_sync = [e for e in p.events if e.kind in ('J_FLUSH', 'F_SYNC_ALL')]
        # on paths where nothing fails, the journal must be fsynced
        if not any(e.kind == 'F_SYNC_ALL' for e in p.events) and not any(e.fault is not None and ctx.sat(p.pc + [e.fault])[0] == z3.sat and ctx.sat(p.pc + [z3.Not(e.fault)])[0] == z3.unsat for e in p.events):
            bad.append((p, 'Journal::drop returns without syncing the journal'))
    finish(ctx, ob, bad, 'drop/does-not-quiesce', lambda: native_drop_with_busy_worker(ctx))
    return ob


def check_drop_releases_blocked(ctx):
    """A worker thread can be blocked in a send on the full worker queue (it is consumer and producer of that bounded queue: a memtable rotation ends with a blocking
    `send(Flush)`).  The wait loop of DatabaseInner::drop is then the only party left that can make room *and admit the waiting sender*.  Contract F7 (flume 0.12, read from its
    source): `try_send` fails iff the queue is full; `Receiver::drain` first admits waiting senders only while the queue has room and then empties the queue - on a full queue it
    admits none; `try_recv`/`recv` admit a waiting sender (capacity + 1) before popping.  Obligation: starting from a full queue with 1..2 blocked senders (capacity 2, a stated
    bound), after capacity + 3 iterations of the wait loop no sender is left waiting."""
    pat = r'^db::<impl>::drop$'
    ob = ctx.ob('drop/releases-blocked-senders', 'DatabaseInner::drop: a worker blocked sending into the full worker queue is admitted by the wait loop (queue model F7, capacity 2, 1..2 blocked senders): '
                'otherwise the worker never returns to its loop, never sees the stop signal and the drop spins forever', [pat])
    CAP = 2
    from ..contract import fork_cond

    def chan(st):
        return st.globals['__chan']

    def ov_try_send(ex, st, call):
        c = chan(st)
        out = []
        for s2, yes, _k in fork_cond(ex, st, z3.ULT(c.data['qlen'], bv(CAP))):
            c2 = chan(s2)
            if yes:
                c2.data['qlen'] = c2.data['qlen'] + 1
                s2.emit(Ev('CH_TRY_SEND', res='ok', site=call.site))
                out.append((s2, ex.mk_enum(call.dst_ty, 'Ok', [ex.unit()])))
            else:
                s2.emit(Ev('CH_TRY_SEND', res='full', site=call.site))
                out.append((s2, ex.mk_enum(call.dst_ty, 'Err', [ex.fresh(s2, 'flume::TrySendError<WorkerMessage>', 'full')])))
        return out

    def ov_drain(ex, st, call):
        c = chan(st)
        room = bv(CAP) - c.data['qlen']
        adm = z3.If(z3.ULE(c.data['pending'], room), c.data['pending'], room)
        c.data['pending'] = z3.simplify(c.data['pending'] - adm); c.data['qlen'] = bv(0)
        st.emit(Ev('CH_DRAIN', args={'admitted': adm}, site=call.site))
        return Obj(call.dst_ty, 'drain', 'opaque')

    def ov_try_recv(ex, st, call):
        c = chan(st)
        out = []
        for s2, yes, _k in fork_cond(ex, st, z3.Or(c.data['qlen'] != 0, c.data['pending'] != 0)):
            c2 = chan(s2)
            if yes:
                room = bv(CAP + 1) - c2.data['qlen']
                adm = z3.If(z3.ULE(c2.data['pending'], room), c2.data['pending'], room)
                c2.data['qlen'] = z3.simplify(c2.data['qlen'] + adm - 1); c2.data['pending'] = z3.simplify(c2.data['pending'] - adm)
                s2.emit(Ev('CH_RECV', args={'admitted': adm}, site=call.site))
                out.append((s2, ex.mk_enum(call.dst_ty, 'Ok', [ex.fresh(s2, 'WorkerMessage', 'msg')])))
            else:
                out.append((s2, ex.mk_enum(call.dst_ty, 'Err', [ex.fresh(s2, 'flume::TryRecvError', 'empty')])))
        return out

    def ov_blocking(ex, st, call):
        st.emit(Ev('CH_BLOCKING', args={'callee': call.c0}, site=call.site))
        return NotImplemented

    def setup(ex, st, fr):
        c = Obj('flume::Chan', 'worker_queue', 'opaque')
        p0 = z3.BitVec('blocked_senders', 64)
        st.pc += [z3.UGE(p0, bv(1)), z3.ULE(p0, bv(2))]
        c.data['qlen'] = bv(CAP); c.data['pending'] = p0
        st.globals['__chan'] = c
    fn = ctx.prog.find(pat)
    ex = ctx.executor(loop_bound=CAP + 5, no_inline=[r'FlushManager::clear$', r'JournalManager::clear$', r'StopSignal::send$'], timeout_s=120,
                      overrides=[(r'flume::Sender::try_send$|^Sender::try_send$', ov_try_send), (r'flume::Receiver::drain$|^Receiver::drain$', ov_drain),
                                 (r'flume::Receiver::try_recv$|^Receiver::try_recv$', ov_try_recv)])
    paths = ex.run(fn, setup=setup)
    ctx.functions_encoded[fn.key] = ctx.prog.hashes.get(fn.name, '')
    ctx.paths_total += len(paths); ctx.solver_s += ex.stats['solver_s']; ctx.queries += ex.stats['solver_calls']
    bad = []
    if [p for p in paths if p.status in ('error', 'timeout')]:
        q = [p for p in paths if p.status in ('error', 'timeout')][0]
        ob.status = 'undecided'; ob.detail = f'executor: {q.status} {q.notes[-1:]}'; return ob
    for p in paths:
        if p.status != 'loop_bound':
            continue      # the loop ended because the counter read 0: the workers are gone
        loads = [e for e in p.events if e.kind == 'ATOMIC_LOAD' and 'active_thread_counter' in obj_name(e)]
        if len(loads) < CAP + 3:
            continue      # cut inside an inner loop
        ob.reach += 1
        c = p.st.globals['__chan']
        r, m = ctx.sat(p.pc + [c.data['pending'] != 0], ob)
        if r != z3.unsat:
            trace = ' · '.join((e.kind + (':' + str(e.res) if e.kind == 'CH_TRY_SEND' else '')) for e in p.events if e.kind.startswith('CH_'))
            bad.append((p, f'after {len(loads)} iterations of the wait loop a sender that was blocked on the full worker queue is still waiting (queue operations: {trace}): '
                           'draining a full queue admits no waiting sender, so the blocked worker never finishes its send, never reaches its stop check, and the drop never ends'))
            break
    if ob.reach == 0:
        ob.status = 'undecided'; ob.detail = 'vacuous'
    elif not bad:
        ob.status = 'discharged'; ob.sample = {'paths': ob.reach, 'capacity': CAP}
    else:
        ctx.candidate(ob, 'drop/blocked-worker-never-released', f'{ob.id}: {bad[0][1]}', confirm=lambda: native_drop_with_blocked_worker(ctx))
    return ob


def check_worker_exit_order(ctx, confirm=None):
    """DatabaseInner::drop returns as soon as the thread counter reads 0.  A worker thread owns clones of the supervisor (journal, keyspaces): if it counts itself down
    *before* it lets go of them, the journal can be dropped (flushed + synced) by that worker after `drop` has returned - the data of a manual-persist keyspace is then not
    even in the file when the directory is opened again, and the late flush lands in a journal the next instance is already using."""
    ob = ctx.ob('worker/releases-before-count-down', 'worker thread (both exits: close and error): everything the thread holds of the database (its WorkerState: supervisor, queue ends) is dropped '
                'before the thread counter is decremented, so that when DatabaseInner::drop stops waiting no other thread can still run Journal::drop', [r'worker_pool::<impl>::start::\{closure#0\}::\{closure#0\}'])
    cands = [f for f in ctx.prog.fns.values() if f.key.startswith('worker_pool::<impl>::start::{closure#0}') and 'worker_tick' in str(f.blocks)]
    if not cands:
        ob.status = 'undecided'; ob.detail = 'worker closure not found'; return ob
    fn = cands[0]
    ex = ctx.executor(no_inline=[r'^worker_tick$'], loop_bound=2)
    ex.drop_events = {'WorkerState'}

    def setup(ex_, st, fr):
        env = Obj(fn.locals[fn.args[0]], 'worker_closure', 'closure'); env.data['loc'] = 'worker'
        env.fields[0] = Cell(Obj('worker_pool::WorkerState', 'worker_state', 'struct'))
        fr.locals[fn.args[0]] = Cell(env)
    paths = ex.run(fn, setup=setup)
    ctx.functions_encoded[fn.key] = ctx.prog.hashes.get(fn.name, '')
    ctx.paths_total += len(paths); ctx.events_total += sum(len(p.events) for p in paths)
    bad = []
    if [p for p in paths if p.status in ('error', 'timeout')]:
        ob.status = 'undecided'; ob.detail = 'executor error'; return ob
    for p in paths:
        if p.status != 'returned':
            continue
        subs = [e for e in p.events if e.kind == 'ATOMIC_FETCH_SUB']
        drops = [e for e in p.events if e.kind == 'DROP' and e.args.get('ty') == 'WorkerState']
        if not subs:
            continue
        ob.reach += 1
        if not drops:
            bad.append((p, 'the worker state is never dropped on this exit')); continue
        if drops[0].idx > subs[0].idx:
            errp = ret_is_err(p) is not None and ctx.sat(p.pc + [ret_is_err(p)], ob)[0] == z3.sat and ctx.sat(p.pc + [ret_is_ok(p)], ob)[0] != z3.sat
            bad.append((p, f'on the {"error" if errp else "close"} exit the worker counts itself down while it still holds its supervisor clone (journal, keyspaces): DatabaseInner::drop can return, and the directory be '
                           'opened again, before the journal has been flushed and synced by Journal::drop'))
    if ob.reach == 0:
        ob.status = 'undecided'; ob.detail = 'vacuous'
    elif not bad:
        ob.status = 'discharged'; ob.sample = {'paths': ob.reach}
    else:
        ctx.candidate(ob, 'worker/counted-down-while-holding-journal', f'{ob.id}: {bad[0][1]}', confirm=confirm or (lambda: native_worker_exit_order(ctx)))
    return ob


def native_worker_exit_order(ctx):
    """a worker is parked right after it counted itself down (hook); the last handle is dropped on another thread, which returns; the directory is opened again at once:
    an acknowledged write of a manual-persist keyspace (still in the journal's buffer, to be flushed by Journal::drop) must be there"""
    L = ['dir $DIR/db', 'workers_pausable 1', 'open workers=1 manual_persist=1', 'ks a manual=1', 'insert a 6b31 7631', 'arm_pause worker.counted_down', 'spawn_close D', 'join_timeout D 5000',
         'wait_parked worker.counted_down 2000', 'workers_pausable 0', 'open workers=0', 'ks a', 'get a 6b31', 'close', 'release worker.counted_down', 'sleep 300', 'open workers=0', 'ks a', 'get a 6b31', 'close']
    spath, out = ctx.run_scenario('\n'.join(L) + '\n', tag='worker-exit-order')
    rs = [(c, r) for _i, c, r in out]
    if any(c == 'CRASH' for c, _r in rs):
        return False, spath, 'replay ended abnormally: ' + rs[-1][1][-200:]
    jt = [r for c, r in rs if c == 'join_timeout']
    parked = [r for c, r in rs if c == 'wait_parked']
    opens = [r for c, r in rs if c == 'open']
    gets = [r for c, r in rs if c == 'get']
    if not jt or jt[0] != 'ok' or not parked or not parked[0].startswith('ok'):
        return False, spath, f'the scenario did not reach the window (drop: {jt}, worker parked: {parked})'
    if len(opens) > 1 and opens[1] == 'ok' and gets and gets[0] != 'some:7631':
        return True, spath, (f'the last handle was dropped (drop returned) while a worker thread that had already counted itself down still held the journal: reopening at once succeeds but the acknowledged write is '
                             f'missing (get = {gets[0]}); it appears only after that thread ran Journal::drop (second reopen: {gets[1:]}) - into a journal file the new instance was already using')
    return False, spath, f'held natively (reopen: {opens[1:2]}, get: {gets})'


def native_drop_with_blocked_worker(ctx):
    """one worker thread; it is parked at the start of a memtable rotation while 1100 further writes each request a rotation (the bounded worker queue, capacity 1000, fills up);
    released, the worker rotates and blocks in its `send(Flush)` on the full queue.  Then the last handle is dropped on another thread: the drop must finish."""
    big = '61' * 200
    L = ['dir $DIR/db', 'workers_pausable 1', 'open workers=1', 'ks a memtable=64', 'arm_pause journal.get_writer', f'insert a 6b31 {big}', 'wait_parked journal.get_writer 4000']
    L += [f'insert a 6b{i % 250:02x} 62' for i in range(1100)]
    L += ['release journal.get_writer', 'sleep 500', 'spawn_close D', 'join_timeout D 10000', 'threads']
    spath, out = ctx.run_scenario('\n'.join(L) + '\n', tag='drop-blocked-worker')
    rs = [(c, r) for _i, c, r in out]
    parked = [r for c, r in rs if c == 'wait_parked']
    if not parked or not parked[0].startswith('ok'):
        return False, spath, f'the worker did not reach the rotation ({parked})'
    jt = [r for c, r in rs if c == 'join_timeout']
    th = [r for c, r in rs if c == 'threads']
    if jt and jt[0] == 'pending':
        return True, spath, (f'a worker blocked in its flush request on the full worker queue is never released: dropping the last handle did not finish within 10 s ({th[0] if th else "?"} still running); '
                             'background threads never stop and the directory stays locked')
    if any(c == 'CRASH' for c, _r in rs):
        return False, spath, 'replay ended abnormally: ' + rs[-1][1][-200:]
    return False, spath, f'held natively (drop finished: {jt}, {th})'


def native_drop_with_busy_worker(ctx):
    """the last handle is dropped while a worker thread is in the middle of a memtable rotation (parked at the journal lock by a hook); the worker then
    finishes, queues its flush task and exits.  Afterwards the directory must be free: reopening in the same process succeeds and the data is there."""
    big = '61' * 200
    L = ['dir $DIR/db', 'workers_pausable 1', 'open workers=1', 'ks a memtable=64', 'arm_pause journal.get_writer', f'insert a 6b31 {big}', 'wait_parked journal.get_writer 4000',
         'spawn_close D', 'join_timeout D 600', 'release journal.get_writer', 'join_timeout D 10000', 'workers_pausable 0', 'open workers=0', 'ks a', 'get a 6b31', 'close']
    spath, out = ctx.run_scenario('\n'.join(L) + '\n', tag='drop-busy-worker')
    rs = [(c, r) for _i, c, r in out]
    if any(c == 'CRASH' for c, _r in rs):
        return False, spath, 'replay ended abnormally: ' + rs[-1][1][-200:]
    parked = [r for c, r in rs if c == 'wait_parked']
    if not parked or not parked[0].startswith('ok'):
        r2 = native_lock_and_marker(ctx)
        return r2 if r2[0] else (False, spath, f'the worker did not reach the rotation ({parked})')
    jt = [r for c, r in rs if c == 'join_timeout']
    opens = [r for c, r in rs if c == 'open']
    if len(jt) == 2 and jt[1] == 'pending':
        return True, spath, 'dropping the database did not finish within 10 s after the busy worker was released'
    if len(opens) == 2 and opens[1] != 'ok':
        return True, spath, (f'the last handle was dropped while a worker was rotating a memtable; after the worker finished and exited, reopening the directory in the same process fails with {opens[1]}: '
                             'something the worker queued keeps the keyspace (and the directory lock) alive')
    g = [r for c, r in rs if c == 'get']
    if g and not g[0].startswith('some:'):
        return True, spath, f'data written before the drop is missing after reopen: {g[0]}'
    r2 = native_lock_and_marker(ctx)
    return r2 if r2[0] else (False, spath, 'held natively')


# ------------------------------------------------------------------ native
def dir_fingerprint_cmds(path):
    return [f'fingerprint {path}']


def native_marker(ctx, contents):
    """a directory whose version marker holds `content` must be refused and left untouched (with and without a lock file lying around)"""
    last = (False, None, 'not run')
    # (an absent marker sends the open down the create path, which takes the directory lock first: with the lock file removed as well that leaves an empty lock file behind -
    #  the locking protocol's own file, not counted as a modification; the marker-absent case is therefore run with the lock file in place)
    for content, rmlock in [(c, r) for c in contents for r in (False, True) if not (c is None and r)]:
        hexc = content.hex() if content else ('-' if content is not None else 'absent')
        L = ['dir $DIR/db', 'open workers=0', 'ks a', 'insert a 6b31 31', 'close', (f'writefile $DIR/db/version {hexc}' if content is not None else 'rmfile $DIR/db/version')] + (['rmfile $DIR/db/lock'] if rmlock else []) + ['fingerprint $DIR/db',
             'open workers=0', 'fingerprint $DIR/db', 'close']
        spath, out = ctx.run_scenario('\n'.join(L) + '\n', tag='marker-' + (hexc[:16]) + ('-nolock' if rmlock else ''))
        rs = [(c, r) for _i, c, r in out]
        if any(c == 'CRASH' for c, _r in rs):
            return True, spath, f'opening a directory with marker {content!r} crashed'
        opens = [r for c, r in rs if c == 'open']
        fps = [r for c, r in rs if c == 'fingerprint']
        valid = content == b'FJL\x03'
        if len(opens) == 2 and not valid and opens[1] == 'ok':
            return True, spath, f'a directory whose version marker is {content!r} was opened'
        if len(fps) == 2 and not valid and fps[0] != fps[1]:
            return True, spath, f'refusing marker {content!r} modified the directory'
        last = (False, spath, 'held natively')
    return last


def native_lock_and_marker(ctx):
    L = ['dir $DIR/db', 'open workers=0', 'ks a', 'insert a 6b31 31', 'fingerprint $DIR/db', 'open2 workers=0', 'fingerprint $DIR/db',
         'ks_keep a', 'close_db_only', 'open2 workers=0', 'close', 'open workers=0', 'ks a', 'dump a', 'close']
    spath, out = ctx.run_scenario('\n'.join(L) + '\n', tag='lock')
    rs = [(c, r) for _i, c, r in out]
    if any(c == 'CRASH' for c, _r in rs):
        return True, spath, 'crash: ' + rs[-1][1][-200:]
    if any(r.startswith('err:UnknownCommand') for _c, r in rs):
        return False, spath, 'replay driver lacks a command'
    o2 = [r for c, r in rs if c == 'open2']
    fps = [r for c, r in rs if c == 'fingerprint']
    if o2 and o2[0] == 'ok':
        return True, spath, 'a second open of a directory succeeded while a Database handle was alive'
    if len(fps) == 2 and fps[0] != fps[1]:
        return True, spath, 'a refused second open modified the directory'
    if len(o2) > 1 and o2[1] == 'ok':
        return True, spath, 'a second open succeeded while only a Keyspace handle was alive'
    dumps = [r for c, r in rs if c == 'dump']
    if dumps and dumps[0] != '[6b31:31]':
        return True, spath, f'content after the last handle was dropped and the directory reopened: {dumps[0]}'
    # worker threads must be gone when the last handle has been dropped
    L2 = ['dir $DIR/db2', 'open workers=2', 'ks a', 'insert a 6b31 31', 'rotate a', 'threads', 'close', 'threads', 'open workers=2', 'ks a', 'dump a', 'close', 'threads']
    sp2, out2 = ctx.run_scenario('\n'.join(L2) + '\n', tag='threads')
    th = [r for _i, c, r in out2 if c == 'threads']
    if any(c == 'CRASH' for _i, c, _r in out2):
        return True, sp2, 'crash: ' + out2[-1][2][-200:]
    if len(th) == 3 and (th[1] != 'workers=0' or th[2] != 'workers=0'):
        return True, sp2, f'worker threads still alive after the last handle was dropped: {th}'
    op2 = [r for _i, c, r in out2 if c == 'open']
    if len(op2) == 2 and op2[1] != 'ok':
        return True, sp2, f'reopening right after the last handle was dropped failed: {op2[1]}'
    # a sealed journal that still has to be kept (lagging keyspace) at drop time: its watermarks hold keyspace handles - the drop must break that cycle too
    L3 = ['dir $DIR/db3', 'open workers=0', 'rotation_threshold 0', 'ks a', 'ks b', 'insert b 6b31 41', 'insert a 6b31 31', 'rotate a', 'worker_drain', 'journal_count', 'close',
          'rotation_threshold 64000000', 'open workers=0', 'ks a', 'ks b', 'dump a', 'dump b', 'close']
    sp3, out3 = ctx.run_scenario('\n'.join(L3) + '\n', tag='drop-sealed-journal')
    if any(c == 'CRASH' for _i, c, _r in out3):
        return True, sp3, 'crash: ' + out3[-1][2][-200:]
    op3 = [r for _i, c, r in out3 if c == 'open']
    jc3 = [r for _i, c, r in out3 if c == 'journal_count']
    if jc3 and jc3[0] == 'n=2' and len(op3) == 2 and op3[1] != 'ok':
        return True, sp3, f'the last handle was dropped while a sealed journal was still queued (its watermarks hold keyspace handles): reopening fails with {op3[1]} - the directory lock was never released'
    d3 = [r for _i, c, r in out3 if c == 'dump']
    if d3 and d3 != ['[6b31:31]', '[6b31:41]']:
        return True, sp3, f'content after drop with a sealed journal and reopen: {d3}'
    r2 = native_marker(ctx, [b'FJL\x02', b'FJL\x04', b'', b'FJL', b'XJL\x03', None])
    return r2 if r2[0] else (False, spath, 'held natively')


KANI_HARNESSES = [
    ('parse_file_header_exact', 'FormatVersion::parse_file_header over every byte string of length 0..=6: Some(v) iff "FJL" followed by 1..=3, and v is that byte', 900),
    ('header_roundtrip', 'write_file_header then parse_file_header is the identity for every version', 900),
]


def check_kani(ctx):
    """engine K (thorough tier): the compiled marker codec under CBMC"""
    for h, desc, to in KANI_HARNESSES:
        ob = ctx.ob(f'kani/{h}', 'Kani/CBMC over the compiled code: ' + desc, ['version::verif_kani::' + h])
        ob.reach = 1
        r = ctx.run_kani(h, timeout_s=to)
        if r == 'success':
            ob.status = 'discharged'; ob.sample = dict(ctx.kani[-1])
        elif r == 'failed':
            ctx.candidate(ob, 'check_version/accepts-wrong-version', f'Kani harness {h} fails: {ctx.kani[-1].get("failed_checks")}',
                          confirm=lambda: native_marker(ctx, [b'FJL\x01', b'FJL\x02', b'FJL\x04', b'FJL\x00', b'', b'FJL', b'XJL\x03']))
        else:
            ob.status = 'undecided'; ob.detail = f'Kani inconclusive: {ctx.kani[-1]}'


def run(ctx):
    ctx.assumptions += [
        'F2: File::try_lock excludes other handles/processes (OS behaviour, assumed); joined/closed worker threads have stopped',
        'marker bytes 0..6 symbolic; longer markers behave like their 4-byte prefix (get(0..3)/get(3) only)',
        'F7 (flume 0.12 bounded channel, from its source): try_send fails iff the queue is full; Receiver::drain admits waiting senders only while the queue has room, then empties it; '
        'try_recv/recv admit a waiting sender before popping. Queue capacity 2 and 1..2 blocked senders in the model (real capacity 1000)',
    ]
    for n in (0, 2, 3, 4, 6):
        check_parse(ctx, n)
    check_check_version(ctx)
    check_recover_order(ctx)
    check_create_order(ctx)
    check_journal_exclusive(ctx)
    check_lock_shared(ctx)
    check_lock_acquire(ctx)
    check_drop(ctx)
    check_drop_releases_blocked(ctx)
    check_worker_exit_order(ctx)
    if ctx.tier == 'thorough':
        check_kani(ctx)
    for o in ctx.obligations:
        ctx.samples.append(o.as_dict())
    return ctx.finish()


MUTANTS = [
    {'name': 'revert: closing worker counts itself down before it drops its state', 'edits': [('src/worker_pool.rs', "                                        drop(worker_state);\n\n                                        thread_counter.fetch_sub(1, Relaxed);\n", "                                        thread_counter.fetch_sub(1, Relaxed);\n")]},
    {'name': 'revert: drop floods the worker queue with blocking sends', 'edits': [('src/db.rs', "            if self\n                .worker_pool\n                .sender\n                .try_send(WorkerMessage::Close)\n                .is_err()\n            {\n                while self.worker_pool.rx.try_recv().is_ok() {}\n            }", "            let _ = self.worker_pool.sender.send(WorkerMessage::Close);")]},
    {'name': 'revert: drop makes room with drain (admits no blocked sender)', 'edits': [('src/db.rs', "                while self.worker_pool.rx.try_recv().is_ok() {}", "                let _ = self.worker_pool.rx.drain().count();")]},
    {'name': 'flush queue cleared before the workers stop only', 'edits': [('src/db.rs', "        let _ = self.worker_pool.rx.drain().count();\n\n        while self", "        let _ = self.worker_pool.rx.drain().count();\n        self.supervisor.flush_manager.clear();\n\n        while self"), ('src/db.rs', "        // IMPORTANT: Break cyclic Arcs\n        self.supervisor.flush_manager.clear();", "        // IMPORTANT: Break cyclic Arcs")]},
    {'name': 'check_version accepts V2', 'edits': [('src/db.rs', "if version != FormatVersion::V3 {", "if version != FormatVersion::V3 && version != FormatVersion::V2 {")]},
    {'name': 'lock acquired after journal recovery', 'edits': [('src/db.rs', """        let lock_file = LockedFileGuard::try_acquire(&config.path.join(LOCK_FILE))?;

        // TODO:
        // let recovery_mode = config.journal_recovery_mode;

        // Reload active journal
        let journal_recovery = Journal::recover(
            &config.path,
            config.journal_compression_type,
            config.journal_compression_threshold,
        )?;
""", """        // TODO:
        // let recovery_mode = config.journal_recovery_mode;

        // Reload active journal
        let journal_recovery = Journal::recover(
            &config.path,
            config.journal_compression_type,
            config.journal_compression_threshold,
        )?;

        let lock_file = LockedFileGuard::try_acquire(&config.path.join(LOCK_FILE))?;
""")]},
    {'name': 'parse_file_header ignores the magic', 'edits': [('src/version.rs', "if first_three == MAGIC_BYTES {", "if first_three.len() == 3 {")]},
    {'name': 'parse_file_header accepts version byte 4 as V3', 'edits': [('src/version.rs', "            3 => Ok(Self::V3),", "            3 | 4 => Ok(Self::V3),")]},
    {'name': 'version checked after taking the lock and recovering journals', 'edits': [('src/db.rs', """        // Check version
        Self::check_version(&config.path)?;

        let lock_file = LockedFileGuard::try_acquire(&config.path.join(LOCK_FILE))?;
""", """        let lock_file = LockedFileGuard::try_acquire(&config.path.join(LOCK_FILE))?;
""", ), ('src/db.rs', """        let active_journal = Arc::new(journal_recovery.active);""", """        // Check version
        Self::check_version(&config.path)?;

        let active_journal = Arc::new(journal_recovery.active);""")]},
    {'name': 'database drop does not wait for workers', 'edits': [('src/db.rs', """            .load(std::sync::atomic::Ordering::Relaxed)
            > 0
        {""", """            .load(std::sync::atomic::Ordering::Relaxed)
            > 1
        {""")]},
    {'name': 'keyspace gets a fresh lock guard clone of nothing (try_lock result ignored)', 'edits': [('src/locked_file.rs', """            std::fs::TryLockError::WouldBlock => crate::Error::Locked,
        })?;

        Ok(Self(Arc::new(LockedFileGuardInner(file))))
    }

    pub fn try_acquire""", """            std::fs::TryLockError::WouldBlock => crate::Error::Locked,
        }).ok();

        Ok(Self(Arc::new(LockedFileGuardInner(file))))
    }

    pub fn try_acquire""")]},
]
