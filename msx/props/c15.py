"""C15 — journal records round-trip bit-exactly; damage is never read as different data.

M obligations (byte-level writer/reader from MIR, see journalimg.py):
  roundtrip/<shape>       every unit written by the real writer (all value kinds, key 1–2 bytes, value 0–2 bytes, contents
                          symbolic, any keyspace id / seqno) is read back with identical seqno, keyspace ids, kinds, keys, values
  damage/<shape>          for EVERY byte position of a journal of complete units and EVERY new value of that byte: opening either
                          fails, or yields a prefix of the original units with identical contents (checksum = collision-free UF, F5)
  compression/choice      the writer compresses iff threshold > 0 ∧ len ≥ threshold; the reader's decoding depends only on the
                          stored tag byte, never on configuration (cross-setting readability, given F6)
Not applicable (clause): bit-exactness of LZ4 itself and values around the 4 KiB threshold — lz4_flex is a whole-buffer loop,
assumed to round-trip (F6).
Native replay: flip the byte in a real journal and reopen.
"""
import z3, os, shutil
from ..core import ret_is_err, ret_is_ok, obj_name
from ..symex import Obj, EnumV, Ref, Cell, deref, bv
from . import common as C
from . import journalimg as J
from .c03 import KS, build, same_batch, native_cut

RT_SHAPES = [
    [('raw', 0, 'Value', 1, 0)], [('raw', 1, 'Value', 2, 2)], [('raw', 0, 'Tombstone', 2, 0)], [('raw', 0, 'WeakTombstone', 1, 0)], [('clear', 1)],
    [('batch', [(0, 'Value', 1, 1), (1, 'Value', 2, 0), (0, 'Tombstone', 1, 0)])],
    [('batch', [(1, 'WeakTombstone', 2, 0), (1, 'Value', 1, 2)])],
]
DMG_SHAPES_QUICK = [[('raw', 0, 'Value', 1, 1), ('batch', [(0, 'Value', 1, 1), (1, 'Tombstone', 1, 0)])]]
DMG_SHAPES_THOROUGH = DMG_SHAPES_QUICK + [[('batch', [(1, 'Value', 2, 2)]), ('clear', 0), ('raw', 1, 'WeakTombstone', 1, 0)]]


def check_roundtrip(ctx):
    ob = ctx.ob('roundtrip/units', 'every unit the writer produces is read back identically (7 shapes covering all kinds; contents, ids and seqnos symbolic)', ['writer::<impl>::write_raw', 'writer::<impl>::write_batch', 'writer::<impl>::write_clear', 'batch_reader::<impl>::next', 'entry::<impl>::decode_from'])
    ex = ctx.executor()
    bad = []
    for shape in RT_SHAPES:
        units = build(ctx, shape)
        image = [x for u in units for x in u['bytes']]
        outs = J.run_reader(ctx, image, len(image), len(image), max_batches=len(units) + 1)
        for o in outs:
            p = o['path']
            if ctx.sat(list(p.pc) + J.injectivity_axioms(), ob)[0] != z3.sat:
                continue
            ob.reach += 1
            if o['end'] != 'none' or len(o['batches']) != len(units):
                bad.append((shape, f'reader ends with {o["end"]} after {len(o["batches"])} of {len(units)} units')); continue
            for b, u in zip(o['batches'], units):
                same, why = same_batch(ctx, ex, p.pc, b, u['desc'], ob)
                if not same:
                    bad.append((shape, f'{u["unit"]}: {why}'))
            # exact consumption: nothing left unread, nothing truncated
            sl = [e.args['len'] for e in p.events if e.kind == 'F_SET_LEN']
            if sl and z3.is_bv_value(z3.simplify(sl[-1])) and z3.simplify(sl[-1]).as_long() != len(image):
                bad.append((shape, f'a complete journal is truncated to {sl[-1]} (length {len(image)})'))
    if ob.reach == 0:
        ob.status = 'undecided'; ob.detail = 'vacuous'
    elif not bad:
        ob.status = 'discharged'; ob.sample = {'shapes': [str(s) for s in RT_SHAPES], 'paths': ob.reach}
    else:
        ctx.candidate(ob, 'journal-codec/roundtrip', f'{bad[0][0]}: {bad[0][1]}', confirm=lambda: native_cut(ctx, None))
    return ob


def prefix_same(ctx, ex, pc, batches, units, ob):
    if len(batches) > len(units):
        return False, 'more units than were written'
    for b, u in zip(batches, units):
        same, why = same_batch(ctx, ex, pc, b, u['desc'], ob)
        if not same:
            return False, f'unit {u["unit"][0]}@{u["start"]}: {why}'
    return True, ''


def check_damage(ctx, shape, idx, positions=None):
    units = build(ctx, shape)
    image = [x for u in units for x in u['bytes']]
    n = len(image)
    ob = ctx.ob(f'damage/shape{idx}', f'journal of {len(units)} complete units ({n} bytes): altering any single byte to any other value makes open fail or yields an identical prefix of the units', ['batch_reader::<impl>::next', 'reader::<impl>::next', 'entry::<impl>::decode_from'])
    ex = ctx.executor()
    findings = {}
    undec = []
    for pos in (positions if positions is not None else range(n)):
        x = z3.BitVec(f'dmg{pos}', 8)
        img2 = list(image); img2[pos] = x
        try:
            outs = J.run_reader(ctx, img2, n, n, max_batches=len(units) + 1, extra_pc=[x != image[pos]])
        except Exception as e:
            undec.append((pos, repr(e)[:100])); continue
        ob.reach += 1
        for o in outs:
            p = o['path']
            r, m = ctx.sat(list(p.pc) + J.injectivity_axioms(), ob)
            if r != z3.sat:
                continue
            if o['end'] == 'error':
                continue
            if o['end'] not in ('none',):
                if o['end'] in ('loop_bound', 'error', 'timeout', 'unfinished'):
                    undec.append((pos, o['end'])); continue
                if o['end'] == 'panic':
                    findings.setdefault('panic', []).append((pos, m, 'the reader panics')); continue
                continue
            ok, why = prefix_same(ctx, ex, p.pc, o['batches'], units, ob)
            if not ok:
                # which field was hit?
                u = next(u for u in units if u['start'] <= pos < u['end'])
                rel = pos - u['start']
                field = 'Start.tag' if rel == 0 else 'Start.item_count' if rel < 5 else 'Start.seqno' if rel < 13 else 'End' if pos >= u['end'] - 13 else 'item'
                r2, m2 = ctx.sat(list(p.pc) + J.injectivity_axioms(), ob)
                findings.setdefault(field, []).append((pos, m2, why, len(o['batches'])))
    if undec and not findings:
        ob.status = 'undecided'; ob.detail = f'executor limits at positions {undec[:4]}'
        return ob, units, image
    if not findings:
        ob.status = 'discharged'; ob.sample = {'image_bytes': n, 'positions': ob.reach}
        return ob, units, image
    # one candidate per damaged field class
    first = True
    for field, lst in findings.items():
        pos, m, why = lst[0][0], lst[0][1], lst[0][2]
        newv = m.eval(z3.BitVec(f'dmg{pos}', 8), model_completion=True).as_long() if m is not None else 0
        role = f'journal/{field.replace(".", "-").lower()}-not-protected-by-checksum'
        text = (f'altering byte {pos} ({field}) to {newv:#04x} is accepted and yields different data: {why} '
                f'(positions affected: {sorted(set(x[0] for x in lst))[:12]})')
        o2 = ob if first else ctx.ob(f'damage/shape{idx}/{field}', ob.desc, ob.functions)
        o2.reach = max(o2.reach, 1)
        first = False
        ctx.candidate(o2, role, text, confirm=lambda field=field, lst=lst: native_damage(ctx, field, newv))
    return ob, units, image


def native_damage(ctx, field, newv):
    """real journal: insert k=first; batch{k=second, j=x}; insert m=y.  Flip one byte of the second unit's `field`, reopen:
    must fail, or show a prefix state of the history"""
    L = ['dir $DIR/db', 'open workers=0', 'ks a', 'insert a 6b 6669727374', 'batch2 a 6b 7365636f6e64 a 6a 78', 'insert a 6d 79', 'close']
    spath, out = ctx.run_scenario('\n'.join(L) + '\n', tag='dmg-base', keep_work=True)
    work = ctx.last_work
    try:
        jn = os.path.join(work, 'db', '0.jnl')
        data = open(jn, 'rb').read()
        # locate units
        starts = []
        i = 0
        while i < len(data) and data[i] == 1:
            starts.append(i)
            cnt = int.from_bytes(data[i + 1:i + 5], 'little'); pos = i + 13
            for _ in range(cnt):
                if data[pos] == 2:
                    kl = int.from_bytes(data[pos + 11:pos + 13], 'little'); vl = int.from_bytes(data[pos + 17:pos + 21], 'little'); pos += 21 + kl + vl
                else:
                    pos += 9
            i = pos + 13
        if len(starts) < 3:
            return False, spath, f'could not parse the real journal ({starts})'
        u = starts[1]; uend = starts[2]
        offs = {'Start.tag': [u], 'Start.item_count': [u + 1, u + 2], 'Start.seqno': list(range(u + 5, u + 13)), 'End': list(range(uend - 13, uend)),
                'item': list(range(u + 13, uend - 13)), 'panic': list(range(u, uend))}[field]
        prefix_states = ['[]', '[6b:6669727374]', '[6a:78,6b:7365636f6e64]', '[6a:78,6b:7365636f6e64,6d:79]']
        vals = sorted(set([newv & 0xff, 0, 1, 0xff, (data[offs[0]] + 1) & 0xff]))
        last = (False, spath, 'held natively')
        for off in offs:
            for v in vals:
                if v == data[off]:
                    continue
                img = os.path.join(work, f'img-{off}-{v}')
                shutil.copytree(os.path.join(work, 'db'), img)
                with open(os.path.join(img, '0.jnl'), 'r+b') as fh:
                    fh.seek(off); fh.write(bytes([v]))
                L2 = [f'dir {img}', 'open workers=0', 'ks a', 'dump a', 'close']
                sp2, out2 = ctx.run_scenario('\n'.join(L2) + '\n', tag=f'dmg-{off}-{v}')
                rs = [(c, r) for _i, c, r in out2]
                shutil.rmtree(img, ignore_errors=True)
                if any(c == 'CRASH' for c, _r in rs):
                    continue      # a panic on a damaged record is a (crude) refusal to open: no altered data is served
                opens = [r for c, r in rs if c == 'open']
                if opens and opens[0] != 'ok':
                    continue
                dumps = [r for c, r in rs if c == 'dump']
                if dumps and dumps[0] not in prefix_states:
                    return True, sp2, (f'journal byte {off} ({field} of the second unit) changed {data[off]:#04x} -> {v:#04x}: open succeeds with content {dumps[0]}, '
                                       f'which is the state of no prefix of the history {prefix_states}')
        return last
    finally:
        shutil.rmtree(work, ignore_errors=True)


def check_any_item_count(ctx):
    """the writer stores the number of items of a batch as a u32 without any limit of its own, so the reader must accept every count: a Start marker with an arbitrary
    item count followed by the end of the file is an unterminated batch (discarded silently), never an error"""
    ob = ctx.ob('roundtrip/any-item-count', 'JournalBatchReader::next: a Start marker is accepted for every item count 1..2^32-1 and every seqno (symbolic); followed by EOF or zeros it is a torn tail, '
                'not an error - the reader imposes no limit the writer does not have', ['batch_reader::<impl>::next', 'entry::<impl>::decode_from'])
    cnt = [z3.BitVec(f'start.count{i}', 8) for i in range(4)]
    seq = [z3.BitVec(f'start.seqno{i}', 8) for i in range(8)]
    image = [z3.BitVecVal(1, 8)] + cnt + seq
    nonzero = z3.Or(*[c != 0 for c in cnt])
    bad = []
    for tail, length in (('eof', 13), ('zeros', 13 + 24)):
        outs = J.run_reader(ctx, image, length, 13, max_batches=2, extra_pc=[nonzero])
        for o in outs:
            p = o['path']
            r, m = ctx.sat(list(p.pc) + J.injectivity_axioms(), ob)
            if r != z3.sat:
                continue
            ob.reach += 1
            if o['end'] != 'none' or o['batches']:
                n = sum(m.eval(c, model_completion=True).as_long() << (8 * i) for i, c in enumerate(cnt)) if m is not None else None
                bad.append((tail, f'a batch announcing {n} items: the reader ends with {o["end"]} {p.notes[-1:]} after {len(o["batches"])} batches instead of treating the unterminated batch as a torn tail', n))
                break
        if bad:
            break
    if ob.reach == 0:
        ob.status = 'undecided'; ob.detail = 'vacuous'
    elif not bad:
        ob.status = 'discharged'; ob.sample = {'paths': ob.reach}
    else:
        n = bad[0][2] or 70000
        ctx.candidate(ob, 'journal-reader/item-count-limit', f'{ob.id}: {bad[0][1]}', confirm=lambda: native_big_batch(ctx, n))


def native_big_batch(ctx, n):
    """a committed batch with as many items as the counterexample announces (capped) must be recovered completely"""
    sizes = sorted(set([min(max(n, 2), 300000), 70000]))
    last = (False, None, 'not run')
    for k in sizes:
        L = ['dir $DIR/db', 'open workers=0', 'ks a', 'insert a 6b30 30', f'bigbatch a {k}', 'insert a 6b7a 7a', 'count a', 'close', 'open workers=0', 'ks a', 'count a', f'get a 6b30', 'close']
        spath, out = ctx.run_scenario('\n'.join(L) + '\n', tag=f'bigbatch-{k}')
        rs = [(c, r) for _i, c, r in out]
        if any(c == 'CRASH' for c, _r in rs):
            return True, spath, f'batch of {k} items: crash: ' + rs[-1][1][-200:]
        opens = [r for c, r in rs if c == 'open']
        counts = [r for c, r in rs if c == 'count']
        if len(opens) > 1 and opens[1] != 'ok':
            return True, spath, f'a committed batch of {k} items makes the next open fail with {opens[1]}'
        if len(counts) == 2 and counts[0] != counts[1]:
            return True, spath, f'a committed batch of {k} items is not recovered completely: {counts[0]} keys before the reopen, {counts[1]} after'
        last = (False, spath, f'held natively (batches of {sizes} items)')
    return last


def check_error_propagates(ctx):
    """what the callers of the batch reader do with a damaged complete batch (reported as Err by the reader): both recovery loops must refuse to open,
    never skip the record or stop quietly and go on with later journals"""
    from . import recov
    for tag, kw, fns in (('active', dict(shape=((1, 0), (1, 0))), ['db::<impl>::recover']), ('sealed', dict(shape=(), sealed_shape=((1, 0), (1, 0))), ['recovery::recover_sealed_memtables'])):
        ob = ctx.ob(f'damage/error-propagates-{tag}', f'recovery ({tag} journal): when the batch reader reports a damaged batch (checksum mismatch) at any position, open returns that error; '
                    'nothing of the damaged batch or of later batches is applied and the open does not succeed', fns)
        bad = []; gave_up = False
        for at in (0, 1):
            try:
                ex, paths, env = recov.run_recover(ctx, n_ks=1, symbolic_kinds=False, reader_error_at=at, **kw)
            except Exception as e:      # noqa
                ob.status = 'undecided'; ob.detail = f'executor: {e!r}'; gave_up = True; break
            inc = [p for p in paths if p.status in ('error', 'timeout', 'loop_bound')]
            if inc:
                ob.status = 'undecided'; ob.detail = f'executor: {inc[0].status} {inc[0].notes[-1:]}'; gave_up = True; break
            for p in paths:
                errs = [e for e in p.events if e.kind == 'READER_ERR']
                if not errs or p.status not in ('returned', 'panic'):
                    continue
                ob.reach += 1
                if p.status == 'returned' and ctx.sat(p.pc + [ret_is_ok(p)], ob)[0] == z3.sat:
                    later = [e for e in p.events if e.kind == 'BATCH_READ' and e.idx > errs[0].idx]
                    bad.append((p, f'the reader reported batch {at} of the {tag} journal as damaged, yet recovery succeeds' + (' and goes on applying later batches' if later else ' (the rest of the journal is dropped silently while later journals are kept)')))
                    break
            if bad:
                break
        if gave_up:
            continue
        if ob.reach == 0:
            ob.status = 'undecided'; ob.detail = 'vacuous'
        elif not bad:
            ob.status = 'discharged'; ob.sample = {'paths': ob.reach}
        else:
            ctx.candidate(ob, f'recovery/{tag}-reader-error-swallowed', f'{ob.id}: {bad[0][1]}', confirm=(lambda t=tag: native_damage_sealed(ctx) if t == 'sealed' else native_damage(ctx, 'item', 0x55)))


def native_damage_sealed(ctx):
    """two journal files at open time (a lagging keyspace keeps the sealed one alive); one byte of a complete record of the SEALED journal is altered:
    open must fail or show a prefix of the history"""
    K = ['6b31', '6b32', '6b33', '6b34']
    L = ['dir $DIR/db', 'open workers=0', 'rotation_threshold 0', 'ks a', 'ks b', 'insert b 6b31 7331', 'insert b 6b32 7332', 'insert a 6b31 31', 'rotate a', 'worker_drain',
         'journal_count', 'insert b 6b33 7333', 'insert b 6b34 7334', 'close']
    spath, out = ctx.run_scenario('\n'.join(L) + '\n', tag='dmg-sealed-base', keep_work=True)
    work = ctx.last_work
    try:
        jc = [r for _i, c, r in out if c == 'journal_count']
        if not jc or jc[0] != 'n=2':
            return False, spath, f'could not produce a sealed journal ({jc})'
        jn = os.path.join(work, 'db', '0.jnl')
        data = open(jn, 'rb').read()
        # second unit of the sealed journal = insert b k2 s2 : its value bytes are the last 2 bytes before the End marker
        starts = []
        i = 0
        while i < len(data) and data[i] == 1:
            starts.append(i)
            cnt = int.from_bytes(data[i + 1:i + 5], 'little'); pos = i + 13
            for _ in range(cnt):
                if data[pos] == 2:
                    kl = int.from_bytes(data[pos + 11:pos + 13], 'little'); vl = int.from_bytes(data[pos + 17:pos + 21], 'little'); pos += 21 + kl + vl
                else:
                    pos += 9
            i = pos + 13
        if len(starts) < 3:
            return False, spath, f'could not parse the sealed journal ({starts})'
        off = starts[2] - 13 - 1          # last value byte of the second unit
        prefixes = []
        hist = [('b', '6b31', '7331'), ('b', '6b32', '7332'), ('a', '6b31', '31'), ('b', '6b33', '7333'), ('b', '6b34', '7334')]
        for n in range(len(hist) + 1):
            a, b = {}, {}
            for ks, k, v in hist[:n]:
                (a if ks == 'a' else b)[k] = v
            fm = lambda d: '[' + ','.join(f'{k}:{d[k]}' for k in sorted(d)) + ']'
            prefixes.append((fm(a), fm(b)))
        img = os.path.join(work, 'img-sealed')
        shutil.copytree(os.path.join(work, 'db'), img)
        with open(os.path.join(img, '0.jnl'), 'r+b') as fh:
            fh.seek(off); fh.write(bytes([data[off] ^ 0x41]))
        L2 = [f'dir {img}', 'open workers=0', 'ks a', 'ks b', 'dump a', 'dump b', 'close']
        sp2, out2 = ctx.run_scenario('\n'.join(L2) + '\n', tag='dmg-sealed')
        rs = [(c, r) for _i, c, r in out2]
        if any(c == 'CRASH' for c, _r in rs):
            return False, sp2, 'open panics on the damaged sealed journal (a crude refusal)'
        opens = [r for c, r in rs if c == 'open']
        if opens and opens[0] != 'ok':
            return False, sp2, f'open refuses the damaged sealed journal: {opens[0]}'
        dumps = [r for c, r in rs if c == 'dump']
        if len(dumps) == 2 and (dumps[0], dumps[1]) not in prefixes:
            return True, sp2, (f'one value byte of a complete record in the sealed journal 0.jnl altered: open succeeds with a={dumps[0]} b={dumps[1]}, which is the state of no prefix of the commit history '
                               f'(newer commits are kept while an older one is dropped)')
        return False, sp2, f'held natively (a={dumps[:1]} b={dumps[1:2]})'
    finally:
        shutil.rmtree(work, ignore_errors=True)


def check_compression_choice(ctx):
    pat = r'writer::<impl>::write_raw$'
    ob = ctx.ob('compression/choice', 'Writer::write_raw: the stored compression tag is the configured type iff threshold > 0 ∧ value length ≥ threshold, else None', [pat])
    fn = ctx.prog.find(pat)
    ex = ctx.executor(loop_bound=3, disabled_faults=('J_APPEND', 'J_FLUSH', 'W_INT', 'W_ALL'))
    thr = z3.BitVec('threshold', 64); vlen = z3.BitVec('vlen', 64)
    comp = z3.BitVec('comp_disc', 64)

    def setup(ex_, st, fr):
        names = ex_.src.struct_fields('journal::writer::Writer')
        w = Obj('journal::writer::Writer', 'writer', 'struct')
        w.fields[names.index('compression_threshold')] = Cell(thr)
        st.pc.append(z3.ULE(comp, bv(1)))
        w.fields[names.index('compression')] = Cell(EnumV('lsm_tree::CompressionType', comp, 'cfg_comp'))
        fr.locals[fn.args[0]] = Cell(Ref(Cell(w)))
        val = Obj('[u8]', 'value', 'bytes'); val.data['symlen'] = vlen
        fr.locals[fn.args[3]] = Cell(Ref(Cell(val), vlen))
    paths = ex.run(fn, setup=setup)
    ctx.functions_encoded[fn.key] = ctx.prog.hashes.get(fn.name, '')
    ctx.paths_total += len(paths); ctx.events_total += sum(len(p.events) for p in paths)
    bad = []
    for p in paths:
        if p.status != 'returned':
            continue
        ap = [e for e in p.events if e.kind == 'J_APPEND']
        if len(ap) < 2:
            continue
        ob.reach += 1
        u8s = [s[1] for s in ap[1].args['bytes'] if s[0] == 'u8']
        if len(u8s) < 3:
            bad.append((p, 'item header malformed')); continue
        tag = u8s[2]
        want = z3.If(z3.And(z3.UGT(thr, 0), z3.UGE(vlen, thr)), z3.Extract(7, 0, comp), z3.BitVecVal(0, 8))
        if ctx.sat(p.pc + [tag != want], ob)[0] != z3.unsat:
            bad.append((p, 'compression tag does not follow (threshold > 0 ∧ len ≥ threshold)'))
    # the batch writer makes the same choice per item, by the item's VALUE length (key length symbolic and independent)
    bfn = ctx.prog.find(r'writer::<impl>::write_batch$')
    klen = z3.BitVec('klen', 64)
    exb = ctx.executor(loop_bound=3, disabled_faults=('J_APPEND', 'J_FLUSH', 'W_INT', 'W_ALL'))

    def setup_b(ex_, st, fr):
        from ..contract import mk_seq, mk_iter
        names = ex_.src.struct_fields('journal::writer::Writer')
        w = Obj('journal::writer::Writer', 'writer', 'struct')
        w.fields[names.index('compression_threshold')] = Cell(thr)
        st.pc.append(z3.ULE(comp, bv(1)))
        w.fields[names.index('compression')] = Cell(EnumV('lsm_tree::CompressionType', comp, 'cfg_comp'))
        fr.locals[bfn.args[0]] = Cell(Ref(Cell(w)))
        it = Obj('batch::item::Item', 'item0', 'struct')
        key = Obj('lsm_tree::Slice', 'item0.key', 'bytes'); key.data['symlen'] = klen
        val = Obj('lsm_tree::Slice', 'item0.value', 'bytes'); val.data['symlen'] = vlen
        it.fields[1] = Cell(key); it.fields[2] = Cell(val)
        seq = mk_seq('Vec<Item>', [it], 'items')
        fr.locals[bfn.args[1]] = Cell(mk_iter(ex_, st, 'std::slice::Iter<Item>', seq, True))
        fr.locals[bfn.args[2]] = Cell(bv(1))
    pathsb = exb.run(bfn, setup=setup_b)
    ctx.functions_encoded[bfn.key] = ctx.prog.hashes.get(bfn.name, '')
    ctx.paths_total += len(pathsb)
    nb = 0
    for p in pathsb:
        if p.status != 'returned':
            continue
        ap = [e for e in p.events if e.kind == 'J_APPEND']
        if len(ap) < 2:
            continue
        nb += 1; ob.reach += 1
        u8s = [s_[1] for s_ in ap[1].args['bytes'] if s_[0] == 'u8']
        if len(u8s) < 3:
            bad.append((p, 'batch item header malformed')); continue
        want = z3.If(z3.And(z3.UGT(thr, 0), z3.UGE(vlen, thr)), z3.Extract(7, 0, comp), z3.BitVecVal(0, 8))
        if ctx.sat(p.pc + [u8s[2] != want], ob)[0] != z3.unsat:
            bad.append((p, 'write_batch: compression tag of an item does not follow (threshold > 0 ∧ value length ≥ threshold)'))
    if nb == 0:
        bad.append((None, 'write_batch: no path appended an item'))
    # the reader never looks at configuration: decode_from has no access to it (its only input is the reader)
    dfn = ctx.prog.find(r'entry::<impl>::decode_from$')
    if len(dfn.args) != 1:
        bad.append((None, 'Entry::decode_from takes configuration arguments'))
    if ob.reach == 0:
        ob.status = 'undecided'; ob.detail = 'vacuous'
    elif not bad:
        ob.status = 'discharged'; ob.sample = {'paths': ob.reach}
    else:
        ctx.candidate(ob, 'writer/compression-choice', bad[0][1], confirm=lambda: native_compression(ctx))
    return ob


def native_compression(ctx):
    """write with journal compression on (values below and above a threshold cannot be configured through the builder:
    threshold is fixed), reopen with it off and vice versa; contents must be identical"""
    big = '61' * 5000
    last = (False, None, 'not run')
    for first, second in (('lz4', 'none'), ('none', 'lz4')):
        L = ['dir $DIR/db', f'open workers=0 compression={first}', 'ks a', f'insert a 6b31 {big}', 'insert a 6b32 32', 'insert a 6b33 -', 'close',
             f'open workers=0 compression={second}', 'ks a', 'dump a', f'insert a 6b34 {big}', 'close', f'open workers=0 compression={first}', 'ks a', 'dump a', 'close']
        spath, out = ctx.run_scenario('\n'.join(L) + '\n', tag=f'comp-{first}-{second}')
        rs = [(c, r) for _i, c, r in out]
        if any(c == 'CRASH' for c, _r in rs):
            return True, spath, 'crash: ' + rs[-1][1][-200:]
        dumps = [r for c, r in rs if c == 'dump']
        want1 = f'[6b31:{big},6b32:32,6b33:-]'; want2 = f'[6b31:{big},6b32:32,6b33:-,6b34:{big}]'
        if dumps != [want1, want2]:
            return True, spath, f'journal written with compression={first} and read with {second} (and back): contents differ'
        last = (False, spath, 'held natively')
    return last


def check_lz4_coherent(ctx):
    """writer and reader agree on what an Lz4-tagged item stores.  The LZ4 codec itself is contract F6 (decompress(compress(v)) = v, compress(v) has an
    arbitrary length); what is decided here is fjall's own logic around it: for an item of ANY value length and ANY compressed length, the bytes
    serialize_marker_item stores under the Lz4 tag are exactly what Entry::decode_from turns back into the value."""
    from ..contract import SliceView
    wpat = r'serialize_marker_item$'
    rpat = r'entry::<impl>::decode_from$'
    ob = ctx.ob('compression/lz4-coherent', 'serialize_marker_item (Lz4) -> Entry::decode_from: the stored bytes are the LZ4 image of the value and the reader decompresses exactly those; no length coincidence changes how the payload is interpreted', [wpat, rpat])
    wfn = ctx.prog.find(wpat); rfn = ctx.prog.find(rpat)
    vlen = z3.BitVec('vlen', 64)
    bad = []

    def wsetup(ex, st, fr):
        w = Obj('Vec<u8>', 'sink', 'bytes'); w.data['segs'] = []
        fr.locals[wfn.args[0]] = Cell(Ref(Cell(w)))
        val = Obj('[u8]', 'value', 'bytes'); val.data['symlen'] = vlen
        st.pc.append(z3.ULT(vlen, bv(2 ** 31)))
        fr.locals[wfn.args[3]] = Cell(Ref(Cell(val), vlen))
        fr.locals[wfn.args[5]] = Cell(ex.mk_enum('lsm_tree::CompressionType', 'Lz4'))
        st.globals['__sink'] = w
    wex = ctx.executor(loop_bound=3)
    wpaths = wex.run(wfn, setup=wsetup)
    ctx.functions_encoded[wfn.key] = ctx.prog.hashes.get(wfn.name, ''); ctx.functions_encoded[rfn.key] = ctx.prog.hashes.get(rfn.name, '')
    ctx.paths_total += len(wpaths); ctx.solver_s += wex.stats['solver_s']; ctx.queries += wex.stats['solver_calls']
    from ..symex import Ev

    def ov_from_reader(ex, st, call):
        from ..contract import reader_target, norm_segs
        tgt = reader_target(ex, st, call.args[0])
        if tgt is None:
            return NotImplemented
        cell, buf, pos = tgt
        segs = norm_segs(buf.data['segs'])
        if pos >= len(segs):
            return ex.mk_enum(call.dst_ty, 'Err', [Obj('std::io::Error', 'eof', 'opaque')])
        k, v = segs[pos]
        cell.val = Ref(cell.val.cell, SliceView(pos + 1))
        o = Obj('lsm_tree::Slice', 'read', 'bytes')
        o.data['read_seg'] = (k, v); o.data['read_len'] = call.args[1]
        st.emit(Ev('SLICE_READ', args={'seg': k, 'len': call.args[1]}, site=call.site))
        return ex.mk_enum(call.dst_ty, 'Ok', [o])

    def ov_builder(ex, st, call):
        b = Obj('byteview::Builder', 'builder', 'bytes'); b.data['cap'] = call.args[0]; b.data['symlen'] = call.args[0]
        return b

    def ov_decompress(ex, st, call):
        src = deref(call.args[0]); dst = deref(call.args[1])
        seg = src.data.get('read_seg') if isinstance(src, Obj) else None
        st.emit(Ev('DECOMPRESS', args={'seg': seg[0] if seg else None}, site=call.site))
        if isinstance(dst, Obj):
            dst.data['decompressed_from'] = seg
        if seg and seg[0] == 'lz4':
            return ex.mk_enum(call.dst_ty, 'Ok', [vlen])          # F6: yields the original value, of its length
        return ex.mk_enum(call.dst_ty, 'Ok', [z3.BitVec(f'garbage_len!{next(st.fresh)}', 64)])

    def ov_builder_len(ex, st, call):
        b = deref(call.args[0])
        return b.data.get('cap') if isinstance(b, Obj) and 'cap' in b.data else NotImplemented

    def ov_passthrough(ex, st, call):
        return call.args[0]
    for wp in wpaths:
        if wp.status != 'returned' or ctx.sat(wp.pc + [ret_is_ok(wp)], ob)[0] != z3.sat:
            continue
        segs = list(wp.st.globals['__sink'].data['segs'])
        stored = segs[-1]
        mode_w = 'lz4' if stored[0] == 'lz4' else 'raw'

        def rsetup(ex, st, fr, segs=segs, wp=wp):
            buf = Obj('[u8]', 'image', 'bytes'); buf.data['segs'] = list(segs)
            st.pc.extend(wp.pc)
            fr.locals[rfn.args[0]] = Cell(Ref(Cell(Ref(Cell(buf), SliceView(0)))))
        rex = ctx.executor(loop_bound=3, overrides=[(r'Slice::from_reader$', ov_from_reader), (r'Slice::builder_unzeroed$', ov_builder), (r'decompress_into$', ov_decompress),
                                                   (r'Builder::freeze$|::freeze$', ov_passthrough), (r'<.*Builder.* as Deref(Mut)?>::deref(_mut)?$', ov_passthrough)])
        rpaths = rex.run(rfn, setup=rsetup)
        ctx.paths_total += len(rpaths); ctx.solver_s += rex.stats['solver_s']; ctx.queries += rex.stats['solver_calls']
        for rp in rpaths:
            if rp.status != 'returned':
                if rp.status == 'panic' and ctx.sat(rp.pc, ob)[0] == z3.sat:
                    ob.reach += 1; bad.append((rp, 'decoding an item the writer produced can panic'))
                continue
            if ctx.sat(rp.pc, ob)[0] != z3.sat:
                continue
            ob.reach += 1
            if ctx.sat(rp.pc + [ret_is_ok(rp)], ob)[0] != z3.sat:
                bad.append((rp, f'an Lz4 item the writer produced (stored as {mode_w}) is refused by the reader')); continue
            dec = [e for e in rp.events if e.kind == 'DECOMPRESS']
            rd = [e for e in rp.events if e.kind == 'SLICE_READ']
            mode_r = 'lz4' if dec else 'raw'
            if mode_w != mode_r:
                cond = [str(c)[:80] for c in rp.pc if 'len_lz4' in str(c) or 'vlen' in str(c)][-2:]
                bad.append((rp, (f'the writer stores the {"LZ4 image" if mode_w == "lz4" else "raw bytes"} of the value under the Lz4 tag, but on a feasible path ({cond}) the reader '
                                 f'{"returns the stored bytes as they are" if mode_r == "raw" else "decompresses them"}: the value read back differs from the value written'))); continue
            if dec and dec[0].args.get('seg') != 'lz4':
                bad.append((rp, 'the reader decompresses something that is not the stored LZ4 image')); continue
    if ob.reach == 0:
        ob.status = 'undecided'; ob.detail = 'vacuous'
    elif not bad:
        ob.status = 'discharged'; ob.sample = {'paths': ob.reach}
    else:
        ctx.candidate(ob, 'journal-codec/lz4-payload-misread', bad[0][1], confirm=lambda: native_lz4_fixpoint(ctx))


def native_lz4_fixpoint(ctx):
    """values of >= 4 KiB (journal compression threshold) with every relation between LZ4 size and value size, including a value whose LZ4 image is exactly
    as long as the value (found by the driver with lz4_flex); written singly and in a batch, read back after a reopen"""
    L = ['dir $DIR/db', 'open workers=0', 'ks a', 'lz4_values a', 'close', 'open workers=0', 'ks a', 'lz4_verify a', 'close']
    spath, out = ctx.run_scenario('\n'.join(L) + '\n', tag='lz4-fixpoint')
    if any(c == 'CRASH' for _i, c, _r in out):
        return True, spath, 'crash: ' + out[-1][2][-200:]
    v = [r for _i, c, r in out if c == 'lz4_verify']
    w = [r for _i, c, r in out if c == 'lz4_values']
    if w and not w[0].startswith('ok'):
        return False, spath, f'could not build the test values: {w[0]}'
    if v and v[0] != 'ok':
        return True, spath, f'values written with journal compression are read back differently after a reopen: {v[0]} (written: {w[0] if w else "?"})'
    return False, spath, f'held natively ({w[0] if w else ""})'


KANI_HARNESSES = [
    ('start_roundtrip', 'Start marker: every (item_count, seqno) round-trips through encode_into / decode_from in 13 bytes', 600),
    ('clear_roundtrip', 'Clear marker: every keyspace id round-trips', 600),
    ('end_roundtrip_and_trailer', 'End marker: every checksum round-trips; any change of one trailer byte is refused', 600),
    ('decode_arbitrary_marker_bytes', 'decode_from over 14 arbitrary bytes (non-item tags): never panics; tags outside 1..=4 are refused', 600),
    ('item_roundtrip_small', 'Item: keyspace id, kind, key <= 2 bytes, value <= 2 bytes (uncompressed) round-trip field by field through serialize_marker_item / decode_from', 2400),
]


def check_kani(ctx):
    """engine K (thorough tier): the compiled codec under CBMC, all inputs within the bound, unwinding assertions on"""
    for h, desc, to in KANI_HARNESSES:
        ob = ctx.ob(f'kani/{h}', 'Kani/CBMC over the compiled code: ' + desc, ['journal::entry::verif_kani::' + h])
        ob.reach = 1
        r = ctx.run_kani(h, timeout_s=to)
        if r == 'success':
            ob.status = 'discharged'; ob.sample = dict(ctx.kani[-1])
        elif r == 'failed':
            ctx.candidate(ob, 'journal-codec/roundtrip', f'Kani harness {h} fails: {ctx.kani[-1].get("failed_checks")}', confirm=lambda: native_cut(ctx, None))
        else:
            ob.status = 'undecided'; ob.detail = f'Kani inconclusive: {ctx.kani[-1]}'


def run(ctx):
    ctx.assumptions += [
        'F5: xxh3 modelled as an uninterpreted collision-free function on the compared inputs',
        'F6: lz4_flex compress/decompress round-trips (not decided: whole-buffer loops); journal compression is off in the byte-level model',
        'bounds: units of ≤ 3 items, keys 1–2 bytes, values 0–2 bytes; one altered byte',
    ]
    check_roundtrip(ctx)
    shapes = DMG_SHAPES_QUICK if ctx.tier == 'quick' else DMG_SHAPES_THOROUGH
    for i, sh in enumerate(shapes):
        check_damage(ctx, sh, i)
    check_any_item_count(ctx)
    check_error_propagates(ctx)
    check_compression_choice(ctx)
    check_lz4_coherent(ctx)
    if ctx.tier == 'thorough':
        check_kani(ctx)
    for o in ctx.obligations:
        ctx.samples.append(o.as_dict())
    return ctx.finish()


MUTANTS = [
    {'name': 'reader accepts a batch whose checksum does not match', 'edits': [('src/journal/batch_reader.rs', "                    if got_checksum != expected_checksum {", "                    if got_checksum != expected_checksum && false {")]},
    {'name': 'batch checksum covers only the first item', 'edits': [('src/journal/writer.rs', "        for item in items {\n            debug_assert!(self.buf.is_empty());", "        let mut first = true;\n        for item in items {\n            debug_assert!(self.buf.is_empty());"), ('src/journal/writer.rs', "            hasher.update(&self.buf);\n            byte_count += self.buf.len();\n\n            self.buf.clear();", "            if first { hasher.update(&self.buf); }\n            first = false;\n            byte_count += self.buf.len();\n\n            self.buf.clear();")]},
    {'name': 'item encoder writes the value length as key length', 'edits': [('src/journal/entry.rs', "    writer.write_u16::<LittleEndian>(key.len() as u16)?;", "    writer.write_u16::<LittleEndian>(value.len() as u16)?;")]},
    {'name': 'item decoder reads the on-disk length for the key', 'edits': [('src/journal/entry.rs', "                let key = Slice::from_reader(reader, usize::from(key_len))?;", "                let key = Slice::from_reader(reader, on_disk_value_len as usize)?;")]},
    {'name': 'compression chosen by key length', 'edits': [('src/journal/writer.rs', "                if self.compression_threshold > 0 && item.value.len() >= self.compression_threshold\n                {", "                if self.compression_threshold > 0 && item.key.len() >= self.compression_threshold\n                {")]},
    {'name': 'clear marker written with the wrong tag', 'edits': [('src/journal/entry.rs', "                writer.write_u8(Tag::Clear.into())?;", "                writer.write_u8(Tag::Start.into())?;")]},
    {'name': 'trailer not checked', 'edits': [('src/journal/entry.rs', "                if magic != MAGIC_BYTES {", "                if magic != MAGIC_BYTES && false {")]},
]
