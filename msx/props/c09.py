"""C09 — persist(SyncData|SyncAll) makes all earlier writes power-loss durable.

M obligations (MIR paths of the journal writer; F1/F2: three cursors appended ≥ os-visible ≥ durable):
  persist/<mode>        Writer::persist from an arbitrary state (dirty flag symbolic): on Ok, a dirty buffer was flushed before
                        anything else, SyncAll ⇒ sync_all, SyncData ⇒ sync_data (after the flush), flag cleared
  dirty/<fn>            every Writer method that appends sets is_buffer_dirty (inductive invariant: appended > os-visible ⇒ dirty)
  rotate/order          Writer::rotate: flush + sync_all of the old file before the new file is created; directory fsync after
  db-persist/mode       Database::persist passes the caller's mode down and reports failures
  batch/durability      WriteBatch::commit persists with its durability mode after the append and before returning Ok
  writers/auto-persist  with automatic persist every single-operation writer flushes the BufWriter before returning Ok
M/C (z3): a program of ≤ 4 steps over {write, persist(mode), rotate}, each step = the guarded effects of the *extracted*
paths over the cursor state; assert: every write acknowledged before an Ok sync-level persist is durable afterwards.
Native replay: power-loss images built from an strace log of the real run.
"""
import z3, time
from ..core import ret_is_err, ret_is_ok, obj_name
from ..symex import Obj, EnumV, Ref, Cell, deref, bv
from . import common as C
from . import writepath as W
from . import crashimg

MODES = {0: 'Buffer', 1: 'SyncData', 2: 'SyncAll'}


def writer_obj(ex, st, dirty):
    names = ex.src.struct_fields('journal::writer::Writer')
    w = Obj('journal::writer::Writer', 'writer', 'struct')
    w.fields[names.index('is_buffer_dirty')] = Cell(dirty)
    return w


def dirty_after(ex, p, uid):
    w = ex._find_obj(p.st, uid)
    names = ex.src.struct_fields('journal::writer::Writer')
    c = w.fields.get(names.index('is_buffer_dirty')) if w is not None else None
    return c.val if c is not None else None


def check_persist(ctx):
    pat = r'^writer::<impl>::persist$|^journal::writer::<impl>::persist$'
    fn = ctx.prog.find(pat)
    res = {}
    for md, mname in MODES.items():
        ob = ctx.ob(f'persist/{mname}', f'Writer::persist({mname}) from any state: dirty ⇒ flush first; {"fsync" if md == 2 else "fdatasync" if md == 1 else "no sync"}; flag cleared on success', [fn.key])
        ex = ctx.executor(loop_bound=2)
        dirty = z3.Bool('dirty_pre')
        env = {}

        def setup(ex_, st, fr, md=md):
            w = writer_obj(ex_, st, dirty)
            env['uid'] = w.uid
            fr.locals[fn.args[0]] = Cell(Ref(Cell(w)))
            fr.locals[fn.args[1]] = Cell(ex_.mk_enum('journal::writer::PersistMode', MODES[md]))
        paths = ex.run(fn, setup=setup)
        ctx.functions_encoded[fn.key] = ctx.prog.hashes.get(fn.name, '')
        ctx.paths_total += len(paths); ctx.events_total += sum(len(p.events) for p in paths)
        bad = []
        recs = []
        for p in paths:
            if p.status != 'returned':
                continue
            ok = ctx.sat(p.pc + [ret_is_ok(p)], ob)[0] == z3.sat
            fl = [e for e in p.events if e.kind == 'J_FLUSH']
            sa = [e for e in p.events if e.kind == 'F_SYNC_ALL']
            sd = [e for e in p.events if e.kind == 'F_SYNC_DATA']
            recs.append((p, ok, fl, sa, sd))
            if not ok:
                continue
            ob.reach += 1
            was_dirty = ctx.sat(p.pc + [z3.Not(dirty)], ob)[0] == z3.unsat
            maybe_dirty = ctx.sat(p.pc + [dirty], ob)[0] == z3.sat
            if maybe_dirty and not fl:
                bad.append((p, 'returns Ok with a dirty buffer that was never flushed')); continue
            if md == 2 and not sa:
                bad.append((p, 'SyncAll returns Ok without fsync')); continue
            if md == 1 and not (sd or sa):
                bad.append((p, 'SyncData returns Ok without fdatasync')); continue
            syncs = sa + sd
            if fl and syncs and min(e.idx for e in syncs) < fl[0].idx:
                bad.append((p, 'syncs before flushing the buffer')); continue
            da = dirty_after(ex, p, env['uid'])
            if fl and (da is None or not z3.is_false(z3.simplify(da))):
                if ctx.sat(p.pc + [da if da is not None else z3.BoolVal(True)], ob)[0] != z3.unsat:
                    bad.append((p, 'dirty flag still set after a successful flush')); continue
        res[md] = recs
        finish(ctx, ob, bad, f'Writer.persist/{mname}', lambda md=md: native_power(ctx))
    return res


def check_dirty(ctx):
    for name, pat, setup in (('write_raw', r'writer::<impl>::write_raw$', None), ('write_clear', r'writer::<impl>::write_clear$', None)):
        ob = ctx.ob(f'dirty/{name}', f'Writer::{name}: whenever bytes are appended the dirty flag is set (on every path, including failing ones)', [pat])
        fn = ctx.prog.find(pat)
        ex = ctx.executor(loop_bound=2)
        env = {}

        def setup2(ex_, st, fr):
            w = writer_obj(ex_, st, z3.BoolVal(False))
            env['uid'] = w.uid
            fr.locals[fn.args[0]] = Cell(Ref(Cell(w)))
        paths = ex.run(fn, setup=setup2)
        ctx.functions_encoded[fn.key] = ctx.prog.hashes.get(fn.name, '')
        ctx.paths_total += len(paths); ctx.events_total += sum(len(p.events) for p in paths)
        bad = []
        for p in paths:
            if p.status != 'returned':
                continue
            ap = [e for e in p.events if e.kind == 'J_APPEND']
            if not ap:
                continue
            ob.reach += 1
            da = dirty_after(ex, p, env['uid'])
            if da is None or ctx.sat(p.pc + [z3.Not(da)], ob)[0] != z3.unsat:
                bad.append((p, 'appends to the journal buffer without marking it dirty'))
        finish(ctx, ob, bad, f'Writer.{name}/dirty-flag-not-set', lambda: native_power(ctx))
    # write_batch through WriteBatch::commit (needs the item list)
    ob = ctx.ob('dirty/write_batch', 'Writer::write_batch: whenever bytes are appended the dirty flag is set', [r'writer::<impl>::write_batch'])
    ex, paths, recs = W.run_op(ctx, 'batch', n_items=2, value_types=['Value'])
    names = ex.src.struct_fields('journal::writer::Writer')
    bad = []
    from .c05 import find_objs
    for r in recs:
        p = r.p
        if not r.appends or p.status != 'returned':
            continue
        ob.reach += 1
        ws = []
        for e in r.locks:
            m = e.obj
            c = m.fields.get('data') if isinstance(m, Obj) else None
            if c is not None and isinstance(c.val, Obj):
                ws.append(c.val)
        da = ws[0].fields.get(names.index('is_buffer_dirty')).val if ws and names.index('is_buffer_dirty') in ws[0].fields else None
        # after the call the flag is either still set (no persist) or was cleared by a successful flush
        if da is None:
            bad.append((p, 'dirty flag never written')); continue
        flushed_ok = [e for e in r.flushes if e.idx > r.appends[-1].idx]
        if not flushed_ok and ctx.sat(p.pc + [z3.Not(da)], ob)[0] != z3.unsat:
            bad.append((p, 'appends without marking the buffer dirty'))
    finish(ctx, ob, bad, 'Writer.write_batch/dirty-flag-not-set', lambda: native_power(ctx))


def check_rotate(ctx):
    pat = r'writer::<impl>::rotate$'
    ob = ctx.ob('rotate/order', 'Writer::rotate: old journal flushed and fsynced before the new file is created; directory fsynced afterwards', [pat])
    fn = ctx.prog.find(pat)
    ex = ctx.executor(loop_bound=2)

    def setup(ex_, st, fr):
        w = writer_obj(ex_, st, z3.Bool('dirty_pre'))
        fr.locals[fn.args[0]] = Cell(Ref(Cell(w)))
    paths = ex.run(fn, setup=setup)
    ctx.functions_encoded[fn.key] = ctx.prog.hashes.get(fn.name, '')
    ctx.paths_total += len(paths); ctx.events_total += sum(len(p.events) for p in paths)
    bad = []
    dirty = z3.Bool('dirty_pre')
    for p in paths:
        if p.status != 'returned' or ctx.sat(p.pc + [ret_is_ok(p)], ob)[0] != z3.sat:
            continue
        ob.reach += 1
        opens = [e for e in p.events if e.kind == 'F_OPEN']
        sa = [e for e in p.events if e.kind == 'F_SYNC_ALL']
        fl = [e for e in p.events if e.kind == 'J_FLUSH']
        ds = [e for e in p.events if e.kind == 'DIR_FSYNC']
        if not opens:
            bad.append((p, 'no new journal file created')); continue
        if not sa or sa[0].idx > opens[0].idx:
            bad.append((p, 'the new journal is created before the old one is fsynced')); continue
        if ctx.sat(p.pc + [dirty], ob)[0] == z3.sat and (not fl or fl[0].idx > sa[0].idx):
            bad.append((p, 'the old journal is synced without flushing its buffer first')); continue
        if not ds or ds[-1].idx < opens[0].idx:
            bad.append((p, 'the directory is not fsynced after the new journal is created')); continue
    finish(ctx, ob, bad, 'Writer.rotate/order', lambda: native_power(ctx))


def check_db_persist(ctx):
    pat = r'^db::<impl>::persist$'
    ob = ctx.ob('db-persist/mode', 'Database::persist(mode): the journal is persisted with exactly that mode; Ok only if it succeeded', [pat])
    fn = ctx.prog.find(pat)
    bad = []
    for md, mname in MODES.items():
        ex = ctx.executor(loop_bound=2)

        def setup(ex_, st, fr, md=md):
            fr.locals[fn.args[1]] = Cell(ex_.mk_enum('journal::writer::PersistMode', MODES[md]))
        paths = ex.run(fn, setup=setup)
        ctx.paths_total += len(paths); ctx.events_total += sum(len(p.events) for p in paths)
        for p in paths:
            if p.status != 'returned' or ctx.sat(p.pc + [ret_is_ok(p)], ob)[0] != z3.sat:
                continue
            ob.reach += 1
            sa = [e for e in p.events if e.kind == 'F_SYNC_ALL']; sd = [e for e in p.events if e.kind == 'F_SYNC_DATA']
            if md == 2 and not sa:
                bad.append((p, 'persist(SyncAll) acknowledged without fsync'))
            if md == 1 and not (sd or sa):
                bad.append((p, 'persist(SyncData) acknowledged without fdatasync'))
            faults = [e for e in p.events if e.fault is not None and e.kind in C.JOURNAL_FAULT_KINDS and ctx.sat(p.pc + [z3.Not(e.fault)], ob)[0] == z3.unsat]
            if faults:
                bad.append((p, 'persist acknowledged although a journal I/O call failed'))
    ctx.functions_encoded[fn.key] = ctx.prog.hashes.get(fn.name, '')
    finish(ctx, ob, bad, 'Database.persist/mode', lambda: native_power(ctx))


def check_persist_wrappers(ctx):
    """the transactional databases forward persist(mode) to the inner database with the caller's mode and return its result"""
    for name, pat in (('OptimisticTxDatabase', r'^optimistic::<impl>::persist$'), ('SingleWriterTxDatabase', r'^single_writer::<impl>::persist$')):
        ob = ctx.ob(f'wrapper-persist/{name}', f'{name}::persist(mode) = inner Database::persist(mode): same mode, result returned unchanged', [pat])
        try:
            ex, paths = ctx.run(pat, cache_key='c09.wrap.' + name, loop_bound=2, no_inline=[r'^db::<impl>::persist$|Database::persist$'])
        except KeyError as e:
            ob.status = 'undecided'; ob.detail = f'function not found: {e}'; continue
        bad = []
        for p in paths:
            if p.status != 'returned':
                continue
            ob.reach += 1
            calls = [e for e in p.events if e.kind == 'CALL' and e.args.get('callee', '').endswith('::persist')]
            fr = p.st.frames[0]
            mode = fr.locals[fr.fn.args[1]].val
            if len(calls) != 1:
                bad.append((p, f'{len(calls)} calls to the inner persist')); continue
            m2 = calls[0].args['args'][1]
            same = (m2 is mode) or (isinstance(m2, EnumV) and isinstance(mode, EnumV) and str(m2.disc) == str(mode.disc))
            if not same:
                bad.append((p, f'the inner database is persisted with another mode ({m2}) than the caller asked for')); continue
            if calls[0].res is not None and p.ret is not calls[0].res and not (isinstance(p.ret, EnumV) and isinstance(calls[0].res, EnumV) and str(p.ret.disc) == str(calls[0].res.disc)):
                bad.append((p, 'the result of the inner persist is not returned')); continue
        finish(ctx, ob, bad, f'{name}.persist/not-forwarded', lambda: native_power_wrappers(ctx))


def check_batch_durability(ctx):
    ob = ctx.ob('batch/durability', 'WriteBatch::commit with durability Some(mode): persisted with that mode after the append, before returning Ok', [C.WRITERS['batch']])
    bad = []
    for md, mname in MODES.items():
        def setup(ex_, st, fr, md=md):
            C.batch_setup(1, value_types=['Value'])(ex_, st, fr)
            wb = fr.locals[fr.fn.args[0]].val
            names = ex_.src.struct_fields('batch::WriteBatch')
            wb.fields[names.index('durability')] = Cell(ex_.mk_enum('Option<PersistMode>', 'Some', [ex_.mk_enum('journal::writer::PersistMode', MODES[md])]))
        ex, paths = ctx.run(C.WRITERS['batch'], setup=setup, cache_key=f'batchdur.{md}', no_inline=C.NO_BACKPRESSURE, loop_bound=3)
        for p in paths:
            if p.status != 'returned' or ctx.sat(p.pc + [ret_is_ok(p)], ob)[0] != z3.sat:
                continue
            ap = [e for e in p.events if e.kind == 'J_APPEND']
            if not ap:
                continue
            ob.reach += 1
            fl = [e for e in p.events if e.kind == 'J_FLUSH' and e.idx > ap[-1].idx]
            sa = [e for e in p.events if e.kind == 'F_SYNC_ALL' and e.idx > ap[-1].idx]; sd = [e for e in p.events if e.kind == 'F_SYNC_DATA' and e.idx > ap[-1].idx]
            if not fl:
                bad.append((p, f'batch with durability {mname} acknowledged without flushing the journal buffer'))
            if md == 2 and not sa:
                bad.append((p, 'batch with durability SyncAll acknowledged without fsync'))
            if md == 1 and not (sd or sa):
                bad.append((p, 'batch with durability SyncData acknowledged without fdatasync'))
    finish(ctx, ob, bad, 'WriteBatch.commit/durability', lambda: native_power(ctx))


def check_auto_persist(ctx):
    for op in ('insert', 'remove', 'remove_weak', 'clear'):
        ob = ctx.ob(f'writers/auto-persist-{op}', f'{op}: with automatic journal persist the BufWriter is flushed after the append and before Ok is returned; with manual persist no flush is required', [C.WRITERS[op]])
        ex, paths, recs = W.run_op(ctx, op)
        bad = []
        for r in recs:
            if not r.ok:
                continue
            p = r.p
            manual = None
            for c in p.pc:
                s = str(c)
                if 'manual_journal_persist' in s:
                    manual = not s.startswith('Not(')
            ob.reach += 1
            if manual is False or manual is None:
                fl = [e for e in r.flushes if r.appends and e.idx > r.appends[-1].idx]
                if manual is False and not fl:
                    bad.append((p, 'acknowledged without flushing the journal buffer although manual persist is off'))
        finish(ctx, ob, bad, f'{op}/not-flushed-before-ack', lambda: native_proc(ctx))


def finish(ctx, ob, bad, role, confirm):
    if ob.reach == 0:
        ob.status = 'undecided'; ob.detail = ob.detail or 'vacuous'
    elif not bad:
        ob.status = 'discharged'; ob.sample = {'paths': ob.reach}
    else:
        p, why = bad[0]
        ctx.candidate(ob, role, f'{ob.id}: {why}; events: ' + ' · '.join(e.kind for e in p.events)[:200], confirm=confirm)


# ------------------------------------------------------------------ M/C: cursor model over extracted persist paths
def check_cursor_model(ctx, persist_recs):
    ob = ctx.ob('cursor-model/power-loss', 'z3: every program of ≤ 4 (quick) / 7 (thorough) steps over {write, persist(mode)} built from the extracted paths of Writer::persist: a write acknowledged before an Ok sync-level persist is durable', ['writer::<impl>::persist'])
    if not persist_recs or any(not persist_recs.get(md) for md in MODES):
        ob.status = 'undecided'; ob.detail = 'persist paths unavailable'; return ob
    dirty_pre = z3.Bool('dirty_pre')
    N = 4 if ctx.tier == 'quick' else 7
    s = z3.Solver()
    kind = [z3.Int(f'kind{i}') for i in range(N)]        # 0 write, 1 persist
    mode = [z3.Int(f'mode{i}') for i in range(N)]
    appended = [z3.Int(f'app{i}') for i in range(N + 1)]
    visible = [z3.Int(f'vis{i}') for i in range(N + 1)]
    durable = [z3.Int(f'dur{i}') for i in range(N + 1)]
    dirty = [z3.Bool(f'dirty{i}') for i in range(N + 1)]
    okp = [z3.Bool(f'ok{i}') for i in range(N)]
    s.add(appended[0] == 0, visible[0] == 0, durable[0] == 0, dirty[0] == False)
    for i in range(N):
        s.add(z3.Or(kind[i] == 0, kind[i] == 1), mode[i] >= 0, mode[i] <= 2)
        # write: appends one unit into the BufWriter; spill to the OS is nondeterministic (F1); sets dirty (dirty/* obligations)
        spill = z3.Int(f'spill{i}')
        w = z3.And(kind[i] == 0, appended[i + 1] == appended[i] + 1, spill >= visible[i], spill <= appended[i + 1], visible[i + 1] == spill,
                   durable[i + 1] == durable[i], dirty[i + 1] == True, okp[i] == True)
        # persist: one of the extracted paths, guarded by (dirty, mode)
        alts = []
        for md in MODES:
            for (p, ok, fl, sa, sd) in persist_recs[md]:
                g = [mode[i] == md]
                # guard over the symbolic pre-state: substitute dirty_pre
                pc = z3.And(*p.pc) if p.pc else z3.BoolVal(True)
                # only the dirty flag and fault variables occur; healthy disk: all faults false
                fvars = [e.fault for e in p.events if e.fault is not None and not z3.is_false(e.fault)]
                sub = [(dirty_pre, dirty[i])] + [(f, z3.BoolVal(False)) for f in fvars if z3.is_const(f)]
                g.append(z3.substitute(pc, *sub))
                flushed = bool(fl); synced = bool(sa or sd)
                vis2 = appended[i] if flushed else visible[i]
                dur2 = vis2 if synced else durable[i]
                # order: a sync that happens before the flush only covers what was visible before
                if flushed and synced and min(e.idx for e in (sa + sd)) < fl[0].idx:
                    dur2 = visible[i]
                uidw = None
                alts.append(z3.And(*g, appended[i + 1] == appended[i], visible[i + 1] == vis2, durable[i + 1] == dur2,
                                   dirty[i + 1] == (dirty[i] if not flushed else False), okp[i] == z3.BoolVal(ok)))
        s.add(z3.Or(w, z3.And(kind[i] == 1, z3.Or(*alts))))
    viol = []
    for i in range(N):
        for j in range(i + 1, N):
            viol.append(z3.And(kind[i] == 0, kind[j] == 1, mode[j] >= 1, okp[j], durable[j + 1] < appended[i + 1]))
    s.add(z3.Or(*viol))
    t0 = time.time()
    r = s.check()
    ctx.solver_s += time.time() - t0; ctx.queries += 1; ob.queries += 1; ob.reach = 1
    if r == z3.unsat:
        ob.unsat += 1; ob.status = 'discharged'; ob.sample = {'steps': N, 'persist_paths': sum(len(v) for v in persist_recs.values())}
    elif r == z3.sat:
        m = s.model()
        prog = [('write' if m.eval(kind[i]).as_long() == 0 else 'persist:' + MODES[m.eval(mode[i], model_completion=True).as_long()]) for i in range(N)]
        steps = []
        for x in prog:
            steps.append('w' if x == 'write' else 'p:' + x.split(':')[1].lower())
            steps.append('x')
        ctx.candidate(ob, 'persist/acknowledged-sync-not-durable', f'program {prog}: a write acknowledged before a successful sync-level persist is not durable in the model',
                      confirm=lambda: native_power(ctx, extra=[steps]))
    else:
        ob.status = 'undecided'; ob.detail = 'solver: unknown'
    return ob


def validate_translator(ctx):
    """translator validation: the journal I/O events the REAL writer emits for each operation (trace hook at every journal write / flush / sync call) must be
    the journal-event projection of one fault-free symbolic path of the same operation.  A mismatch means the encoder or the contract is wrong: the
    obligation becomes undecided (it is neither a pass nor an alarm)."""
    ob = ctx.ob('translator/journal-trace', 'the real journal I/O trace of insert / remove / remove_weak / clear / batch / persist(mode) equals the journal-event projection of a fault-free symbolic path', ['journal::writer'])
    L = ['dir $DIR/db', 'open workers=0', 'ks a', 'trace_on']
    ops = [('insert', 'insert a 6b31 31'), ('remove', 'remove a 6b31'), ('remove_weak', 'remove_weak a 6b32'), ('clear', 'clear a'), ('batch', 'batch2 a 6b33 33 a 6b34 34')]
    for _o, cmd in ops:
        L += [cmd, 'trace_take']
    for md in ('buffer', 'syncdata', 'syncall'):
        L += ['insert a 6b35 35', 'trace_take', f'persist {md}', 'trace_take']
    L.append('close')
    try:
        spath, out = ctx.run_scenario('\n'.join(L) + '\n', tag='trace')
    except Exception as e:      # noqa
        ob.status = 'undecided'; ob.detail = f'trace scenario failed: {e!r}'; return
    tk = [r for _i, c, r in out if c == 'trace_take']
    native = {}
    for (o, _cmd), t in zip(ops, tk):
        native[o] = [x for x in t.strip('[]').split(',') if x]
    pers = {}
    for j, md in enumerate(('buffer', 'syncdata', 'syncall')):
        pers[md] = [x for x in tk[len(ops) + 2 * j + 1].strip('[]').split(',') if x]
    proj = {'J_APPEND': 'J_APPEND', 'J_FLUSH': 'J_FLUSH', 'F_SYNC_ALL': 'J_SYNC', 'F_SYNC_DATA': 'J_SYNC'}
    bad = []
    for o, _cmd in ops:
        kw = dict(n_items=2, value_types=['Value']) if o == 'batch' else {}
        ex, paths, recs = W.run_op(ctx, o, **kw)
        cands = set()
        for r in recs:
            if not r.ok:
                continue
            seq = tuple(proj[e.kind] for e in r.p.events if e.kind in proj)
            cands.add(seq)
        ob.reach += 1
        if tuple(native[o]) not in cands:
            bad.append(f'{o}: real trace {native[o]} is not among the symbolic fault-free traces {sorted(cands)[:4]}')
        else:
            ctx.traces_validated += 1
    # persist(mode) on a dirty buffer (manual persist is off, so the insert before flushed already: the buffer is clean)
    want = {'buffer': [[], ['J_FLUSH']], 'syncdata': [['J_SYNC'], ['J_FLUSH', 'J_SYNC']], 'syncall': [['J_SYNC'], ['J_FLUSH', 'J_SYNC']]}
    for md, t in pers.items():
        ob.reach += 1
        if t not in want[md]:
            bad.append(f'persist({md}): real trace {t}, expected one of {want[md]}')
        else:
            ctx.traces_validated += 1
    if bad:
        ob.status = 'undecided'; ob.detail = 'encoder/contract disagrees with the real code: ' + '; '.join(bad)[:600]
    else:
        ob.status = 'discharged'; ob.sample = {'native': native, 'persist': pers}


def native_power(ctx, extra=None):
    progs = [['w', 'w', 'p:syncdata', 'x', 'w', 'x', 'p:syncall', 'x', 'w', 'b', 'x'],
             ['w', 'p:buffer', 'x', 'w', 'p:syncall', 'x', 'b', 'p:syncdata', 'x'],
             ['b', 'p:syncall', 'x', 'w', 'p:buffer', 'p:syncdata', 'x'],
             ['w', 'B:syncall', 'x', 'w', 'B:syncdata', 'x', 'B:buffer', 'x'],                                            # batches with their own durability level
             ['w', 'p:syncall', 'c', 'p:syncall', 'x', 'w', 'p:syncdata', 'c', 'p:syncdata', 'x'],          # a clear is a write like any other
             ['v', 'w', 'r', 'x', 'p:syncall', 'x', 'v', 'w', 'r', 'v', 'p:syncdata', 'x']]                   # journal rotation: the sealed journal holds b's unflushed writes
    last = (False, None, 'not run')
    for i, st in enumerate((extra or []) + progs):
        for manual in (0, 1):
            r = crashimg.run_crash_workload(ctx, st, f'power-{i}-m{manual}', manual=manual, power_loss=True)
            if r[0]:
                return r
            last = r
    return last


def native_power_wrappers(ctx):
    last = (False, None, 'not run')
    for kind in ('opt', 'single'):
        for i, st in enumerate((['w', 'w', 'p:syncdata', 'x', 'w', 'p:syncall', 'x'], ['w', 'p:buffer', 'x', 'w', 'p:syncall', 'x'])):
            r = crashimg.run_crash_workload(ctx, st, f'power-{kind}-{i}', manual=1, power_loss=True, kind=kind)
            if r[0]:
                return r
            last = r
    return last


def native_power_tx(ctx):
    """transactions committed with an explicit sync-level durability survive the loss of everything that was not synced (both transactional databases; manual persist, so nothing else flushes)"""
    last = (False, None, 'not run')
    for kind in ('opt', 'single'):
        for i, st in enumerate((['w', 'T:syncall', 'x', 'w', 'T:syncdata', 'x'], ['T:buffer', 'x', 'w', 'T:syncall', 'x'])):
            for manual in (1, 0):
                r = crashimg.run_crash_workload(ctx, st, f'power-tx-{kind}-{i}-{manual}', manual=manual, power_loss=True, kind=kind)
                if r[0]:
                    return r
                last = r
    return last


def native_proc(ctx):
    last = (False, None, 'not run')
    for i, (st, manual) in enumerate(((['w', 'x', 'w', 'x', 'b', 'x'], 0), (['w', 'p:buffer', 'x', 'w', 'x', 'p:buffer', 'x'], 1), (['b', 'x', 'w', 'x'], 0))):
        r = crashimg.run_crash_workload(ctx, st, f'proc-{i}', manual=manual, power_loss=False, two_ks=True)
        if r[0]:
            return r
        last = r
    return last


def run(ctx):
    ctx.assumptions += [
        'F1: BufWriter::write_all appends to a buffer that may spill to the OS at any time; flush makes everything appended OS-visible',
        'F2: File::sync_all / sync_data make what is OS-visible durable; power loss keeps exactly the durable prefix of each journal',
        'healthy disk in the cursor model (fault paths are C13\'s subject); what fsync does on the device is outside the claim',
    ]
    recs = check_persist(ctx)
    check_dirty(ctx)
    check_rotate(ctx)
    check_db_persist(ctx)
    check_batch_durability(ctx)
    check_persist_wrappers(ctx)
    # a transaction's durability level must reach the batch it commits (the base commit builds that batch: C08's obligation, decided here with a power-loss replay)
    from . import c08
    c08.check_commit(ctx, confirm=lambda: native_power_tx(ctx))
    # durable data is appended behind whatever recovery left in the journal: a torn batch must be cut away completely (C03's obligation), or the next recovery stops at its
    # leftover and discards everything persisted since
    from . import c03
    c03.check_cuts(ctx, c03.SHAPES_QUICK[0], 0)
    validate_translator(ctx)
    check_auto_persist(ctx)
    check_cursor_model(ctx, recs)
    for o in ctx.obligations:
        ctx.samples.append(o.as_dict())
    return ctx.finish()


MUTANTS = [
    {'name': 'optimistic database persist always uses Buffer', 'edits': [('src/tx/optimistic/mod.rs', "        self.inner.persist(mode)", "        let _ = mode;\n        self.inner.persist(PersistMode::Buffer)")]},
    {'name': 'SyncData arm returns Ok without syncing', 'edits': [('src/journal/writer.rs', """            PersistMode::SyncData => self.file.get_mut().sync_data().inspect_err(|e| {
                log::error!(
                    "Failed to fsyncdata journal file at {}: {e:?}",
                    self.path.display(),
                );
            }),""", """            PersistMode::SyncData => Ok(()),""")]},
    {'name': 'persist syncs before flushing the buffer', 'edits': [('src/journal/writer.rs', """        if self.is_buffer_dirty {
            #[cfg(fjall_verif)]
            crate::verif::journal_io(crate::verif::FLUSH)?;
            self.file.flush().inspect_err(|e| {""", """        if mode == PersistMode::SyncAll {
            self.file.get_mut().sync_all()?;
        }
        if self.is_buffer_dirty {
            #[cfg(fjall_verif)]
            crate::verif::journal_io(crate::verif::FLUSH)?;
            self.file.flush().inspect_err(|e| {""")]},
    {'name': 'write_raw forgets is_buffer_dirty = true', 'edits': [('src/journal/writer.rs', """    ) -> crate::Result<usize> {
        self.is_buffer_dirty = true;

        let mut hasher = xxhash_rust::xxh3::Xxh3::default();
        let mut byte_count = 0;

        self.buf.clear();
        byte_count += self.write_start(1, seqno)?;
        self.buf.clear();

        serialize_marker_item(""", """    ) -> crate::Result<usize> {
        let mut hasher = xxhash_rust::xxh3::Xxh3::default();
        let mut byte_count = 0;

        self.buf.clear();
        byte_count += self.write_start(1, seqno)?;
        self.buf.clear();

        serialize_marker_item(""")]},
    {'name': 'rotate creates the new file before syncing the old one', 'edits': [('src/journal/writer.rs', """    pub fn rotate(&mut self) -> crate::Result<(PathBuf, PathBuf)> {
        self.persist(PersistMode::SyncAll)?;
""", """    pub fn rotate(&mut self) -> crate::Result<(PathBuf, PathBuf)> {
        self.persist(PersistMode::Buffer)?;
""")]},
    {'name': 'Database::persist downgrades SyncAll to SyncData... to Buffer', 'edits': [('src/db.rs', "        if let Err(e) = journal_writer.persist(mode) {", "        if let Err(e) = journal_writer.persist(if mode == PersistMode::SyncData { PersistMode::Buffer } else { mode }) {")]},
    {'name': 'batch durability ignored for sync modes', 'edits': [('src/batch/mod.rs', "            if let Err(e) = journal_writer.persist(mode) {", "            if let Err(e) = journal_writer.persist(PersistMode::Buffer) {\n                let _ = mode;")]},
    {'name': 'insert skips persist when the value is empty', 'edits': [('src/keyspace/mod.rs', """        if !self.config.manual_journal_persist {
            journal_writer
                .persist(crate::PersistMode::Buffer)
                .inspect_err(|e| {
                    log::error!("persist failed, which is a FATAL, and possibly hardware-related, failure: {e:?}");
                    self.is_poisoned.poison();
                })?;
        }

        #[cfg(fjall_verif)]
        crate::verif::pause("writer.before_apply");
        let (item_size, memtable_size) = self.tree.insert(key, value, seqno);""", """        if !self.config.manual_journal_persist && !value.is_empty() {
            journal_writer
                .persist(crate::PersistMode::Buffer)
                .inspect_err(|e| {
                    log::error!("persist failed, which is a FATAL, and possibly hardware-related, failure: {e:?}");
                    self.is_poisoned.poison();
                })?;
        }

        #[cfg(fjall_verif)]
        crate::verif::pause("writer.before_apply");
        let (item_size, memtable_size) = self.tree.insert(key, value, seqno);""")]},
    {'name': 'persist clears the dirty flag before flushing and returns early on Buffer', 'edits': [('src/journal/writer.rs', """        if self.is_buffer_dirty {
            #[cfg(fjall_verif)]""", """        if mode == PersistMode::Buffer && !self.path.as_os_str().is_empty() && self.buf.len() > 1_000_000 {
            return Ok(());
        }
        if self.is_buffer_dirty {
            #[cfg(fjall_verif)]""")]},
]
