"""C13 — fail-stop after a journal I/O failure.

M obligations over the MIR paths of every writer (insert / remove / remove_weak / clear / WriteBatch::commit,
transaction commits through it, Database::persist, the worker loop):
  fault-poisons      every journal write/flush/sync fault on a path ⇒ the call returns Err and a poison store
                     follows the fault before the return
  poison-gate        the poison flag is read while the journal lock is held and before the first journal
                     append / seqno draw; a set flag ⇒ Err, no journal append, no tree write, no publish
  worker-poisons     an Err from a worker tick poisons the database
Counterexamples are replayed natively with the fault injector (hook H2) before they are reported.
"""
import z3
from ..core import ret_is_err, ret_is_ok, obj_name
from ..symex import Obj, EnumV, Ref, Cell, deref, bv
from . import common as C

OPS = ['insert', 'remove', 'remove_weak', 'clear', 'batch']
K0, V0, K1, V1, K2, V2, K9, V9 = '6b30', '7630', '6b31', '7631', '6b32', '7632', '6b39', '7639'


def op_lines(op, tag='f'):
    if op == 'insert':
        return [f'insert a {K1} {V1}']
    if op == 'remove':
        return [f'remove a {K0}']
    if op == 'remove_weak':
        return [f'remove_weak a {K0}']
    if op == 'clear':
        return ['clear a']
    if op == 'batch':
        return [f'batch {tag} begin', f'batch {tag} insert a {K1} {V1}', f'batch {tag} insert b {K2} {V2}', f'batch {tag} commit']
    if op.startswith('persist'):
        return [f'persist {op.split(":")[1]}']
    raise ValueError(op)


def scenario(op, manual, mask, nth, short=-1, kind='plain'):
    L = ['dir $DIR/db', f'kind {kind}', f'open workers=0 manual_persist={manual}', f'ks a manual={manual}', f'ks b manual={manual}',
         f'insert a {K0} {V0}', f'insert b {K0} {V0}']
    if op.startswith('persist'):
        L.append(f'insert a {K1} {V1}')       # leaves the buffer dirty under manual persist
    L.append(f'fault {mask} {nth} {short} 0')
    L += op_lines(op)
    L.append('disarm')
    later = [f'insert a {K9} {V9}', f'remove b {K0}', 'batch l begin', f'batch l insert b {K9} {V9}', 'batch l commit',
             'persist buffer', 'clear b']
    L += later
    L += ['close', f'open workers=0 manual_persist={manual}', 'ks a', 'ks b', 'dump a', 'dump b']
    return '\n'.join(L) + '\n'


def expected_states(op):
    """allowed recovered contents: acknowledged prefix, optionally plus the (complete) failing operation"""
    a0 = {K0: V0}; b0 = {K0: V0}
    if op.startswith('persist'):
        a0 = {K0: V0, K1: V1}
    outs = [(dict(a0), dict(b0))]
    a1, b1 = dict(a0), dict(b0)
    if op == 'insert':
        a1[K1] = V1
    elif op in ('remove', 'remove_weak'):
        a1.pop(K0, None)
    elif op == 'clear':
        a1 = {}
    elif op == 'batch':
        a1[K1] = V1; b1[K2] = V2
    outs.append((a1, b1))
    return outs


def parse_dump(s):
    if not s.startswith('['):
        return None
    body = s[1:-1]
    d = {}
    if body:
        for kvp in body.split(','):
            k, v = kvp.split(':')
            d[k] = v
    return d


def native_check(ctx, op, manual, mask, nth, short=-1):
    """returns (violated, replay_path, detail)"""
    text = scenario(op, manual, mask, nth, short)
    spath, out = ctx.run_scenario(text, tag=f'{op.replace(":", "_")}-m{manual}-k{mask}-n{nth}-s{short}')
    lines = text.split('\n')
    res = {i: (cmd, r) for i, cmd, r in out}
    by_cmd = [(i, lines[i - 1] if 0 < i <= len(lines) else '?', r) for i, cmd, r in out]
    if any(cmd == 'CRASH' for _i, cmd, _r in out):
        return False, spath, 'driver crashed: ' + str(out[-1])
    fault_i = next(i for i, l, r in by_cmd if l.startswith('fault'))
    disarm_i = next(i for i, l, r in by_cmd if l.startswith('disarm'))
    close_i = next(i for i, l, r in by_cmd if l == 'close')
    fired = next(r for i, l, r in by_cmd if l.startswith('disarm'))
    if 'fired=1' not in fired:
        return False, spath, f'fault did not fire ({fired})'
    failing = [(l, r) for i, l, r in by_cmd if fault_i < i < disarm_i and (l.split()[0] in ('insert', 'remove', 'remove_weak', 'clear', 'persist') or l.endswith('commit'))]
    later = [(l, r) for i, l, r in by_cmd if disarm_i < i < close_i and (l.split()[0] in ('insert', 'remove', 'remove_weak', 'clear', 'persist') or l.endswith('commit'))]
    problems = []
    for l, r in failing:
        if not r.startswith('err'):
            problems.append(f'failing call `{l}` was acknowledged ({r}) although its journal I/O failed')
    for l, r in later:
        if not r.startswith('err'):
            problems.append(f'`{l}` acknowledged ({r}) after the journal failure')
    dumps = [parse_dump(r) for i, l, r in by_cmd if l.startswith('dump')]
    if len(dumps) == 2 and None not in dumps:
        got = (dumps[0], dumps[1])
        if not problems and got not in expected_states(op):
            problems.append(f'recovered content {got} is not the acknowledged prefix (allowed: {expected_states(op)})')
        elif problems and got not in expected_states(op):
            problems.append(f'and recovery yields {got}')
    else:
        reopen = [r for i, l, r in by_cmd if l.startswith('open')]
        problems.append(f'reopen/dump failed: {reopen[-1:]} {[r for i, l, r in by_cmd if l.startswith("dump")]}')
    return bool(problems), spath, '; '.join(problems) if problems else 'property held natively'


def check_fault_poisons(ctx, name, pattern, setup=None, opname=None, loop_bound=2):
    ob = ctx.ob(f'fault-poisons/{name}', f'{name}: every journal write/flush/sync fault ⇒ Err returned and poison stored before return', [pattern])
    ex, paths = ctx.run(pattern, setup=setup, cache_key=name, no_inline=C.NO_BACKPRESSURE, loop_bound=loop_bound)
    bad = []
    for p in C.returned(paths):
        for e in C.journal_fault_events(p):
            r, _ = ctx.sat(p.pc + [e.fault], ob)
            if r != z3.sat:
                continue
            ob.reach += 1
            poisoned = z3.Or(*[z3.BoolVal(True) for x in p.events if x.idx > e.idx and C.is_poison_store(x)]) if any(
                x.idx > e.idx and C.is_poison_store(x) for x in p.events) else z3.BoolVal(False)
            err = ret_is_err(p)
            claim = z3.And(err if err is not None else z3.BoolVal(False), poisoned)
            r2, m = ctx.sat(p.pc + [e.fault, z3.Not(claim)], ob)
            if r2 != z3.unsat:
                same_kind_before = sum(1 for x in p.events if x.kind == e.kind and x.idx < e.idx)
                manual = 0
                for c in p.pc:
                    s = str(c)
                    if 'manual_journal_persist' in s and not s.startswith('Not('):
                        manual = 1
                bad.append((p, e, same_kind_before, manual))
    if C.incomplete(paths):
        ob.status = 'undecided'
        ob.detail = 'executor could not finish: ' + str([p.notes[-1:] for p in C.incomplete(paths)][:3])
        return ob
    if ob.reach == 0:
        ob.status = 'undecided'; ob.detail = 'vacuous: no journal fault is reachable on any path'
        return ob
    if not bad:
        ob.status = 'discharged'
        ob.sample = {'function': name, 'paths': len(paths), 'fault_points': ob.reach}
        return ob
    # group by fault kind; replay the first of each role
    seen = set()
    for p, e, nth, manual in bad:
        kind = {'J_APPEND': 'write', 'J_FLUSH': 'flush', 'F_SYNC_ALL': 'sync', 'F_SYNC_DATA': 'sync'}[e.kind]
        role = f'{name}/journal-{kind}-error-not-fail-stop'
        if role in seen:
            continue
        seen.add(role)
        mask = {'write': 1, 'flush': 2, 'sync': 4}[kind]
        text = (f'{name}: path with a failing journal {kind} (#{nth} of its kind in the call) returns '
                f'{"Err" if ret_is_err(p) is not None and z3.is_true(z3.simplify(ret_is_err(p))) else "?"} without poisoning; events: '
                + ' · '.join(x.kind for x in p.events))
        op = opname or name

        def confirm(op=op, manual=manual, mask=mask, nth=nth):
            last = (False, None, 'not run')
            for short in (-1, 5):
                v, path, d = native_check(ctx, op, manual, mask, nth, short)
                last = (v, path, d)
                if v:
                    return last
            return last
        ctx.candidate(ob, role, text, confirm=confirm)
    if ob.status == 'undecided':
        ob.status = 'unconfirmed'
    return ob


def check_poison_gate(ctx, name, pattern, setup=None, loop_bound=2):
    ob = ctx.ob(f'poison-gate/{name}', f'{name}: poison flag read under the journal lock, before the first append/seqno draw; set ⇒ Err and no effect', [pattern])
    ex, paths = ctx.run(pattern, setup=setup, cache_key=name, no_inline=C.NO_BACKPRESSURE, loop_bound=loop_bound)
    bad = []
    for p in C.returned(paths):
        effects = [e for e in p.events if e.kind in ('J_APPEND', 'J_FLUSH', 'F_SYNC_ALL', 'F_SYNC_DATA', 'CTR_NEXT', 'T_INSERT', 'T_REMOVE', 'T_REMOVE_WEAK', 'T_CLEAR', 'CTR_FETCH_MAX')]
        if not effects:
            continue
        first = effects[0]
        lock = [e for e in p.events if C.is_journal_lock(e) and e.idx < first.idx]
        loads = [e for e in p.events if C.is_poison_load(e) and e.idx < first.idx and (lock and e.idx > lock[-1].idx)]
        ob.reach += 1
        if not loads:
            bad.append((p, 'no poison-flag read between taking the journal lock and the first effect'))
            continue
        # the flag value that was read must be false on every path that has effects
        val = loads[-1].res
        r, m = ctx.sat(p.pc + [val], ob)
        if r != z3.unsat:
            bad.append((p, 'a set poison flag does not prevent the effects'))
    if C.incomplete(paths):
        ob.status = 'undecided'; ob.detail = 'executor could not finish: ' + str([p.notes[-1:] for p in C.incomplete(paths)][:3])
        return ob
    if ob.reach == 0:
        ob.status = 'undecided'; ob.detail = 'vacuous: no path with effects'
        return ob
    if not bad:
        ob.status = 'discharged'; ob.sample = {'function': name, 'effect_paths': ob.reach}
        return ob
    p, why = bad[0]
    role = f'{name}/poison-flag-not-checked-under-journal-lock'
    text = f'{name}: {why}; events: ' + ' · '.join(x.kind for x in p.events[:12])
    ctx.candidate(ob, role, text, confirm=lambda: native_toctou(ctx, name))
    if ob.status == 'undecided':
        ob.status = 'unconfirmed'
    return ob


def native_toctou(ctx, name):
    """thread B runs `name` and parks in Journal::get_writer (before locking); the main thread then suffers a
    journal failure; B is released and must be refused."""
    opl = {'insert': f'insert a {K9} {V9}', 'remove': f'remove a {K0}', 'remove_weak': f'remove_weak a {K0}', 'clear': 'clear a',
           'batch': f'batch1 a {K9} {V9}', 'persist': 'persist buffer'}.get(name)
    if opl is None:
        return False, None, 'no native schedule template for ' + name
    L = ['dir $DIR/db', 'open workers=0 manual_persist=0', 'ks a', f'insert a {K0} {V0}',
         'arm_pause journal.get_writer', f'spawn B {opl}', 'wait_parked journal.get_writer 5000',
         'fault 1 0 -1 0', f'insert a {K1} {V1}', 'disarm', 'release journal.get_writer', 'join B', 'close']
    text = '\n'.join(L) + '\n'
    spath, out = ctx.run_scenario(text, tag=f'toctou-{name}')
    res = {cmd: r for _i, cmd, r in out}
    parked = [r for _i, cmd, r in out if cmd == 'wait_parked']
    joined = [r for _i, cmd, r in out if cmd == 'join']
    failing = [r for i, cmd, r in out if cmd == 'insert'][-1:]
    if not parked or not parked[0].startswith('ok'):
        return False, spath, f'thread did not park at the journal lock ({parked})'
    if not failing or not failing[0].startswith('err'):
        return False, spath, f'the injected failure did not fail the main-thread insert ({failing})'
    if joined and joined[0].startswith('ok'):
        return True, spath, f'`{opl}` started before and finished after a journal failure was acknowledged ({joined[0]})'
    return False, spath, f'held natively: {joined}'


def check_worker(ctx):
    ob = ctx.ob('worker-poisons', 'worker loop: an Err from worker_tick poisons the database before the thread exits',
                [r'worker_pool::<impl>::start::\{closure#0\}::\{closure#0\}'])
    cands = [f for f in ctx.prog.fns.values() if f.key.startswith('worker_pool::<impl>::start::{closure#0}') and 'worker_tick' in str(f.blocks)]
    if not cands:
        ob.status = 'undecided'; ob.detail = 'worker closure not found'
        return ob
    fn = cands[0]
    ex = ctx.executor(no_inline=[r'^worker_tick$'], loop_bound=2)
    paths = ex.run(fn)
    ctx.functions_encoded[fn.key] = ctx.prog.hashes.get(fn.name, '')
    ctx.paths_total += len(paths); ctx.events_total += sum(len(p.events) for p in paths)
    bad = []; bad2 = []
    for p in paths:
        ticks = [e for e in p.events if e.kind == 'CALL' and e.args.get('callee') == 'worker_tick']
        if not ticks or p.status != 'returned':
            continue
        if ret_is_err(p) is None:
            continue
        r, _ = ctx.sat(p.pc + [ret_is_err(p)], ob)
        if r != z3.sat:
            continue
        ob.reach += 1
        if not any(C.is_poison_store(x) for x in p.events):
            bad.append(p)
        elif not [x for x in p.events if x.kind == 'ATOMIC_FETCH_SUB']:
            bad2.append(p)
    if ob.reach == 0:
        ob.status = 'undecided'; ob.detail = 'vacuous: the closure never returns Err'
    elif bad:
        ctx.candidate(ob, 'worker/tick-error-not-fail-stop', 'worker closure returns Err without poisoning: ' + ' · '.join(x.kind for x in bad[0].events[:10]),
                      confirm=lambda: native_worker_crash(ctx))
    elif bad2:
        ctx.candidate(ob, 'worker/crashed-thread-still-counted', 'a worker that exits with an error poisons the database but stays counted as running: dropping the database waits for it forever, '
                      'so the instance can never be closed and the directory never reopened (recovery after the failure is part of the property)', confirm=lambda: native_worker_crash(ctx))
    else:
        ob.status = 'discharged'; ob.sample = {'err_paths': ob.reach}
    return ob


def check_worker_tick(ctx):
    """the worker loop poisons on an Err from worker_tick - so worker_tick itself must hand every journal failure on: the rotation of the journal (flush + fsync of the file
    being sealed), the journal position query (flushes the buffer) and journal maintenance"""
    pat = r'^(worker_pool::)?worker_tick$'
    ob = ctx.ob('worker-tick/journal-errors-propagate', 'worker_tick: an Err from journal rotation, from the journal position query or from journal maintenance is returned to the worker loop '
                '(which poisons the database); none of them is logged and dropped', [pat])
    from . import c10
    ex, paths = c10.run_tick(ctx)
    bad = []
    inc = [q for q in paths if q.status in ('error', 'timeout')]      # (paths cut by the loop bound are iterations of the stall / retry loops, not exits)
    if inc:
        ob.status = 'undecided'; ob.detail = 'executor: ' + str(inc[0].notes[-1:]); return ob
    WATCH = ('rotate_journal', 'JournalManager::maintenance', 'Writer::pos', 'flush::worker::run', 'compaction::worker::run')
    for p in paths:
        if p.status != 'returned':
            continue
        for e in p.events:
            if e.kind != 'CALL' or not e.args.get('callee', '').endswith(WATCH):
                continue
            res = e.res
            if not isinstance(res, EnumV) or isinstance(res.disc, int):
                continue
            # did this path take the call's error outcome?
            if ctx.sat(p.pc + [res.disc == bv(0)], ob)[0] != z3.unsat:
                continue
            ob.reach += 1
            if ret_is_err(p) is None or ctx.sat(p.pc + [z3.Not(ret_is_err(p))], ob)[0] != z3.unsat:
                bad.append((p, f'{e.args["callee"].split("::")[-1]} failed (journal I/O) but worker_tick goes on and returns Ok: the failure is swallowed, the database is not poisoned and keeps acknowledging writes')); break
        if bad:
            break
    if ob.reach == 0:
        ob.status = 'undecided'; ob.detail = 'vacuous: no failing journal call explored'
    elif not bad:
        ob.status = 'discharged'; ob.sample = {'error_paths': ob.reach}
    else:
        ctx.candidate(ob, 'worker-tick/journal-error-swallowed', f'{ob.id}: {bad[0][1]}', confirm=lambda: native_worker_crash(ctx))
    return ob


def native_worker_crash(ctx):
    """a worker thread hits a journal I/O failure (fsync of the journal being sealed at a flush tick): the database must be poisoned and later writes refused"""
    big = '62' * 200
    L = ['dir $DIR/db', 'rotation_threshold 0', 'workers_pausable 1', 'open workers=1', 'ks a memtable=64', 'arm_pause journal.get_writer', f'insert a 6b31 {big}',
         'wait_parked journal.get_writer 4000', 'fault 4 0 -1 1', 'release journal.get_writer', 'poisoned 5000', 'disarm', 'insert a 6b32 32', 'persist buffer', 'workers_pausable 0', 'rotation_threshold 64000000',
         'spawn_close D', 'join_timeout D 8000', 'open workers=0', 'ks a', 'get a 6b31', 'close']
    spath, out = ctx.run_scenario('\n'.join(L) + '\n', tag='worker-crash')
    rs = [(c, r) for _i, c, r in out]
    parked = [r for c, r in rs if c == 'wait_parked']
    if any(c == 'CRASH' for c, _r in rs):
        return False, spath, 'replay ended abnormally: ' + rs[-1][1][-200:]
    if not parked or not parked[0].startswith('ok'):
        return False, spath, f'the worker did not reach the rotation ({parked})'
    fired = [r for c, r in rs if c == 'disarm']
    if fired and 'fired=0' in fired[0]:
        return False, spath, 'the injected fault did not fire in the worker'
    po = [r for c, r in rs if c == 'poisoned']
    ins = [r for c, r in rs if c == 'insert']
    pe = [r for c, r in rs if c == 'persist']
    if po and po[0] != 'true':
        return True, spath, f'a worker thread\'s journal fsync failed ({fired}), but the database is not poisoned 5 s later; later operations: insert={ins[-1:]}, persist={pe}'
    if ins and ins[-1] == 'ok':
        return True, spath, f'a write is acknowledged after a worker thread\'s journal I/O failure: {ins[-1]}'
    jt = [r for c, r in rs if c == 'join_timeout']
    if jt and jt[-1] == 'pending':
        return True, spath, 'after a worker thread died of a journal I/O failure, dropping the database does not finish within 8 s (it waits for a thread that no longer exists): the instance cannot be closed, the directory cannot be reopened'
    op = [r for c, r in rs if c == 'open']
    g = [r for c, r in rs if c == 'get']
    if len(op) == 2 and op[1] != 'ok':
        return True, spath, f'reopening after the failure fails: {op[1]}'
    if g and not g[0].startswith('some:'):
        return True, spath, f'a write acknowledged before the failure is missing after reopen: {g[0]}'
    return False, spath, 'held natively'


def run(ctx):
    ctx.assumptions += [
        'F1/F2: each BufWriter::write_all / flush / File::sync_* may fail independently (one Bool fault variable per call)',
        'F3: std::sync::Mutex::lock never reports poisoning (no panic under the journal lock)',
        'E1: AbstractTree::insert/remove are infallible; AbstractTree::clear may fail',
        'backpressure / write-stall helpers after the critical section are not inlined (liveness only)',
        'batch size bounded by 2 items (quick) / 3 (thorough); loops over the batch unrolled accordingly',
    ]
    n_items = 2 if ctx.tier == 'quick' else 3
    for op in OPS:
        setup = C.batch_setup(n_items, value_types=['Value'] if ctx.tier == 'quick' else None) if op == 'batch' else None
        check_fault_poisons(ctx, op, C.WRITERS[op], setup=setup, loop_bound=n_items + 1)
        check_poison_gate(ctx, op, C.WRITERS[op], setup=setup, loop_bound=n_items + 1)
    check_fault_poisons(ctx, 'persist', r'^db::<impl>::persist$', opname='persist:syncall')
    check_poison_gate(ctx, 'persist', r'^db::<impl>::persist$')
    check_worker(ctx)
    check_worker_tick(ctx)
    for o in ctx.obligations:
        ctx.samples.append(o.as_dict())
    return ctx.finish()


MUTANTS = [
    {'name': 'revert: crashed worker stays counted as running', 'edits': [('src/worker_pool.rs', "                                    thread_counter.fetch_sub(1, Relaxed);\n\n                                    return Err(e);", "                                    return Err(e);")]},
    {'name': 'insert: no poison on write_raw error',
     'edits': [('src/keyspace/mod.rs', """            .write_raw(self.id, &key, &value, lsm_tree::ValueType::Value, seqno)
            .inspect_err(|_| {
                self.is_poisoned.poison();
            })?;""", """            .write_raw(self.id, &key, &value, lsm_tree::ValueType::Value, seqno)?;""")]},
    {'name': 'remove: poison flag read before taking the lock',
     'edits': [('src/keyspace/mod.rs', """        let key = key.into();

        let mut journal_writer = self.supervisor.journal.get_writer()?;

        // IMPORTANT: Check the poisoned flag after getting journal mutex, otherwise TOCTOU
        if self.is_poisoned.is_poisoned() {
            return Err(crate::Error::Poisoned);
        }

        let seqno = self.supervisor.seqno.next();

        journal_writer
            .write_raw(self.id, &key, &[], lsm_tree::ValueType::Tombstone, seqno)""", """        let key = key.into();

        if self.is_poisoned.is_poisoned() {
            return Err(crate::Error::Poisoned);
        }

        let mut journal_writer = self.supervisor.journal.get_writer()?;

        let seqno = self.supervisor.seqno.next();

        journal_writer
            .write_raw(self.id, &key, &[], lsm_tree::ValueType::Tombstone, seqno)""")]},
    {'name': 'worker swallows the tick error without poisoning',
     'edits': [('src/worker_pool.rs', """                                    poison_dart.poison();
""", """""")]},
    {'name': 'batch: persist failure returns Err without poisoning',
     'edits': [('src/batch/mod.rs', """            if let Err(e) = journal_writer.persist(mode) {
                self.db.is_poisoned.poison();
""", """            if let Err(e) = journal_writer.persist(mode) {
""")]},
    {'name': 'clear: persist error swallowed (call acknowledged)',
     'edits': [('src/keyspace/mod.rs', """                    self.is_poisoned.poison();
                    e
                })?;
        }

        self.tree.clear()""", """                    self.is_poisoned.poison();
                    e
                }).ok();
        }

        self.tree.clear()""")]},
    {'name': 'PoisonSignal::poison stores false',
     'edits': [('src/poison.rs', "self.0.store(true, std::sync::atomic::Ordering::Release);", "self.0.store(false, std::sync::atomic::Ordering::Release);")]},
]
