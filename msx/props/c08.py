"""C08 — transaction-local semantics: read-your-writes, last write wins, clean rollback.

M obligations on BaseTransaction (shared by both transactional databases; the wrappers are checked to forward), each as ONE step from an
arbitrary transaction state: the transaction owns an ephemeral memtable for keyspace `other` and — in scenario "has" — one for the keyspace `ks`
of the call (scenario "fresh": none yet); the private seqno counter is symbolic.
  write/<m>        insert / remove / remove_weak append exactly one entry — caller's key (and value), the right kind, seqno = the counter — to the
                   ephemeral memtable of THIS keyspace (created and registered under this keyspace if absent), then increase the counter by one;
                   no tree, journal or visibility effect (nothing is visible outside before commit)
  read/<m>         get / contains_key / size_of look the key up in THIS keyspace's ephemeral memtable at SeqNo::MAX first: found and not a tombstone
                   -> that entry's value, found tombstone -> absent, not found -> the tree at the transaction's snapshot instant; never another memtable
  scan/<m>         iter / range / prefix (first/last through iter) read the tree at the snapshot instant and hand it THIS keyspace's ephemeral memtable
                   together with the current counter (every own write has a smaller seqno, so all of them are merged in; E2: the highest seqno of a key wins,
                   tombstones hide)
  rmw/<m>          fetch_update / update_fetch / take: f is applied once to the value get() returns; Some(new) different from the old -> insert, None with an
                   old value -> remove, otherwise nothing; fetch_update/take return the old value, update_fetch the new one
  commit/final     commit submits ONE batch with the transaction's durability holding, per keyspace, exactly the first (= newest) entry of every run of equal
                   keys of the ephemeral memtable (E: memtable iteration is ordered by key, then seqno descending), unchanged; nothing written -> no batch
  rollback         rollback has no effect; the wrappers' commit/rollback forward to the base transaction
  single-writer    SingleWriterTxDatabase::write_tx takes the single-writer mutex BEFORE opening its snapshot and keeps the guard in the transaction;
                   WriteTransaction::commit releases it only after the base commit returned
Composition (E2 for memtables, counter >= 2^63 > every committed seqno): by induction over the program every read returns the last own write to the key, else the snapshot.
Native replay: a reference model of transactions (overlay map) against the real crate for both databases: programs with repeated overwrites, removes of
snapshot keys followed by scans, rmw operations, several keyspaces, commit / rollback / drop endings with reads from outside before and after;
two single-writer read-modify-write loops on two threads (no lost update).
"""
import z3
from ..core import ret_is_err, ret_is_ok, obj_name
from ..symex import Obj, EnumV, Ref, Cell, Ev, deref, bv
from ..contract import mk_seq, seq_items, canon_id, cid
from . import common as C

BASE = 'tx::write_tx::<impl>::'
EFFECTS = ('T_INSERT', 'T_REMOVE', 'T_REMOVE_WEAK', 'T_CLEAR', 'J_APPEND', 'J_FLUSH', 'CTR_NEXT', 'CTR_FETCH_MAX', 'CTR_SET', 'LOCK')


def mk_ks(ex, nm):
    knames = ex.src.struct_fields('KeyspaceInner')
    inner = Obj('keyspace::KeyspaceInner', nm, 'struct')
    tree = Obj('lsm_tree::AnyTree', nm + '.tree', 'opaque')
    inner.fields[knames.index('tree')] = Cell(tree)
    arc = Obj('Arc<KeyspaceInner>', nm + '.arc', 'struct'); arc.fields['ptr'] = Cell(inner)
    ks = Obj('keyspace::Keyspace', nm + '.handle', 'struct'); ks.fields[0] = Cell(arc)
    return ks, tree


def mk_tx(ex, st, has):
    """BaseTransaction with memtables {other: mt_other} (+ {ks: mt_ks} when has)"""
    names = ex.src.struct_fields('tx::write_tx::BaseTransaction')
    tx = Obj('tx::write_tx::BaseTransaction', 'tx', 'struct')
    ks, tree = mk_ks(ex, 'ks'); other, otree = mk_ks(ex, 'other')
    m = Obj('HashMap<Keyspace, Arc<Memtable>>', 'tx.memtables', 'opaque'); m.data['known_empty'] = True; m.data['entries'] = {}

    def mt(nm):
        o = Obj('lsm_tree::Memtable', nm, 'opaque'); o.data['mt_items'] = []
        a = Obj('Arc<Memtable>', nm + '.arc', 'struct'); a.fields['ptr'] = Cell(o)
        return a, o
    a_o, mt_other = mt('mt_other')
    m.data['entries'][canon_id(other)] = [z3.BoolVal(True), Cell(a_o), other]
    mt_ks = None
    if has:
        a_k, mt_ks = mt('mt_ks')
        m.data['entries'][canon_id(ks)] = [z3.BoolVal(True), Cell(a_k), ks]
    tx.fields[names.index('memtables')] = Cell(m)
    seq = z3.BitVec('tx.seqno', 64)
    st.pc.append(z3.UGE(seq, bv(2 ** 63))); st.pc.append(z3.ULT(seq, bv(2 ** 64 - 2)))
    tx.fields[names.index('seqno')] = Cell(seq)
    return {'tx': tx, 'ks': ks, 'tree': tree, 'other': other, 'mt_ks': mt_ks, 'mt_other': mt_other, 'seq': seq, 'map': m, 'names': names}


def run_method(ctx, name, has, extra_args=None, no_inline=(), loop_bound=3, by_ref_ks=True, overrides=()):
    pat = '^' + (BASE + name).replace('<', r'\<').replace('>', r'\>').replace('<impl>', '<impl>') + '$'
    pat = r'^tx::write_tx::<impl>::' + name + '$'
    fn = ctx.prog.find(pat)
    env = {}

    def setup(ex, st, fr):
        e = mk_tx(ex, st, has); env.update(e)
        a = fr.fn.args
        fr.locals[a[0]] = Cell(Ref(Cell(e['tx'])))
        ty = fr.fn.locals[a[1]].strip()
        fr.locals[a[1]] = Cell(Ref(Cell(e['ks'])) if ty.startswith('&') else e['ks'])
    ex = ctx.executor(loop_bound=loop_bound, no_inline=list(no_inline), timeout_s=90, overrides=list(overrides))
    paths = ex.run(fn, setup=setup)
    ctx.functions_encoded[fn.key] = ctx.prog.hashes.get(fn.name, '')
    for k in ex.stats['inlined']:
        f2 = ctx.prog.by_norm.get(k, [])
        if f2:
            ctx.functions_encoded[k] = ctx.prog.hashes.get(f2[0].name, '')
    ctx.paths_total += len(paths); ctx.events_total += sum(len(p.events) for p in paths)
    ctx.solver_s += ex.stats['solver_s']; ctx.queries += ex.stats['solver_calls']
    return ex, paths, env, fn


def arg_obj(p, fn, i):
    fr = p.st.frames[0]
    return deref(fr.locals[fn.args[i]].val)


def tx_after(p, fn):
    fr = p.st.frames[0]
    return deref(fr.locals[fn.args[0]].val)


def ks_memtable_of(ex, p, fn, env):
    """the memtable registered for `ks` in the transaction's map at the end of the path (Obj or None)"""
    tx = tx_after(p, fn)
    m = deref(tx.fields[env['names'].index('memtables')].val)
    ks_now = arg_obj(p, fn, 1)
    e = m.data['entries'].get(canon_id(ks_now))
    if e is None or not z3.is_true(z3.simplify(e[0]) if z3.is_expr(e[0]) else z3.BoolVal(bool(e[0]))):
        return None
    a = deref(e[1].val)
    return deref(a.fields['ptr'].val) if isinstance(a, Obj) and 'ptr' in a.fields else a


def finish(ctx, ob, bad, role, confirm=None):
    if ob.reach == 0:
        ob.status = 'undecided'; ob.detail = ob.detail or 'vacuous'
    elif not bad:
        ob.status = 'discharged'; ob.sample = {'paths': ob.reach}
    else:
        ctx.candidate(ob, role, f'{ob.id}: {bad[0][1]}', confirm=confirm or (lambda: native_tx(ctx)))


# ------------------------------------------------------------------ writes
def check_writes(ctx):
    kinds = {'insert': 0, 'remove': 'Tombstone', 'remove_weak': 'WeakTombstone'}
    for m in ('insert', 'remove', 'remove_weak'):
        ob = ctx.ob(f'write/{m}', f'BaseTransaction::{m}: one entry (caller\'s key/value, kind, seqno = counter) appended to this keyspace\'s ephemeral memtable; counter + 1; no effect outside the transaction', [BASE + m])
        bad = []
        for has in (True, False):
            ex, paths, env, fn = run_method(ctx, m, has)
            for p in paths:
                if p.status != 'returned':
                    if p.status in ('error', 'timeout', 'loop_bound'):
                        ob.detail = f'executor: {p.status} {p.notes[-1:]}'
                    continue
                ob.reach += 1
                ins = [e for e in p.events if e.kind == 'MT_INSERT']
                eff = [e for e in p.events if e.kind in EFFECTS]
                if eff:
                    bad.append((p, f'{eff[0].kind} on {obj_name(eff[0])}: a transaction write has an effect outside the transaction')); continue
                if len(ins) != 1:
                    bad.append((p, f'{len(ins)} memtable entries written')); continue
                e = ins[0]
                mt = ks_memtable_of(ex, p, fn, env)
                if mt is None or e.obj.uid != mt.uid:
                    bad.append((p, f'the entry is written to {obj_name(e)}, which is not registered as the ephemeral memtable of this keyspace')); continue
                if has and e.obj.name.rstrip("'") != 'mt_ks':
                    bad.append((p, 'an existing ephemeral memtable of this keyspace is replaced: earlier writes of the transaction are lost')); continue
                if e.obj.name.rstrip("'") == 'mt_other':
                    bad.append((p, 'the entry is written to the ephemeral memtable of another keyspace')); continue
                key = arg_obj(p, fn, 2)
                if cid(e.args.get('key')) != cid(key):
                    bad.append((p, 'the entry does not carry the caller\'s key')); continue
                if m == 'insert':
                    if cid(e.args.get('value')) != cid(arg_obj(p, fn, 3)):
                        bad.append((p, 'the entry does not carry the caller\'s value')); continue
                    vt = e.args.get('vtype')
                    if not isinstance(vt, EnumV) or vt.disc != 0:
                        bad.append((p, f'insert writes an entry of kind {vt}')); continue
                elif e.args.get('vtype') != kinds[m]:
                    bad.append((p, f'{m} writes an entry of kind {e.args.get("vtype")}')); continue
                sq = e.args.get('seqno')
                if not z3.is_expr(sq) or ctx.sat(p.pc + [sq != env['seq']], ob)[0] != z3.unsat:
                    bad.append((p, 'the entry\'s seqno is not the transaction\'s counter')); continue
                after = tx_after(p, fn).fields[env['names'].index('seqno')].val
                if not z3.is_expr(after) or ctx.sat(p.pc + [after != env['seq'] + 1], ob)[0] != z3.unsat:
                    bad.append((p, 'the counter is not increased by one after the write: the next write to the same key does not win / scans miss the latest write')); continue
        finish(ctx, ob, bad, f'tx.{m}/wrong-local-write')


# ------------------------------------------------------------------ point reads
def check_reads(ctx):
    treeev = {'get': 'T_GET', 'contains_key': 'T_CONTAINS', 'size_of': 'T_SIZE_OF'}
    for m in ('get', 'contains_key', 'size_of'):
        ob = ctx.ob(f'read/{m}', f'BaseTransaction::{m}: own ephemeral memtable of this keyspace first (SeqNo::MAX, caller\'s key); tombstone -> absent; otherwise the tree at the snapshot instant', [BASE + m])
        bad = []
        for has in (True, False):
            ex, paths, env, fn = run_method(ctx, m, has)
            inst_i = None
            for p in paths:
                if p.status != 'returned':
                    continue
                ob.reach += 1
                key = arg_obj(p, fn, 2)
                gets = [e for e in p.events if e.kind == 'MT_GET']
                tr = [e for e in p.events if e.kind.startswith('T_')]
                eff = [e for e in p.events if e.kind in EFFECTS or e.kind == 'MT_INSERT']
                if eff:
                    bad.append((p, f'a read has the effect {eff[0].kind}')); continue
                if any(e.obj.name.rstrip("'") == 'mt_other' for e in gets):
                    bad.append((p, 'the read consults the ephemeral memtable of another keyspace')); continue
                if has:
                    if len(gets) != 1 or gets[0].obj.name.rstrip("'") != 'mt_ks':
                        bad.append((p, 'the read does not consult the transaction\'s own writes to this keyspace')); continue
                    g = gets[0]
                    if cid(g.args.get('key')) != cid(key):
                        bad.append((p, 'own writes are looked up under another key')); continue
                    sq = g.args.get('seqno')
                    if not z3.is_expr(sq) or ctx.sat(p.pc + [sq != bv(2 ** 64 - 1)], ob)[0] != z3.unsat:
                        bad.append((p, 'own writes are not looked up at SeqNo::MAX: the newest own write may be invisible')); continue
                    found = ctx.sat(p.pc + [g.res.disc != 1], ob)[0] == z3.unsat
                    notfound = ctx.sat(p.pc + [g.res.disc != 0], ob)[0] == z3.unsat
                    if found:
                        if tr:
                            bad.append((p, 'the tree is read although the transaction has its own entry for the key')); continue
                        if ctx.sat(p.pc + [ret_is_err(p)], ob)[0] == z3.sat:
                            bad.append((p, 'error although the key is in the own writes')); continue
                        item = g.res.payloads['Some'].fields[0].val if 'Some' in g.res.payloads else None
                        tomb = None
                        it_ = deref(item)
                        if isinstance(it_, Obj):
                            tomb = it_.data.get('is_tombstone')
                            if tomb is None:
                                for c_ in it_.fields.values():
                                    k_ = deref(c_.val)
                                    if isinstance(k_, Obj) and k_.data.get('is_tombstone') is not None:
                                        tomb = k_.data['is_tombstone']
                        r = p.ret.payloads['Ok'].fields[0].val if isinstance(p.ret, EnumV) and 'Ok' in p.ret.payloads and 0 in p.ret.payloads['Ok'].fields else None
                        if tomb is None:
                            # the path did not even ask whether the entry is a tombstone
                            bad.append((p, 'an own entry is returned without checking whether it is a tombstone (a removed key reappears)')); continue
                        if m == 'contains_key':
                            if not z3.is_expr(r) or ctx.sat(p.pc + [r != z3.Not(tomb)], ob)[0] != z3.unsat:
                                bad.append((p, 'contains_key does not answer "own entry present and not a tombstone"')); continue
                        else:
                            if not isinstance(r, EnumV):
                                bad.append((p, 'result shape unknown')); continue
                            some = (bv(r.disc) if isinstance(r.disc, int) else r.disc) == 1
                            if ctx.sat(p.pc + [some != z3.Not(tomb)], ob)[0] != z3.unsat:
                                bad.append((p, 'an own tombstone is reported as present / an own value as absent')); continue
                        continue
                    if not notfound:
                        bad.append((p, 'own-entry lookup result not decided on this path')); continue
                else:
                    if gets:
                        bad.append((p, 'a memtable is consulted although the transaction never wrote to this keyspace')); continue
                # falls through to the tree
                want = treeev[m]
                if len(tr) != 1 or tr[0].kind != want or obj_name(tr[0]).rstrip("'") != 'ks.tree':
                    bad.append((p, f'tree reads {[e.kind + "@" + obj_name(e) for e in tr]}: expected one {want} on this keyspace\'s tree')); continue
                if cid(tr[0].args.get('key')) != cid(key):
                    bad.append((p, 'the tree is read under another key')); continue
                tx = tx_after(p, fn)
                nonce = deref(tx.fields[env['names'].index('nonce')].val) if env['names'].index('nonce') in tx.fields else None
                nn = ex.src.struct_fields('snapshot_nonce::SnapshotNonce')
                inst = nonce.fields[nn.index('instant')].val if isinstance(nonce, Obj) and nn.index('instant') in nonce.fields else None
                if inst is None or not z3.is_expr(tr[0].args.get('seqno')) or ctx.sat(p.pc + [tr[0].args['seqno'] != inst], ob)[0] != z3.unsat:
                    bad.append((p, 'the tree is not read at the transaction\'s snapshot instant')); continue
        finish(ctx, ob, bad, f'tx.{m}/wrong-local-read')


# ------------------------------------------------------------------ scans
def check_scans(ctx):
    ev = {'iter': 'T_ITER', 'range': 'T_RANGE', 'prefix': 'T_PREFIX'}
    for m in ('iter', 'range', 'prefix'):
        ob = ctx.ob(f'scan/{m}', f'BaseTransaction::{m}: tree scan at the snapshot instant merged with this keyspace\'s ephemeral memtable bounded by the current counter', [BASE + m])
        bad = []
        for has in (True, False):
            ex, paths, env, fn = run_method(ctx, m, has, no_inline=[r'Iter::new$', r'iter::<impl>::new$'])
            for p in paths:
                if p.status != 'returned':
                    continue
                ob.reach += 1
                tr = [e for e in p.events if e.kind.startswith('T_')]
                if len(tr) != 1 or tr[0].kind != ev[m] or obj_name(tr[0]).rstrip("'") != 'ks.tree':
                    bad.append((p, f'tree reads {[e.kind + "@" + obj_name(e) for e in tr]}')); continue
                idx = tr[0].args.get('index')
                tx = tx_after(p, fn)
                nonce = deref(tx.fields[env['names'].index('nonce')].val) if env['names'].index('nonce') in tx.fields else None
                nn = ex.src.struct_fields('snapshot_nonce::SnapshotNonce')
                inst = nonce.fields[nn.index('instant')].val if isinstance(nonce, Obj) and nn.index('instant') in nonce.fields else None
                if inst is None or ctx.sat(p.pc + [tr[0].args['seqno'] != inst], ob)[0] != z3.unsat:
                    bad.append((p, 'the scan does not read the tree at the transaction\'s snapshot instant')); continue
                if not isinstance(idx, EnumV):
                    bad.append((p, 'no ephemeral index argument')); continue
                d = bv(idx.disc) if isinstance(idx.disc, int) else idx.disc
                if has:
                    if ctx.sat(p.pc + [d != 1], ob)[0] != z3.unsat:
                        bad.append((p, 'the scan ignores the transaction\'s own writes to this keyspace (point reads and scans disagree)')); continue
                    tup = deref(idx.payloads['Some'].fields[0].val)
                    mt = deref(tup.fields[0].val) if isinstance(tup, Obj) and 0 in tup.fields else None
                    mt = deref(mt.fields['ptr'].val) if isinstance(mt, Obj) and 'ptr' in mt.fields else mt
                    if not isinstance(mt, Obj) or mt.name.rstrip("'") != 'mt_ks':
                        bad.append((p, f'the scan merges the ephemeral memtable {getattr(mt, "name", mt)}, not this keyspace\'s')); continue
                    bound = tup.fields[1].val if 1 in tup.fields else None
                    if not z3.is_expr(bound) or ctx.sat(p.pc + [bound != env['seq']], ob)[0] != z3.unsat:
                        bad.append((p, 'the ephemeral memtable is not read up to the current counter: the latest own writes are missing from scans (or reads beyond)')); continue
                else:
                    if ctx.sat(p.pc + [d != 0], ob)[0] != z3.unsat:
                        bad.append((p, 'an ephemeral memtable is merged although the transaction never wrote to this keyspace')); continue
        finish(ctx, ob, bad, f'tx.{m}/wrong-local-scan')
    for m, side in (('first_key_value', 'next'), ('last_key_value', 'next_back')):
        ob = ctx.ob(f'scan/{m}', f'BaseTransaction::{m} = self.iter(keyspace).{side}()', [BASE + m])
        bad = []
        fn = ctx.prog.find(r'^tx::write_tx::<impl>::' + m + '$')
        ex, paths = ctx.run(r'^tx::write_tx::<impl>::' + m + '$', cache_key='c08.' + m, loop_bound=2, no_inline=[r'^tx::write_tx::<impl>::iter$|BaseTransaction as Readable>::iter$|Readable>::iter$'])
        for p in paths:
            if p.status != 'returned':
                continue
            ob.reach += 1
            calls = [e.args.get('callee', '') for e in p.events if e.kind == 'CALL']
            its = [c for c in calls if c.endswith('::iter') or c.endswith('>::iter')]
            nx = [e for e in p.events if e.kind in ('IT_NEXT', 'IT_NEXT_BACK') or (e.kind == 'CALL' and e.args.get('callee', '').endswith(('::next', '::next_back')))]
            if not its:
                bad.append((p, f'does not go through iter() (calls: {calls[:4]})')); continue
            want = 'IT_NEXT' if side == 'next' else 'IT_NEXT_BACK'
            if not nx or not (nx[0].kind == want or nx[0].args.get('callee', '').endswith('::' + side)):
                bad.append((p, f'takes the wrong end of the scan ({[e.kind for e in nx][:2]})')); continue
        finish(ctx, ob, bad, f'tx.{m}/wrong-end')


# ------------------------------------------------------------------ read-modify-write
def check_rmw(ctx):
    for m in ('fetch_update', 'update_fetch'):
        ob = ctx.ob(f'rmw/{m}', f'BaseTransaction::{m}: f applied once to get(key); Some(new != old) -> insert(key, new); None with old -> remove(key); returns {"the old" if m == "fetch_update" else "the new"} value', [BASE + m])
        bad = []
        def ov_get(ex_, st, call):
            prev = EnumV('Option<UserValue>', z3.BitVec('prev.disc', 64), 'prev')
            st.pc.append(z3.ULE(prev.disc, bv(1)))
            o = Obj('Some', 'Some', 'variant'); o.fields[0] = Cell(Obj('lsm_tree::Slice', 'prev_value', 'bytes')); prev.payloads['Some'] = o
            f = ex_.contract.fault(ex_, st, 'TX_GET')
            r = ex_.mk_result(st, call.dst_ty, f, ok=prev)
            st.emit(Ev('TX_GET', args={'args': list(call.args), 'prev': prev}, fault=f, res=r, site=call.site))
            return r
        ex, paths, env, fn = run_method(ctx, m, True, no_inline=[r'^tx::write_tx::<impl>::(insert|remove)$|BaseTransaction::(insert|remove)$'],
                                        overrides=[(r'^tx::write_tx::<impl>::get$|BaseTransaction as Readable>::get$|Readable>::get$', ov_get)])
        for p in paths:
            if p.status != 'returned':
                continue
            calls = [e for e in p.events if e.kind == 'CALL']
            g = [e for e in p.events if e.kind == 'TX_GET']
            ins = [e for e in calls if e.args.get('callee', '').endswith('::insert')]
            rem = [e for e in calls if e.args.get('callee', '').endswith('::remove')]
            fc = [e for e in p.events if e.kind == 'CALL_FN']
            ob.reach += 1
            if len(g) != 1:
                bad.append((p, f'{len(g)} reads of the current value')); continue
            gerr = ctx.sat(p.pc + [z3.Not(g[0].fault)], ob)[0] != z3.sat
            if cid(g[0].args['args'][2]) != cid(arg_obj(p, fn, 2)) and not gerr:
                bad.append((p, 'the current value is read under another key')); continue
            if gerr:
                if fc or ins or rem:
                    bad.append((p, 'f / a write happens although reading the current value failed'))
                continue
            if len(fc) != 1:
                bad.append((p, f'f is called {len(fc)} times')); continue
            if fc[0].idx < g[0].idx:
                bad.append((p, 'f is called before the current value is read')); continue
            prev = g[0].args['prev']
            upd = fc[0].res
            if not isinstance(prev, EnumV) or not isinstance(upd, EnumV):
                bad.append((p, 'shapes unknown')); continue
            pd = bv(prev.disc) if isinstance(prev.disc, int) else prev.disc
            ud = bv(upd.disc) if isinstance(upd.disc, int) else upd.disc
            # what f saw
            seen = fc[0].args['args'][0] if fc[0].args.get('args') else None
            if isinstance(seen, EnumV):
                sd = bv(seen.disc) if isinstance(seen.disc, int) else seen.disc
                if ctx.sat(p.pc + [sd != pd], ob)[0] != z3.unsat:
                    bad.append((p, 'f does not see the value get() returned')); continue
            u_some = ctx.sat(p.pc + [ud != 1], ob)[0] == z3.unsat
            u_none = ctx.sat(p.pc + [ud != 0], ob)[0] == z3.unsat
            p_some = ctx.sat(p.pc + [pd != 1], ob)[0] == z3.unsat
            p_none = ctx.sat(p.pc + [pd != 0], ob)[0] == z3.unsat
            key = arg_obj(p, fn, 2)
            if u_none:
                if ins:
                    bad.append((p, 'f returned None, yet a value is inserted')); continue
                if not rem and ctx.sat(p.pc + [pd == 1], ob)[0] == z3.sat:
                    bad.append((p, 'f returned None for a key that can exist, but the key is not removed')); continue
                if p_none and rem:
                    bad.append((p, 'f returned None for an absent key, yet something is written')); continue
                if rem and cid(rem[0].args['args'][2]) != cid(key):
                    bad.append((p, 'another key is removed')); continue
            elif u_some:
                if rem:
                    bad.append((p, 'f returned a value but the key is removed')); continue
                if not ins and ctx.sat(p.pc + [pd == 0], ob)[0] == z3.sat:
                    bad.append((p, 'f returned a value for a key that can be absent, but nothing is inserted')); continue
                if ins:
                    a = ins[0].args['args']
                    if cid(a[2]) != cid(key):
                        bad.append((p, 'the new value is inserted under another key')); continue
                    newv = upd.payloads['Some'].fields[0].val if 'Some' in upd.payloads and 0 in upd.payloads['Some'].fields else None
                    derived = isinstance(deref(a[3]), Obj) and deref(a[3]).name.startswith(upd.name + '.Some')      # payload of a clone of f's result
                    if not derived and (newv is None or cid(a[3]) != cid(newv)):
                        bad.append((p, 'the value inserted is not the one f returned')); continue
                if len(ins) > 1:
                    bad.append((p, 'several inserts')); continue
            else:
                bad.append((p, 'result of f not decided on this path')); continue
            # return value
            if ctx.sat(p.pc + [ret_is_ok(p)], ob)[0] != z3.sat:
                bad.append((p, 'error although the read succeeded')); continue
            r = p.ret.payloads['Ok'].fields[0].val if 'Ok' in p.ret.payloads and 0 in p.ret.payloads['Ok'].fields else None
            want = prev if m == 'fetch_update' else upd
            if not isinstance(r, EnumV):
                bad.append((p, 'return shape unknown')); continue
            rd = bv(r.disc) if isinstance(r.disc, int) else r.disc
            wd = pd if m == 'fetch_update' else ud
            if ctx.sat(p.pc + [rd != wd], ob)[0] != z3.unsat:
                bad.append((p, f'returns {"the new" if m == "fetch_update" else "the old"} value\'s presence instead of the documented one')); continue
            if ctx.sat(p.pc + [rd == 1], ob)[0] == z3.sat:
                rv = r.payloads['Some'].fields[0].val if 'Some' in r.payloads and 0 in r.payloads['Some'].fields else None
                wv = want.payloads['Some'].fields[0].val if 'Some' in want.payloads and 0 in want.payloads['Some'].fields else None
                if r is not want and (rv is None or wv is None or cid(rv) != cid(wv)):
                    bad.append((p, f'the value returned is not the {"previous" if m == "fetch_update" else "updated"} one')); continue
        finish(ctx, ob, bad, f'tx.{m}/wrong-rmw')
    ob = ctx.ob('rmw/take', 'BaseTransaction::take = fetch_update with a closure that always returns None', [BASE + 'take'])
    ex, paths = ctx.run(r'^tx::write_tx::<impl>::take$', cache_key='c08.take', loop_bound=2, no_inline=[r'fetch_update$'])
    bad = []
    for p in paths:
        if p.status != 'returned':
            continue
        ob.reach += 1
        fu = [e for e in p.events if e.kind == 'CALL' and e.args.get('callee', '').endswith('fetch_update')]
        if len(fu) != 1:
            bad.append((p, 'take does not go through fetch_update exactly once')); continue
        clo = deref(fu[0].args['args'][3]) if len(fu[0].args.get('args', [])) > 3 else None
        loc = clo.data.get('loc') if isinstance(clo, Obj) else None
        cf = ex.prog.closures.get(loc) if loc else None
        if cf is None:
            bad.append((p, 'closure body not found')); continue
        # the closure body must produce None on every path
        ok = True
        for s2, v in ex.call_closure(p.st.clone()[0], clo, [ex.mk_enum('Option<&UserValue>', 'Some', [Obj('lsm_tree::Slice', 'x', 'bytes')])]):
            if not isinstance(v, EnumV) or v.disc != 0:
                ok = False
        if not ok:
            bad.append((p, 'take\'s closure can return a value: the key is not removed'))
        if fu[0].res is not p.ret and not (isinstance(p.ret, EnumV) and isinstance(fu[0].res, EnumV) and str(p.ret.disc) == str(fu[0].res.disc)):
            bad.append((p, 'take does not return what fetch_update returned'))
    finish(ctx, ob, bad, 'tx.take/wrong')


# ------------------------------------------------------------------ commit
def check_commit(ctx, confirm=None, shape=None, suffix=''):
    pat = r'^tx::write_tx::<impl>::commit$'
    ob = ctx.ob('commit/final' + suffix, 'BaseTransaction::commit: one batch with the transaction\'s durability; per keyspace the newest entry of every key (first of each run of equal keys), unchanged, '
                'whatever the other keyspaces of the transaction contain; no writes -> no batch', [BASE + 'commit'])
    SHAPE = shape or ((('ks', 2), ('other', 2)) if ctx.tier == 'quick' else (('ks', 3), ('other', 2)))
    fn = ctx.prog.find(pat)
    env = {}
    ENT = []          # (entry name, keyspace name, index within keyspace)
    for kn, n in SHAPE:
        for i in range(n):
            ENT.append((f'{kn}.e{i}', kn, i))

    def eqv(a, b):
        a, b = sorted((a, b))
        return z3.Bool(f'same_key[{a}|{b}]')

    def axioms():
        names = [e for e, _k, _i in ENT]
        ax = []
        for x in names:
            for y in names:
                for z_ in names:
                    if len({x, y, z_}) == 3:
                        ax.append(z3.Implies(z3.And(eqv(x, y), eqv(y, z_)), eqv(x, z_)))
        # memtable iteration is sorted by key: inside one keyspace equal keys are adjacent
        for kn, n in SHAPE:
            for i in range(n):
                for j in range(i + 2, n):
                    for m_ in range(i + 1, j):
                        ax.append(z3.Implies(eqv(f'{kn}.e{i}', f'{kn}.e{j}'), z3.And(eqv(f'{kn}.e{i}', f'{kn}.e{m_}'), eqv(f'{kn}.e{m_}', f'{kn}.e{j}'))))
        return ax

    def setup(ex, st, fr):
        names = ex.src.struct_fields('tx::write_tx::BaseTransaction')
        tx = Obj('tx::write_tx::BaseTransaction', 'tx', 'struct')
        m = Obj('HashMap<Keyspace, Arc<Memtable>>', 'tx.memtables', 'opaque'); m.data['known_empty'] = True; m.data['entries'] = {}
        empty = z3.Bool('tx.nothing_written')
        pairs = []; kss = {}
        for kn, n in SHAPE:
            ks, _tree = mk_ks(ex, kn)
            mt = Obj('lsm_tree::Memtable', 'mt_' + kn, 'opaque')
            mt.data['iter_items'] = [Obj('lsm_tree::InternalValue', f'{kn}.e{i}', 'struct') for i in range(n)]
            a = Obj('Arc<Memtable>', f'mt_{kn}.arc', 'struct'); a.fields['ptr'] = Cell(mt)
            m.data['entries'][canon_id(ks)] = [z3.Not(empty), Cell(a), ks]
            pairs.append((ks, a)); kss[kn] = ks
        m.data['iter_pairs'] = pairs
        tx.fields[names.index('memtables')] = Cell(m)
        dur = EnumV('Option<PersistMode>', z3.BitVec('tx.durability.disc', 64), 'tx.durability')
        st.pc.append(z3.ULE(dur.disc, bv(1)))
        for c in axioms():
            st.pc.append(c)
        tx.fields[names.index('durability')] = Cell(dur)
        env.update({'tx': tx, 'kss': kss, 'dur': dur, 'empty': empty, 'names': names})
        fr.locals[fr.fn.args[0]] = Cell(tx)

    def ov_mt_iter(ex, st, call):
        mt = deref(call.args[0])
        if isinstance(mt, Obj) and 'iter_items' in mt.data:
            from ..contract import mk_iter
            return mk_iter(ex, st, call.dst_ty, mk_seq('', mt.data['iter_items'], 'mt_iter'), False)
        return NotImplemented

    def ov_map_into_iter(ex, st, call):
        m = deref(call.args[0])
        if isinstance(m, Obj) and 'iter_pairs' in m.data:
            from ..contract import mk_iter
            cells = []
            for k, v in m.data['iter_pairs']:
                t = Obj('(Keyspace, Arc<Memtable>)', 'pair', 'tuple'); t.fields[0] = Cell(k); t.fields[1] = Cell(v)
                cells.append(Cell(t))
            return mk_iter(ex, st, call.dst_ty, mk_seq('', cells, 'memtables'), False)
        return NotImplemented

    def entry_of(o):
        """name of the memtable entry an (owned or borrowed, possibly cloned) key object belongs to"""
        n = getattr(deref(o), 'name', '')
        for e, _k, _i in ENT:
            if n.startswith(e + '.'):
                return e
        return None

    def ov_key_eq(ex, st, call):
        a, b = entry_of(call.args[0]), entry_of(call.args[1])
        if a is None or b is None:
            return NotImplemented
        if a == b:
            return z3.BoolVal(True)
        return eqv(a, b)

    def ov_batch_commit(ex, st, call):
        b = deref(call.args[0])
        st.emit(Ev('BATCH_COMMIT', args={'batch': b}, site=call.site))
        f = ex.contract.fault(ex, st, 'BATCH_COMMIT')
        return ex.mk_result(st, call.dst_ty, f, ok=ex.unit())
    ex = ctx.executor(loop_bound=max(n for _k, n in SHAPE) + len(SHAPE) + 2, timeout_s=180,
                      overrides=[(r'Memtable::iter$', ov_mt_iter), (r'HashMap<.*> as IntoIterator>::into_iter$', ov_map_into_iter),
                                 (r'<&?(lsm_tree::)?Slice as PartialEq(<.*>)?>::(eq|ne)$', ov_key_eq),
                                 (r'OwnedWriteBatch::commit$|batch::<impl>::commit$|WriteBatch::commit$', ov_batch_commit)])
    paths = ex.run(fn, setup=setup)
    ctx.functions_encoded[fn.key] = ctx.prog.hashes.get(fn.name, '')
    ctx.paths_total += len(paths); ctx.solver_s += ex.stats['solver_s']; ctx.queries += ex.stats['solver_calls']
    bad = []
    inc = [p for p in paths if p.status in ('error', 'timeout', 'loop_bound')]
    if inc:
        ob.status = 'undecided'; ob.detail = f'executor: {inc[0].status} {inc[0].notes[-1:]}'; return
    bn = ex.src.struct_fields('batch::WriteBatch')
    itn = ex.src.struct_fields('batch::item::Item')
    for p in paths:
        if p.status != 'returned':
            continue
        ob.reach += 1
        bc = [e for e in p.events if e.kind == 'BATCH_COMMIT']
        if ctx.sat(p.pc + [z3.Not(env['empty'])], ob)[0] != z3.sat:
            if bc:
                bad.append((p, 'a batch is committed although the transaction wrote nothing'))
            continue
        if len(bc) != 1:
            bad.append((p, f'{len(bc)} batches committed for one transaction (not all-at-once)')); continue
        b = bc[0].args['batch']
        data = seq_items(deref(b.fields[bn.index('data')].val)) if isinstance(b, Obj) and bn.index('data') in b.fields else None
        if data is None:
            bad.append((p, 'batch contents unknown')); continue
        got = {}
        problem = None
        order = []
        for c in data:
            it = deref(c.val)
            e = entry_of(it.fields[itn.index('key')].val) if itn.index('key') in it.fields else None
            if e is None:
                problem = 'a batch item does not carry the key of a memtable entry'; break
            if e in got:
                problem = f'entry {e} is submitted twice'; break
            got[e] = it; order.append(e)
        if problem:
            bad.append((p, problem)); continue
        for e, kn, i in ENT:
            present = e in got
            if i == 0:
                if not present:
                    problem = f'the newest entry of the first key of keyspace {kn} ({e}) is missing from the batch: a write of the transaction is lost at commit'
                    break
                continue
            prev = f'{kn}.e{i - 1}'
            if present and ctx.sat(p.pc + [eqv(prev, e)], ob)[0] != z3.unsat:
                problem = f'{e} is submitted although it can be an older entry of the same key as {prev}: the commit does not apply exactly the final write per key'; break
            if not present and ctx.sat(p.pc + [z3.Not(eqv(prev, e))], ob)[0] != z3.unsat:
                problem = f'{e} is dropped although its key can differ from the previous entry of its keyspace ({prev}): a write of the transaction is lost at commit'; break
        if problem:
            bad.append((p, problem)); continue
        for e, it in got.items():
            kn = [k for n_, k, _i in ENT if n_ == e][0]
            ksf = it.fields.get(itn.index('keyspace'))
            if ksf is None or canon_id(ksf.val) != canon_id(env['kss'][kn]):
                problem = f'entry {e} is submitted for another keyspace'; break
            vv = deref(it.fields[itn.index('value')].val) if itn.index('value') in it.fields else None
            if entry_of(vv) != e or '.value' not in getattr(vv, 'name', ''):
                problem = f'entry {e} is submitted with another value ({getattr(vv, "name", vv)})'; break
            vt = it.fields[itn.index('value_type')].val if itn.index('value_type') in it.fields else None
            if not str(getattr(vt, 'name', vt)).startswith(e + '.'):
                problem = f'entry {e} is submitted with another kind ({getattr(vt, "name", vt)})'; break
        if problem:
            bad.append((p, problem)); continue
        d = b.fields[bn.index('durability')].val if bn.index('durability') in b.fields else None
        if not isinstance(d, EnumV) or str(d.disc) != str(env['dur'].disc):
            bad.append((p, 'the batch does not carry the transaction\'s durability'))
    finish(ctx, ob, bad, 'tx.commit/not-final-write-per-key', confirm)


def check_rollback_and_wrappers(ctx):
    ob = ctx.ob('rollback', 'rollback of the base transaction and of both wrappers has no effect outside the transaction; wrappers\' commit forwards to the base commit', [BASE + 'rollback'])
    bad = []
    for pat in (r'^tx::write_tx::<impl>::rollback$', r'^single_writer::write_tx::<impl>::rollback$', r'^optimistic::write_tx::<impl>::rollback$'):
        ex, paths = ctx.run(pat, cache_key='c08.' + pat, loop_bound=2)
        for p in paths:
            if p.status != 'returned':
                continue
            ob.reach += 1
            eff = [e for e in p.events if e.kind in EFFECTS and not (e.kind == 'LOCK')]
            eff = [e for e in eff if e.kind in ('T_INSERT', 'T_REMOVE', 'T_REMOVE_WEAK', 'T_CLEAR', 'J_APPEND', 'CTR_NEXT') or (e.kind == 'CALL' and 'commit' in e.args.get('callee', ''))]
            cm = [e for e in p.events if e.kind == 'CALL' and e.args.get('callee', '').endswith('::commit')]
            if eff or cm:
                bad.append((p, f'{pat}: rollback has the effect {(eff or cm)[0].kind} {(eff or cm)[0].args.get("callee", "")}'))
    finish(ctx, ob, bad, 'tx.rollback/has-effect')
    ob = ctx.ob('single-writer', 'SingleWriterTxDatabase::write_tx: single-writer mutex taken before the snapshot is opened, guard kept in the transaction; commit releases it after the base commit', [
        'single_writer::<impl>::write_tx', 'single_writer::write_tx::<impl>::commit'])
    bad = []
    ex, paths = ctx.run(r'^single_writer::<impl>::write_tx$', cache_key='c08.sw.write_tx', loop_bound=2, no_inline=[r'SnapshotTracker::open$'])
    for p in paths:
        if p.status != 'returned':
            continue
        ob.reach += 1
        lk = [e for e in p.events if e.kind == 'LOCK' and 'single_writer_lock' in obj_name(e)]
        op = [e for e in p.events if e.kind == 'CALL' and e.args.get('callee', '').endswith('SnapshotTracker::open')]
        ul = [e for e in p.events if e.kind == 'UNLOCK' and 'single_writer_lock' in obj_name(e)]
        if not lk:
            bad.append((p, 'write_tx does not take the single-writer lock: two write transactions can overlap and lose an update')); continue
        if not op or op[0].idx < lk[0].idx:
            bad.append((p, 'the snapshot is opened before the single-writer lock is held: the transaction can read a state that another writer is about to change')); continue
        if ul:
            bad.append((p, 'the single-writer lock is released before the transaction is returned')); continue
    ex, paths = ctx.run(r'^single_writer::write_tx::<impl>::commit$', cache_key='c08.sw.commit', loop_bound=2, no_inline=[r'^tx::write_tx::<impl>::commit$|BaseTransaction::commit$'])
    for p in paths:
        if p.status != 'returned':
            continue
        ob.reach += 1
        cm = [e for e in p.events if e.kind == 'CALL' and e.args.get('callee', '').endswith('::commit')]
        ul = [e for e in p.events if e.kind == 'UNLOCK']
        if len(cm) != 1:
            bad.append((p, 'the wrapper\'s commit does not call the base commit exactly once')); continue
        if any(u.idx < cm[0].idx for u in ul):
            bad.append((p, 'the single-writer lock is released before the commit is applied')); continue
    finish(ctx, ob, bad, 'single-writer/lock-discipline', confirm=lambda: native_rmw_race(ctx))


def check_single_writer_helpers(ctx):
    """the single-operation helpers of SingleWriterTxKeyspace are write transactions of their own: they must take the single-writer lock (write_tx) and commit,
    never write to the inner keyspace directly - otherwise they slip between the read and the write of another thread's read-modify-write transaction"""
    for m in ('insert', 'remove', 'remove_weak', 'fetch_update', 'update_fetch', 'take'):
        pat = r'^single_writer::keyspace::<impl>::' + m + '$'
        ob = ctx.ob(f'helpers/through-lock-{m}', f'SingleWriterTxKeyspace::{m}: runs inside a write transaction obtained from write_tx() (single-writer lock) and commits it; no direct write to the inner keyspace', [pat])
        try:
            ex, paths = ctx.run(pat, cache_key='c08.helper.' + m, loop_bound=2,
                                no_inline=[r'write_tx$', r'WriteTransaction::(insert|remove|remove_weak|commit|fetch_update|update_fetch|rollback)$',
                                           r'^single_writer::write_tx::<impl>::(insert|remove|remove_weak|commit|fetch_update|update_fetch)$',
                                           r'^keyspace::<impl>::(insert|remove|remove_weak)$', r'Keyspace::(insert|remove|remove_weak)$'])
        except KeyError as e:
            ob.status = 'undecided'; ob.detail = f'function not found: {e}'; continue
        bad = []
        for p in paths:
            if p.status != 'returned' or ctx.sat(p.pc + [ret_is_ok(p)], ob)[0] != z3.sat:
                continue
            ob.reach += 1
            calls = [e.args.get('callee', '') for e in p.events if e.kind == 'CALL']
            direct = [c for c in calls if c.endswith(('Keyspace::insert', 'Keyspace::remove', 'Keyspace::remove_weak')) or c.startswith('keyspace::<impl>::')]
            eff = [e for e in p.events if e.kind in ('T_INSERT', 'T_REMOVE', 'T_REMOVE_WEAK', 'J_APPEND')]
            wt = [i for i, c in enumerate(calls) if c.endswith('write_tx')]
            cm = [i for i, c in enumerate(calls) if c.endswith('::commit')]
            txw = [i for i, c in enumerate(calls) if c.endswith(tuple(x + t for x in ('WriteTransaction::', 'write_tx::<impl>::') for t in ((m, 'fetch_update') if m == 'take' else (m,))))]
            if direct or eff:
                bad.append((p, f'writes to the inner keyspace directly ({(direct or [eff[0].kind])[0]}) without the single-writer lock: it can land between the read and the write of another thread\'s transaction (lost update)')); continue
            if not wt or not cm or not txw or not (wt[0] < txw[0] < cm[-1]):
                bad.append((p, f'acknowledged without write_tx -> transaction write -> commit in this order (calls: {calls[:5]})')); continue
        finish(ctx, ob, bad, f'SingleWriterTxKeyspace.{m}/bypasses-lock', confirm=lambda: native_helper_race(ctx))


def native_helper_race(ctx):
    """one thread runs read-modify-write transactions on a counter, another thread bumps the same counter with the fetch_update helper... approximated with two
    rmw loops plus helper writes to a second key that must all be there; then the plain overlay programs"""
    N = 3000
    L = ['dir $DIR/db', 'kind single', 'open workers=0', 'ks a', f'spawn_rmw A a 6b31 {N} y', f'spawn_rmw B a 6b31 {N} y']
    bases = [100000 * (i + 1) for i in range(10)]
    for bse in bases:
        L += ['sleep 4', f'hinsert a 6b31 {bse.to_bytes(8, "big").hex()}']
    L += ['join A', 'join B', 'get a 6b31', 'close']
    spath, out = ctx.run_scenario('\n'.join(L) + '\n', tag='helper-race')
    if any(c == 'CRASH' for _i, c, _r in out):
        return True, spath, 'crash: ' + out[-1][2][-200:]
    g = [r for _i, c, r in out if c == 'get']
    if g and g[0].startswith('some:'):
        val = int(g[0].split(':')[1], 16)
        # every helper write is a transaction of its own: whatever the interleaving, the last one (10000) is followed only by increments
        if val < bases[-1] or val > bases[-1] + 2 * N:
            return True, spath, (f'two threads run read-modify-write transactions on a counter while the main thread sets it to 100000, 200000, ... 1000000 with the single-operation helper: '
                                 f'the final value is {val}; with the helper serialised against the transactions it must lie in [{bases[-1]}, {bases[-1] + 2 * N}] (a helper write was overwritten by a transaction that had read before it)')
    return native_tx(ctx)


# ------------------------------------------------------------------ native: transaction reference model
KEYS = ['6b31', '6b32', '6b33', '6b34']


def tx_programs():
    """each program: (db kind, committed prefix ops, tx ops, ending)"""
    k1, k2, k3, k4 = KEYS
    P = {}
    P['ryow-overwrite-many'] = ([('insert', 'a', k1, '30'), ('insert', 'a', k2, '32')],
                                [('insert', 'a', k1, '31'), ('get', 'a', k1), ('insert', 'a', k1, '3132'), ('insert', 'a', k1, '313233'), ('get', 'a', k1), ('scan', 'a'), ('remove', 'a', k1), ('get', 'a', k1), ('scan', 'a'),
                                 ('insert', 'a', k1, '39'), ('scan', 'a')])
    P['remove-snapshot-key-then-scan'] = ([('insert', 'a', k1, '31'), ('insert', 'a', k2, '32'), ('insert', 'a', k3, '33')],
                                          [('remove', 'a', k2), ('get', 'a', k2), ('contains', 'a', k2), ('size_of', 'a', k2), ('scan', 'a'), ('rscan', 'a'), ('first', 'a'), ('last', 'a'), ('remove', 'a', k3), ('last', 'a'),
                                           ('remove', 'a', k1), ('first', 'a'), ('scan', 'a'), ('pscan', 'a'), ('range', 'a'), ('len', 'a')])
    P['rmw'] = ([('insert', 'a', k1, '31')],
                [('take', 'a', k1), ('get', 'a', k1), ('take', 'a', k1), ('fetch_update', 'a', k1, '41'), ('get', 'a', k1), ('fetch_update', 'a', k1, '42'), ('update_fetch', 'a', k1, '43'), ('get', 'a', k1),
                 ('update_fetch', 'a', k2, '44'), ('scan', 'a'), ('take', 'a', k2), ('scan', 'a'), ('update_fetch_none', 'a', k1), ('get', 'a', k1), ('scan', 'a'), ('update_fetch_none', 'a', k3)])
    P['two-keyspaces'] = ([('insert', 'a', k1, '31'), ('insert', 'b', k1, '41')],
                          [('insert', 'a', k2, '32'), ('get', 'b', k2), ('scan', 'b'), ('remove', 'b', k1), ('scan', 'a'), ('scan', 'b'), ('insert', 'b', k2, '42'), ('get', 'a', k2), ('get', 'b', k2)])
    P['same-key-two-keyspaces'] = ([('insert', 'a', k1, '31'), ('insert', 'b', k1, '41')],
                                   [('insert', 'a', k2, '32'), ('insert', 'b', k2, '42'), ('remove', 'a', k1), ('insert', 'b', k1, '4141'), ('insert', 'a', k3, '33'), ('insert', 'b', k3, '43'), ('scan', 'a'), ('scan', 'b')])
    P['weak-and-empty'] = ([('insert', 'a', k1, '31')],
                           [('remove_weak', 'a', k1), ('get', 'a', k1), ('scan', 'a'), ('insert', 'a', k2, '00'), ('get', 'a', k2), ('size_of', 'a', k2), ('scan', 'a')])
    P['flushed-snapshot'] = ([('insert', 'a', k1, '31'), ('insert', 'a', k2, '32'), ('flush', 'a')],
                             [('insert', 'a', k1, '3939'), ('remove', 'a', k2), ('scan', 'a'), ('pscan', 'a'), ('range', 'a'), ('get', 'a', k1), ('get', 'a', k2), ('insert', 'a', k2, '38'), ('rscan', 'a')])
    return P


def run_tx_program(ctx, name, kind, pre, ops, ending):
    L = ['dir $DIR/db', f'kind {kind}', 'open workers=0', 'ks a', 'ks b']
    model = {'a': {}, 'b': {}}
    for op in pre:
        if op[0] == 'insert':
            L.append(f'insert {op[1]} {op[2]} {op[3] or "-"}'); model[op[1]][op[2]] = op[3]
        elif op[0] == 'flush':
            L += [f'rotate {op[1]}', 'worker_drain']
    L.append('tx t begin')
    local = {k: dict(v) for k, v in model.items()}
    expect = []

    def fmt_list(d, rev=False):
        ks = sorted(d, reverse=rev)
        return '[' + ','.join(f'{k}:{d[k]}' for k in ks) + ']'
    for op in ops:
        o = op[0]
        if o == 'insert':
            L.append(f'tx t insert {op[1]} {op[2]} {op[3] or "-"}'); local[op[1]][op[2]] = op[3]
        elif o in ('remove', 'remove_weak'):
            L.append(f'tx t {o} {op[1]} {op[2]}'); local[op[1]].pop(op[2], None)
        elif o == 'get':
            L.append(f'tx t get {op[1]} {op[2]}'); v = local[op[1]].get(op[2]); expect.append((len(L) - 1, 'none' if v is None else f'some:{v}' if v else 'some:', op))
        elif o == 'contains':
            L.append(f'tx t contains_key {op[1]} {op[2]}'); expect.append((len(L) - 1, 'true' if op[2] in local[op[1]] else 'false', op))
        elif o == 'size_of':
            L.append(f'tx t size_of {op[1]} {op[2]}'); v = local[op[1]].get(op[2]); expect.append((len(L) - 1, 'none' if v is None else f'some:{len(v) // 2}', op))
        elif o == 'scan':
            L.append(f'tx t iter {op[1]}'); expect.append((len(L) - 1, fmt_list(local[op[1]]), op))
        elif o == 'pscan':
            L.append(f'tx t prefix {op[1]}'); expect.append((len(L) - 1, fmt_list(local[op[1]]), op))
        elif o == 'range':
            L.append(f'tx t range {op[1]}'); expect.append((len(L) - 1, fmt_list(local[op[1]]), op))
        elif o == 'rscan':
            L.append(f'tx t iter_rev {op[1]}'); expect.append((len(L) - 1, fmt_list(local[op[1]], True), op))
        elif o in ('first', 'last'):
            L.append(f'tx t {o}_key_value {op[1]}'); d = local[op[1]]
            kk = (sorted(d)[0] if o == 'first' else sorted(d)[-1]) if d else None
            expect.append((len(L) - 1, 'none' if kk is None else f'{kk}:{d[kk]}', op))
        elif o == 'len':
            L.append(f'tx t len {op[1]}'); expect.append((len(L) - 1, str(len(local[op[1]])), op))
        elif o == 'take':
            L.append(f'tx t take {op[1]} {op[2]}'); v = local[op[1]].pop(op[2], None); expect.append((len(L) - 1, 'none' if v is None else f'some:{v}', op))
        elif o == 'fetch_update':
            L.append(f'tx t fetch_update {op[1]} {op[2]} {op[3]}'); v = local[op[1]].get(op[2]); local[op[1]][op[2]] = op[3]; expect.append((len(L) - 1, 'none' if v is None else f'some:{v}', op))
        elif o == 'update_fetch_none':
            L.append(f'tx t update_fetch_none {op[1]} {op[2]}'); local[op[1]].pop(op[2], None); expect.append((len(L) - 1, 'none', op))
        elif o == 'update_fetch':
            L.append(f'tx t update_fetch {op[1]} {op[2]} {op[3]}'); local[op[1]][op[2]] = op[3]; expect.append((len(L) - 1, f'some:{op[3]}', op))
    # nothing visible outside before the ending
    for n in ('a', 'b'):
        L.append(f'dump {n}'); expect.append((len(L) - 1, fmt_list(model[n]), ('outside-before', n)))
    L.append(f'tx t {ending}')
    final = local if ending == 'commit' else model
    for n in ('a', 'b'):
        L.append(f'dump {n}'); expect.append((len(L) - 1, fmt_list(final[n]), (f'outside-after-{ending}', n)))
    L += ['close', 'open workers=0', 'ks a', 'ks b']
    for n in ('a', 'b'):
        L.append(f'dump {n}'); expect.append((len(L) - 1, fmt_list(final[n]), (f'after-reopen-{ending}', n)))
    L.append('close')
    spath, out = ctx.run_scenario('\n'.join(L) + '\n', tag=f'tx-{kind}-{name}-{ending}')
    if any(c == 'CRASH' for _i, c, _r in out):
        return True, spath, f'{name}/{kind}: crash ' + out[-1][2][-200:]
    res = {i: r for i, _c, r in out}
    for idx, want, op in expect:
        got = res.get(idx + 1, '?')
        g2 = got
        if want != g2:
            hist = ' ; '.join(l for l in L[5:idx + 1])
            return True, spath, f'program {name} ({kind}, ending {ending}): `{L[idx]}` answered {got}, the transaction model says {want} (after: {hist[-300:]})'
    return False, spath, 'agrees'


def native_tx_outside(ctx):
    """reads inside a write transaction layer the own writes over its SNAPSHOT: a write made outside after the transaction began stays invisible to every read method"""
    k1, k2 = KEYS[0], KEYS[1]
    for kind in ('single', 'opt'):
        L = ['dir $DIR/db', f'kind {kind}', 'open workers=0', 'ks a', f'insert a {k1} 31', 'tx t begin', f'tx t get a {k1}', f'insert a {k1} 393939', f'insert a {k2} 3232',
             f'tx t get a {k1}', f'tx t size_of a {k1}', f'tx t contains_key a {k2}', 'tx t iter a', 'tx t len a', f'tx t insert a {k1} 3535', f'tx t get a {k1}', f'tx t size_of a {k1}', 'tx t iter a', 'tx t rollback', 'close']
        want = {6: 'some:31', 9: 'some:31', 10: 'some:1', 11: 'false', 12: f'[{k1}:31]', 13: '1', 15: 'some:3535', 16: 'some:2', 17: f'[{k1}:3535]'}
        spath, out = ctx.run_scenario('\n'.join(L) + '\n', tag=f'tx-outside-{kind}')
        if any(c == 'CRASH' for _i, c, _r in out):
            return True, spath, 'crash: ' + out[-1][2][-200:]
        res = {i: r for i, _c, r in out}
        for idx, w in want.items():
            if res.get(idx + 1) != w:
                return True, spath, f'{kind}: `{L[idx]}` answered {res.get(idx + 1)} after another writer changed the key outside the transaction; the transaction\'s snapshot says {w}'
    return False, spath, 'outside writes stay invisible'


def native_tx(ctx):
    last = (False, None, 'not run')
    n = 0
    v, path, d = native_tx_outside(ctx)
    if v:
        return v, path, d
    for kind in ('single', 'opt'):
        for name, (pre, ops) in tx_programs().items():
            for ending in ('commit', 'rollback', 'drop'):
                v, path, d = run_tx_program(ctx, name, kind, pre, ops, ending)
                n += 1
                if v:
                    return True, path, d
                last = (False, path, f'{n} transaction programs agree with the overlay model')
    return last


def native_rmw_race(ctx):
    """two threads, N read-modify-write transactions each on one counter key: the final value must be 2N"""
    N = 200
    for kind in ('single', 'opt'):
        L = ['dir $DIR/db', f'kind {kind}', 'open workers=0', 'ks a', f'spawn_rmw A a 6b31 {N} y', f'spawn_rmw B a 6b31 {N} y', 'join A', 'join B', 'get a 6b31', 'close']
        spath, out = ctx.run_scenario('\n'.join(L) + '\n', tag=f'rmw-race-{kind}')
        if any(c == 'CRASH' for _i, c, _r in out):
            return True, spath, 'crash: ' + out[-1][2][-200:]
        g = [r for _i, c, r in out if c == 'get']
        want = 'some:' + (2 * N).to_bytes(8, 'big').hex()
        if g and g[0] != want:
            got = int(g[0].split(':')[1], 16) if g[0].startswith('some:') else None
            return True, spath, f'{kind}: two threads x {N} read-modify-write transactions ended with counter = {got}, expected {2 * N}: updates were lost'
    v, path, d = native_tx(ctx)
    if v:
        return v, path, d
    return False, spath, 'no update lost; ' + d


def run(ctx):
    check_writes(ctx)
    check_reads(ctx)
    check_scans(ctx)
    check_rmw(ctx)
    check_commit(ctx)
    if ctx.tier != 'quick':
        # deeper run of equal keys inside one keyspace (four entries: every split of the run into 1..4 keys), and three keyspaces of one entry
        check_commit(ctx, shape=(('ks', 4), ('other', 1)), suffix='/run-of-4')
        check_commit(ctx, shape=(('ks', 1), ('other', 1), ('third', 1)), suffix='/three-keyspaces')
    check_rollback_and_wrappers(ctx)
    check_single_writer_helpers(ctx)
    ctx.assumptions += [
        'E2 for the ephemeral memtable (lsm_tree::Memtable): get(key, SeqNo::MAX) returns the entry of that key with the highest seqno; iteration is ordered by key, then seqno descending; '
        'a tree scan handed (memtable, bound) merges the memtable entries with seqno < bound over the snapshot, the highest seqno of a key winning, tombstones hiding the key',
        'the private counter starts at 2^63, above every committed seqno (lsm-tree reserves the MSB range)',
        'bounds: one step from an arbitrary transaction state with two keyspaces; commit over ephemeral memtables of 2+2 entries (quick), 3+2, 4+1 and 1+1+1 entries (thorough) with symbolic key equalities',
        'the optimistic wrapper additionally records conflict information (C07); WriteBatch::commit applies the batch atomically (C06)',
    ]
    for o in ctx.obligations:
        ctx.samples.append(o.as_dict())
    return ctx.finish()


MUTANTS = [
    {'name': 'single-writer helper insert writes to the inner keyspace directly', 'edits': [('src/tx/single_writer/keyspace.rs', "        let mut tx = self.db.write_tx();\n        tx.insert(self, key, value);\n        tx.commit()?;\n        Ok(())", "        self.inner.insert(key, value)")]},
    {'name': 'counter not increased after insert', 'edits': [('src/tx/write_tx.rs', "                lsm_tree::ValueType::Value,\n            ));\n\n        self.seqno += 1;", "                lsm_tree::ValueType::Value,\n            ));")]},
    {'name': 'scan bound is counter - 1', 'edits': [('src/tx/write_tx.rs', "                .map(|mt| (mt, self.seqno)),\n        );\n\n        Iter::new(self.nonce.clone(), iter)\n    }\n\n    fn range", "                .map(|mt| (mt, self.seqno - 1)),\n        );\n\n        Iter::new(self.nonce.clone(), iter)\n    }\n\n    fn range")]},
    {'name': 'get returns own tombstone as value', 'edits': [('src/tx/write_tx.rs', "                return Ok(ignore_tombstone_value(item).map(|x| x.value));\n            }\n        }\n\n        let res = keyspace.tree.get(key, self.nonce.instant)?;", "                return Ok(Some(item.value));\n            }\n        }\n\n        let res = keyspace.tree.get(key, self.nonce.instant)?;")]},
    {'name': 'contains_key ignores own tombstones', 'edits': [('src/tx/write_tx.rs', "                return Ok(!item.key.is_tombstone());", "                return Ok(true);")]},
    {'name': 'size_of reads the tree at SeqNo::MAX', 'edits': [('src/tx/write_tx.rs', "        let res = keyspace.tree.size_of(key, self.nonce.instant)?;", "        let res = keyspace.tree.size_of(key, SeqNo::MAX)?;")]},
    {'name': 'prefix scan ignores own writes', 'edits': [('src/tx/write_tx.rs', "        let iter = keyspace.tree.prefix(\n            prefix,\n            self.nonce.instant,\n            self.memtables\n                .get(keyspace)\n                .cloned()\n                .map(|mt| (mt, self.seqno)),\n        );", "        let iter = keyspace.tree.prefix(prefix, self.nonce.instant, None);")]},
    {'name': 'fetch_update returns the new value', 'edits': [('src/tx/write_tx.rs', "            self.remove(keyspace, key);\n        }\n\n        Ok(prev)", "            self.remove(keyspace, key);\n        }\n\n        Ok(f2)"), ('src/tx/write_tx.rs', "        let updated = f(prev.as_ref());\n\n        if let Some(value) = updated {", "        let updated = f(prev.as_ref());\n        let f2 = updated.clone();\n\n        if let Some(value) = updated {")]},
    {'name': 'update_fetch does not remove on None', 'edits': [('src/tx/write_tx.rs', "        } else if prev.is_some() {\n            self.remove(keyspace, key);\n        }\n\n        Ok(updated)", "        }\n\n        Ok(updated)")]},
    {'name': 'commit keeps the oldest entry per key', 'edits': [('src/tx/write_tx.rs', "                if let Some(prev_key) = &prev_key {\n                    if item.key.user_key == prev_key {\n                        continue;\n                    }\n                }\n", "                if let Some(prev_key) = &prev_key {\n                    if item.key.user_key == prev_key {\n                        batch.data.pop();\n                    }\n                }\n")]},
    {'name': 'commit submits every entry', 'edits': [('src/tx/write_tx.rs', "                    if item.key.user_key == prev_key {\n                        continue;\n                    }", "                    if item.key.user_key == prev_key {\n                    }")]},
    {'name': 'single-writer snapshot opened before the lock', 'edits': [('src/tx/single_writer/mod.rs', "        let guard = self.single_writer_lock.lock().expect(\"poisoned tx lock\");\n\n        let mut write_tx = WriteTransaction::new(\n            self.clone(),\n            self.inner.supervisor.snapshot_tracker.open(),\n            guard,\n        );", "        let nonce = self.inner.supervisor.snapshot_tracker.open();\n        let guard = self.single_writer_lock.lock().expect(\"poisoned tx lock\");\n\n        let mut write_tx = WriteTransaction::new(\n            self.clone(),\n            nonce,\n            guard,\n        );")]},
    {'name': 'remove writes into a fresh memtable each time', 'edits': [('src/tx/write_tx.rs', "    pub(super) fn remove<K: Into<UserKey>>(&mut self, keyspace: &Keyspace, key: K) {\n        self.memtables\n            .entry(keyspace.clone())\n            .or_insert_with(|| Arc::new(Memtable::new(0)))", "    pub(super) fn remove<K: Into<UserKey>>(&mut self, keyspace: &Keyspace, key: K) {\n        self.memtables.insert(keyspace.clone(), Arc::new(Memtable::new(0)));\n        self.memtables\n            .entry(keyspace.clone())\n            .or_insert_with(|| Arc::new(Memtable::new(0)))")]},
]
