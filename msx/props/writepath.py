"""Facts about the write path (Keyspace::{insert,remove,remove_weak,clear}, WriteBatch::commit) shared by C01, C02, C06,
C12 and C14: every function is executed once symbolically; each property asserts its own claims over the same paths."""
import z3
from ..core import ret_is_err, ret_is_ok, obj_name
from ..symex import Obj, EnumV, Ref, Cell, deref, bv
from ..contract import cid
from . import common as C

TREE_WRITES = ('T_INSERT', 'T_REMOVE', 'T_REMOVE_WEAK', 'T_CLEAR')
KIND_TAG = {'insert': 0, 'remove': 1, 'remove_weak': 2}
TREE_FOR = {'insert': ('T_INSERT',), 'remove': ('T_REMOVE',), 'remove_weak': ('T_REMOVE', 'T_REMOVE_WEAK'), 'clear': ('T_CLEAR',)}


class Rec:
    pass


def is_seqno_counter(e):
    n = obj_name(e)
    return 'supervisor' in n and n.rstrip('→').endswith('seqno') and 'snapshot_tracker' not in n


def is_visible_counter(e):
    return 'snapshot_tracker' in obj_name(e)


def run_op(ctx, op, n_items=2, value_types=None):
    setup = C.batch_setup(n_items, value_types=value_types) if op == 'batch' else None
    ex, paths = ctx.run(C.WRITERS[op], setup=setup, cache_key=f'wp.{op}.{n_items}.{value_types}', no_inline=C.NO_BACKPRESSURE,
                        loop_bound=n_items + 1)
    recs = []
    for p in paths:
        r = Rec(); r.p = p; r.ex = ex
        r.ok = None
        if p.status == 'returned' and ret_is_ok(p) is not None:
            r.ok = ctx.sat(p.pc + [ret_is_ok(p)])[0] == z3.sat and ctx.sat(p.pc + [ret_is_err(p)])[0] == z3.unsat
        ev = p.events
        r.locks = [e for e in ev if C.is_journal_lock(e)]
        r.unlocks = [e for e in ev if C.is_journal_unlock(e)]
        r.nexts = [e for e in ev if e.kind == 'CTR_NEXT' and is_seqno_counter(e)]
        r.appends = [e for e in ev if e.kind == 'J_APPEND']
        r.flushes = [e for e in ev if e.kind == 'J_FLUSH']
        r.syncs = [e for e in ev if e.kind in ('F_SYNC_ALL', 'F_SYNC_DATA')]
        r.tree = [e for e in ev if e.kind in TREE_WRITES]
        r.publish = [e for e in ev if e.kind == 'CTR_FETCH_MAX' and is_visible_counter(e)]
        r.visible_writes = [e for e in ev if e.kind in ('CTR_FETCH_MAX', 'CTR_SET', 'CTR_NEXT') and is_visible_counter(e)]
        r.deleted_loads = [e for e in ev if e.kind == 'ATOMIC_LOAD' and 'is_deleted' in obj_name(e)]
        recs.append(r)
    return ex, paths, recs


def self_keyspace(ex, p):
    """(KeyspaceInner obj of `self`, its id value, its tree obj) for the single-operation writers"""
    fr = p.st.frames[0]
    root = fr.locals[fr.fn.args[0]].val
    names = ex.src.struct_fields('KeyspaceInner')
    from .c05 import find_objs
    inner = find_objs(root, lambda o: o.ty.split('<')[0].endswith('KeyspaceInner'))
    if not inner:
        return None, None, None
    o = inner[0]
    idc = o.fields.get(names.index('id')); tc = o.fields.get(names.index('tree'))
    tree = tc.val if tc is not None else None
    if isinstance(tree, EnumV):
        tree = tree.data.get('as_obj', tree)
    return o, (idc.val if idc is not None else None), tree


def arg_value(p, name):
    fr = p.st.frames[0]
    for a in fr.fn.args:
        if fr.fn.debug.get(a) == name:
            return fr.locals[a].val
    return None


def journal_segments(r):
    segs = []
    for e in r.appends:
        segs += list(e.args.get('bytes', []))
    return segs


def seg_values(segs, kind):
    return [s[1] for s in segs if s[0] == kind]
