"""Symbolic harness around Database::recover (shared by C02, C04, C11, C12).

The real `recover` body is executed from MIR.  The environment is replaced by stubs with symbolic content:
  - version check / directory lock / worker pool / lsm-tree config chain: succeed (opaque)
  - Journal::recover: one active journal, no sealed journals (the sealed path is exercised through
    recover_sealed_memtables separately), was_active_created = false
  - recover_keyspaces: installs N keyspaces (symbolic distinct ids, own tree objects)           [real code: see C12/C18]
  - the journal reader yields B batches with symbolic seqnos; every item/clear carries a symbolic keyspace id that may or
    may not resolve to one of the keyspaces (MetaKeyspace::resolve_id forks)
  - per keyspace: get_highest_persisted_seqno / get_highest_seqno are symbolic Options, the latter constrained by the
    contract E8 (≥ persisted, ≥ every seqno inserted during this replay)
"""
import z3
from ..symex import Obj, EnumV, Ref, Cell, Ev, deref, bv
from ..contract import mk_seq, mk_iter, canon_id, cid
from . import common as C

OPAQUE = [r'WorkerPool::start$', r'SnapshotTracker::gc$', r'FlushManager::enqueue$']


class Env:
    pass


def mk_keyspace(ex, st, j):
    names = ex.src.struct_fields('KeyspaceInner')
    inner = Obj('keyspace::KeyspaceInner', f'ks{j}', 'struct')
    kid = z3.BitVec(f'ks{j}.id', 64)
    tree = Obj('lsm_tree::AnyTree', f'ks{j}.tree', 'opaque')
    name = Obj('byteview::StrView', f'ks{j}.name', 'str')
    inner.fields[names.index('id')] = Cell(kid)
    inner.fields[names.index('tree')] = Cell(tree)
    inner.fields[names.index('name')] = Cell(name)
    arc = Obj('Arc<KeyspaceInner>', f'ks{j}.arc', 'struct'); arc.fields['ptr'] = Cell(inner)
    ks = Obj('keyspace::Keyspace', f'ks{j}.handle', 'struct'); ks.fields[0] = Cell(arc)
    tree.data['persisted'] = (z3.Bool(f'ks{j}.has_persisted'), z3.BitVec(f'ks{j}.persisted', 64))
    tree.data['inserted'] = []
    return {'handle': ks, 'inner': inner, 'id': kid, 'tree': tree, 'name': name}


def mk_batches(ex, st, shape, symbolic_kinds=False):
    """shape: list of (n_items, n_clears)"""
    rn = ex.src.struct_fields('journal::batch_reader::ReadBatchItem')
    bn = ex.src.struct_fields('journal::batch_reader::Batch')
    out = []
    for i, (ni, nc) in enumerate(shape):
        items = []
        descs = []
        for k in range(ni):
            it = Obj('journal::batch_reader::ReadBatchItem', f'b{i}.item{k}', 'struct')
            kid = z3.BitVec(f'b{i}.item{k}.ksid', 64)
            key = Obj('lsm_tree::Slice', f'b{i}.item{k}.key', 'bytes'); val = Obj('lsm_tree::Slice', f'b{i}.item{k}.value', 'bytes')
            if symbolic_kinds:
                vt = EnumV('lsm_tree::ValueType', z3.BitVec(f'b{i}.item{k}.vt', 64), f'b{i}.item{k}.vt')
                st.pc.append(z3.Or(vt.disc == 0, vt.disc == 1, vt.disc == 2))
            else:
                vt = EnumV('lsm_tree::ValueType', (0, 1, 2)[(i + k) % 3], f'b{i}.item{k}.vt')
            it.fields[rn.index('keyspace_id')] = Cell(kid); it.fields[rn.index('key')] = Cell(key)
            it.fields[rn.index('value')] = Cell(val); it.fields[rn.index('value_type')] = Cell(vt)
            items.append(it); descs.append({'ksid': kid, 'key': key, 'value': val, 'vt': vt.disc})
        clears = [z3.BitVec(f'b{i}.clear{k}.ksid', 64) for k in range(nc)]
        b = Obj('journal::batch_reader::Batch', f'batch{i}', 'struct')
        seq = z3.BitVec(f'b{i}.seqno', 64)
        st.pc.append(z3.ULT(seq, bv(2 ** 62)))
        b.fields[bn.index('seqno')] = Cell(seq)
        b.fields[bn.index('items')] = Cell(mk_seq('Vec<ReadBatchItem>', items, f'b{i}.items'))
        b.fields[bn.index('cleared_keyspaces')] = Cell(mk_seq('Vec<u64>', clears, f'b{i}.clears'))
        out.append({'obj': b, 'seqno': seq, 'items': descs, 'clears': clears})
    return out


def run_recover(ctx, n_ks=2, shape=((2, 0), (1, 1)), loop_bound=None, symbolic_kinds=False, sealed_shape=None, track_sealed_call=False, reader_error_at=None):
    """returns (executor, paths, env)"""
    fn = ctx.prog.find(r'^db::<impl>::recover$')
    env = Env()
    env.ks = []; env.batches = []
    env.sealed = sealed_shape is not None
    rd_shape = sealed_shape if env.sealed else shape
    env.meta_persisted = (z3.Bool('meta.has_persisted'), z3.BitVec('meta.persisted', 64))

    def ov_ok_unit(ex, st, call):
        return ex.mk_enum(call.dst_ty, 'Ok', [ex.unit()])

    def ov_sealed_stub(ex, st, call):
        from ..contract import seq_items
        v = deref(call.args[1])
        its = seq_items(v) if isinstance(v, Obj) else None
        order = [getattr(deref(c.val), 'name', '?').rstrip("'") for c in its] if its is not None else None
        st.emit(Ev('RECOVER_SEALED', args={'order': order}, site=call.site))
        return ex.mk_enum(call.dst_ty, 'Ok', [ex.unit()])

    def ov_lock(ex, st, call):
        st.emit(Ev('DIR_LOCK', site=call.site))
        return ex.mk_enum(call.dst_ty, 'Ok', [Obj('locked_file::LockedFileGuard', 'lock_guard', 'struct')])

    def ov_check_version(ex, st, call):
        st.emit(Ev('VERSION_CHECK', site=call.site))
        return ex.mk_enum(call.dst_ty, 'Ok', [ex.unit()])

    def ov_journal_recover(ex, st, call):
        rr = Obj('journal::recovery::RecoveryResult', 'recovery', 'struct')
        names = ex.src.struct_fields('journal::recovery::RecoveryResult')
        j = Obj('journal::Journal', 'active_journal', 'struct')
        rr.fields[names.index('active')] = Cell(j)
        sealed_items = []
        if track_sealed_call:
            for q in range(2):
                tup = Obj('(u64, PathBuf)', f'sealed{q}', 'tuple')
                tup.fields[0] = Cell(bv(q)); tup.fields[1] = Cell(Obj('std::path::PathBuf', f'sealed{q}.path', 'opaque'))
                sealed_items.append(tup)
        elif env.sealed:
            tup = Obj('(u64, PathBuf)', 'sealed0', 'tuple')
            tup.fields[0] = Cell(bv(0)); tup.fields[1] = Cell(Obj('std::path::PathBuf', 'sealed0.path', 'opaque'))
            sealed_items.append(tup)
        rr.fields[names.index('sealed')] = Cell(mk_seq('Vec<(u64, PathBuf)>', sealed_items, 'sealed'))
        rr.fields[names.index('was_active_created')] = Cell(z3.BoolVal(False))
        st.emit(Ev('JOURNAL_RECOVER', site=call.site))
        return ex.mk_enum(call.dst_ty, 'Ok', [rr])

    def ov_tree_open(ex, st, call):
        t = Obj('lsm_tree::AnyTree', 'meta_tree', 'opaque')
        t.data['persisted'] = env.meta_persisted
        t.data['inserted'] = []
        st.pc.append(z3.ULT(env.meta_persisted[1], bv(2 ** 62)))
        return ex.mk_enum(call.dst_ty, 'Ok', [t])

    def ov_recover_keyspaces(ex, st, call):
        db = deref(call.args[0])
        # find the keyspaces map of the database under construction
        from .c05 import find_objs
        sup = find_objs(db, lambda o: o.ty.split('<')[0].endswith('SupervisorInner'))
        names = ex.src.struct_fields('SupervisorInner')
        kmap_arc = sup[0].fields[names.index('keyspaces')].val
        # Arc<RwLock<HashMap>>: build the map object the lock protects
        lock = kmap_arc.fields['ptr'].val if 'ptr' in kmap_arc.fields else None
        if lock is None:
            lock = Obj('RwLock<Keyspaces>', 'keyspaces_lock', 'struct'); kmap_arc.fields['ptr'] = Cell(lock)
        m = Obj('HashMap<StrView, Keyspace>', 'keyspaces', 'opaque')
        m.data['known_empty'] = True; m.data['entries'] = {}
        vals = []
        for k in env.ks_specs(ex, st):
            m.data['entries'][canon_id(k['name'])] = [z3.BoolVal(True), Cell(k['handle']), k['name']]
            vals.append(k['handle'])
        m.data['items'] = [Cell(v) for v in vals]
        m.data['key_items'] = [Cell(e[2]) for e in m.data['entries'].values()]
        lock.fields['data'] = Cell(m)
        st.emit(Ev('RECOVER_KEYSPACES', site=call.site))
        return ex.mk_enum(call.dst_ty, 'Ok', [ex.unit()])

    def ks_specs(ex, st):
        # objects are created per state (same symbol names), so that no two paths share mutable objects
        if env.ks:
            st.pc.extend(env.ks_axioms)
            mine = [mk_keyspace(ex, st, j) for j in range(n_ks)]
        else:
            n0 = len(st.pc)
            mine = env.ks = [mk_keyspace(ex, st, j) for j in range(n_ks)]
            for k in env.ks:
                st.pc.append(z3.ULT(k['tree'].data['persisted'][1], bv(2 ** 62)))
            for a in range(n_ks):
                for b in range(a + 1, n_ks):
                    st.pc.append(env.ks[a]['id'] != env.ks[b]['id'])
                st.pc.append(env.ks[a]['id'] != 0)
            env.ks_axioms = st.pc[n0:]
        reg = Obj('', 'ks_names', 'h')
        for j, k in enumerate(mine):
            reg.fields[j] = Cell(k['name'])
        st.globals['__ks_names'] = reg
        return mine
    env.ks_specs = ks_specs

    def mk_reader(ex, st, empty=False):
        r = Obj('journal::batch_reader::JournalBatchReader', 'reader', 'opaque')
        if empty:
            r.data['batches'] = []; r.data['pos'] = 0
            return r
        if not env.batches:
            n0 = len(st.pc)
            mine = env.batches = mk_batches(ex, st, rd_shape, symbolic_kinds)
            env.batch_axioms = st.pc[n0:]
        else:
            mine = mk_batches(ex, st, rd_shape, symbolic_kinds)      # a path that forked before the first reader was created
        r.data['batches'] = [b['obj'] for b in mine]; r.data['pos'] = 0
        return r

    def ov_get_reader(ex, st, call):
        r = mk_reader(ex, st, empty=env.sealed)
        st.emit(Ev('GET_READER', site=call.site))
        return ex.mk_enum(call.dst_ty, 'Ok', [r])

    def ov_raw_reader_new(ex, st, call):
        st.emit(Ev('SEALED_READER', site=call.site))
        return ex.mk_enum(call.dst_ty, 'Ok', [Obj('journal::reader::JournalReader', 'raw_reader', 'opaque')])

    def ov_batch_reader_new(ex, st, call):
        return mk_reader(ex, st)

    def ov_metadata(ex, st, call):
        return ex.mk_enum(call.dst_ty, 'Ok', [Obj('std::fs::Metadata', 'metadata', 'opaque')])

    def ov_metadata_len(ex, st, call):
        return z3.BitVec(f'journal_size!{next(st.fresh)}', 64)

    def mem_of(t):
        if isinstance(t, EnumV):
            t = t.data.setdefault('as_obj', Obj(t.ty, t.name))
        return t

    def ov_rotate(ex, st, call):
        """E8: the active memtable holds what was inserted since the last clear / rotation; rotating an empty memtable yields None"""
        t = mem_of(deref(call.args[0]))
        if not isinstance(t, Obj) or 'persisted' not in t.data:
            return NotImplemented
        mem = t.data.get('mem', [])
        if not mem:
            e = ex.mk_enum(call.dst_ty, 'None')
            st.emit(Ev('T_ROTATE_EMPTY', obj=t, res=e, site=call.site))
            return e
        mx = mem[0]
        for s_ in mem[1:]:
            mx = z3.If(z3.UGE(mx, s_), mx, s_)
        mt = Obj('lsm_tree::Memtable', t.name + '.sealed_memtable', 'opaque'); mt.data['highest'] = mx
        arc = Obj('Arc<Memtable>', 'arc', 'struct'); arc.fields['ptr'] = Cell(mt)
        t.data['mem'] = []
        e = ex.mk_enum(call.dst_ty, 'Some', [arc])
        st.emit(Ev('T_ROTATE', obj=t, res=e, site=call.site))
        return e

    def ov_clear_active(ex, st, call):
        t = mem_of(deref(call.args[0]))
        if isinstance(t, Obj):
            t.data['mem'] = []
            st.emit(Ev('T_CLEAR_ACTIVE', obj=t, site=call.site))
        return ex.unit()

    def ov_memtable_q(ex, st, call):
        m = deref(call.args[0])
        kind = call.c0.rsplit('::', 1)[-1]
        if isinstance(m, Obj) and 'highest' in m.data:
            if kind == 'get_highest_seqno':
                return ex.mk_enum(call.dst_ty, 'Some', [m.data['highest']])
            if kind == 'size':
                return z3.BitVec(f'memtable_size!{next(st.fresh)}', 64)
        return NotImplemented

    def ov_enqueue(ex, st, call):
        item = deref(call.args[1])
        wms = None
        try:
            inames = ex.src.struct_fields('journal::manager::Item')
            seq = deref(item.fields[inames.index('watermarks')].val)
            from ..contract import seq_items
            its = seq_items(seq)
            wn = ex.src.struct_fields('journal::manager::EvictionWatermark')
            wms = []
            for c in its:
                w = deref(c.val)
                ksh = deref(w.fields[wn.index('keyspace')].val)
                from .c05 import find_objs
                inner = find_objs(ksh, lambda o: o.ty.split('<')[0].endswith('KeyspaceInner'))
                wms.append((inner[0].name.rstrip("'") if inner else '?', w.fields[wn.index('lsn')].val))
        except Exception as e_:      # noqa
            st.notes.append(f'ENQUEUE_SHAPE:{e_!r}')
            wms = None
        st.emit(Ev('JM_ENQUEUE', args={'watermarks': wms}, site=call.site))
        return ex.unit()

    def ov_reader_next(ex, st, call):
        r = deref(call.args[0])
        if not isinstance(r, Obj) or 'batches' not in r.data:
            return NotImplemented
        i = r.data['pos']
        if i >= len(r.data['batches']):
            st.emit(Ev('READER_END', site=call.site))
            return ex.mk_enum(call.dst_ty, 'None')
        r.data['pos'] = i + 1
        if reader_error_at is not None and i == reader_error_at:
            # the batch reader reports this (complete, but damaged) batch as an error: checksum mismatch
            st.emit(Ev('READER_ERR', args={'idx': i}, site=call.site))
            err = ex.mk_enum('error::Error', 'JournalRecovery', [ex.mk_enum('journal::error::RecoveryError', 'ChecksumMismatch')])
            return ex.mk_enum(call.dst_ty, 'Some', [ex.mk_enum('Result<Batch, Error>', 'Err', [err])])
        st.emit(Ev('BATCH_READ', args={'idx': i}, site=call.site))
        return ex.mk_enum(call.dst_ty, 'Some', [ex.mk_enum('Result<Batch, Error>', 'Ok', [r.data['batches'][i]])])

    def ov_reader_into_iter(ex, st, call):
        return call.args[0]

    def ov_resolve_id(ex, st, call):
        kid = call.args[1]
        from ..contract import fork_cond
        out = []
        cur = st
        specs = env.ks
        for j, k in enumerate(specs):
            cond = kid == k['id']
            if not ex.feasible(cur.pc, cond):
                continue
            if ex.feasible(cur.pc, z3.Not(cond)):
                s2, memo = cur.clone()
                s2.pc.append(cond)
                nm = s2.globals['__ks_names'].fields[j].val
                out.append((s2, ex.mk_enum(call.dst_ty, 'Ok', [ex.mk_enum('Option<StrView>', 'Some', [nm])])))
                cur.pc.append(z3.Not(cond))
            else:
                cur.pc.append(cond)
                out.append((cur, ex.mk_enum(call.dst_ty, 'Ok', [ex.mk_enum('Option<StrView>', 'Some', [cur.globals['__ks_names'].fields[j].val])])))
                return out
        out.append((cur, ex.mk_enum(call.dst_ty, 'Ok', [ex.mk_enum('Option<StrView>', 'None')])))
        return out

    def ov_values(ex, st, call):
        m = deref(call.args[0])
        if isinstance(m, Obj) and 'items' in m.data:
            return mk_iter(ex, st, call.dst_ty, m, True)
        from ..contract import s_map_values
        return s_map_values(ex, st, call)

    def ov_keys(ex, st, call):
        m = deref(call.args[0])
        if isinstance(m, Obj) and 'key_items' in m.data:
            return mk_iter(ex, st, call.dst_ty, mk_seq('', [c.val for c in m.data['key_items']], 'keys'), True)
        return NotImplemented

    def ov_tree_seqnos(ex, st, call):
        """E8: highest persisted / highest seqno of a keyspace's tree (symbolic, related to what was inserted in this run)"""
        t = deref(call.args[0])
        if isinstance(t, EnumV):
            t = t.data.get('as_obj', t)
        kind = call.c0.rsplit('::', 1)[-1]
        if not isinstance(t, Obj) or 'persisted' not in t.data:
            return NotImplemented
        hp, pv = t.data['persisted']
        if kind == 'get_highest_persisted_seqno':
            e = EnumV(call.dst_ty, z3.If(hp, bv(1), bv(0)), 'persisted')
            o = Obj('Some', 'Some', 'variant'); o.fields[0] = Cell(pv); e.payloads['Some'] = o
            st.emit(Ev('T_GET_HIGHEST_PERSISTED_SEQNO', obj=t, res=e, site=call.site))
            return e
        # get_highest_seqno = max(persisted, everything inserted so far)
        ins = list(t.data.get('inserted', []))
        some = z3.Or(hp, z3.BoolVal(bool(ins)))
        val = z3.BitVec(f'highest:{t.name}!{next(st.fresh)}', 64)
        st.pc.append(z3.Implies(hp, z3.UGE(val, pv)))
        for s in ins:
            st.pc.append(z3.UGE(val, s))
        # and it is one of them
        st.pc.append(z3.Or(z3.And(hp, val == pv), *[val == s for s in ins]) if ins else z3.Implies(hp, val == pv))
        e = EnumV(call.dst_ty, z3.If(some, bv(1), bv(0)), 'highest')
        o = Obj('Some', 'Some', 'variant'); o.fields[0] = Cell(val); e.payloads['Some'] = o
        st.emit(Ev('T_GET_HIGHEST_SEQNO', obj=t, res=e, site=call.site))
        return e

    def ov_tree_write(ex, st, call):
        t = deref(call.args[0])
        if isinstance(t, EnumV):
            t = t.data.setdefault('as_obj', Obj(t.ty, t.name))
        kind = call.c0.rsplit('::', 1)[-1]
        a = call.args
        seq = a[3] if kind == 'insert' else a[2]
        if isinstance(t, Obj):
            t.data.setdefault('inserted', []).append(seq)
        return NotImplemented      # fall through to the generic tree summary (event emission)

    def ov_zero(ex, st, call):
        return bv(0)

    def ov_pool_start(ex, st, call):
        st.emit(Ev('WORKERS_START', site=call.site))
        return ex.mk_enum(call.dst_ty, 'Ok', [ex.unit()])

    overrides = [
        (r'AbstractTree>::(sealed_memtable_count|l0_run_count)$', ov_zero),
        (r'WorkerPool::start$', ov_pool_start),
        (r'Database::check_version$|^db::<impl>::check_version$', ov_check_version),
        (r'LockedFileGuard::try_acquire$', ov_lock),
        (r'Journal::recover$', ov_journal_recover),
        (r'lsm_tree::Config::open$', ov_tree_open),
        (r'^recover_keyspaces$|recovery::recover_keyspaces$', ov_recover_keyspaces),
    ] + ([(r'^recover_sealed_memtables$|recovery::recover_sealed_memtables$', ov_sealed_stub)] if not env.sealed else [
        (r'JournalReader::new$', ov_raw_reader_new),
        (r'JournalBatchReader::new$', ov_batch_reader_new),
        (r'Path::metadata$', ov_metadata),
        (r'Metadata::len$', ov_metadata_len),
        (r'AbstractTree>::rotate_memtable$', ov_rotate),
        (r'AbstractTree>::clear_active_memtable$', ov_clear_active),
        (r'Memtable::(get_highest_seqno|size)$', ov_memtable_q),
        (r'JournalManager::enqueue$', ov_enqueue),
    ]) + [
        (r'Journal::get_reader$', ov_get_reader),
        (r'JournalBatchReader as Iterator>::next$', ov_reader_next),
        (r'JournalBatchReader as IntoIterator>::into_iter$', ov_reader_into_iter),
        (r'MetaKeyspace::resolve_id$', ov_resolve_id),
        (r'HashMap::values$', ov_values),
        (r'HashMap::keys$', ov_keys),
        (r'AbstractTree>::(get_highest_persisted_seqno|get_highest_seqno)$', ov_tree_seqnos),
    ]
    ex = ctx.executor(loop_bound=loop_bound or (max([n + c for n, c in rd_shape] + [1]) + len(rd_shape) + n_ks + 2), overrides=overrides, no_inline=OPAQUE,
                      max_depth=14, timeout_s=240, disabled_faults=('T_CLEAR', 'F_SYNC_ALL', 'J_FLUSH', 'T_READ'))
    # remember inserted seqnos per tree: wrap the generic tree summary
    from .. import contract as K
    orig_tree = K.s_tree

    def tree_with_memory(ex_, st, call):
        kind = call.c0.rsplit('::', 1)[-1]
        if kind in ('insert', 'remove', 'remove_weak'):
            t = deref(call.args[0])
            if isinstance(t, EnumV):
                t = t.data.setdefault('as_obj', Obj(t.ty, t.name))
            seq = call.args[3] if kind == 'insert' else call.args[2]
            if isinstance(t, Obj):
                t.data.setdefault('inserted', []).append(seq)
                t.data.setdefault('mem', []).append(seq)
        if kind == 'clear':
            t = deref(call.args[0])
            if isinstance(t, EnumV):
                t = t.data.setdefault('as_obj', Obj(t.ty, t.name))
            if isinstance(t, Obj):
                t.data['mem'] = []
        return orig_tree(ex_, st, call)
    ex.contract.overrides.append((__import__('re').compile(r'AbstractTree>::(insert|remove|remove_weak|clear)$'), tree_with_memory))
    def key_canon(st, key):
        k = deref(key)
        if z3.is_bv(k) and env.ks:
            for j, ks in enumerate(env.ks):
                if not ex.feasible(st.pc, k != ks['id']):
                    return ('ksid', j)
        return None
    ex.key_canon = key_canon
    paths = ex.run(fn)
    ctx.functions_encoded[fn.key] = ctx.prog.hashes.get(fn.name, '')
    ctx.paths_total += len(paths); ctx.events_total += sum(len(p.events) for p in paths)
    ctx.solver_s += ex.stats['solver_s']; ctx.queries += ex.stats['solver_calls']
    return ex, paths, env


def final_counters(ex, p):
    """(seqno counter value, visible counter value, keyspace id counter value) at the end of a path"""
    from .c05 import find_objs
    from ..contract import counter_obj
    ret = p.ret
    if not isinstance(ret, EnumV) or 'Ok' not in ret.payloads:
        return None
    db = ret.payloads['Ok'].fields[0].val
    sup = find_objs(db, lambda o: o.ty.split('<')[0].endswith('SupervisorInner'))
    dbi = find_objs(db, lambda o: o.ty.split('<')[0].endswith('DatabaseInner'))
    if not sup or not dbi:
        return None
    sn = ex.src.struct_fields('SupervisorInner'); dn = ex.src.struct_fields('db::DatabaseInner')
    seq = counter_obj(ex, p.st, sup[0].fields[sn.index('seqno')].val)
    tracker = sup[0].fields[sn.index('snapshot_tracker')].val
    tin = find_objs(tracker, lambda o: o.ty.split('<')[0].endswith('SnapshotTrackerInner'))
    vis = None
    if tin:
        tn = ex.src.struct_fields('SnapshotTrackerInner')
        vis = counter_obj(ex, p.st, tin[0].fields[tn.index('seqno')].val)
    kc = counter_obj(ex, p.st, dbi[0].fields[dn.index('keyspace_id_counter')].val)
    g = lambda o: o.data.get('val') if isinstance(o, Obj) else None
    return g(seq), g(vis), g(kc)
