"""C11 — after reopening, new writes supersede everything recovered.

M obligations on the MIR of Database::recover (symbolic journal contents and keyspace states, see recov.py):
  seqno/above-journal      on every successful path the next seqno is greater than the seqno of EVERY batch read from the
                           journal — whether its keyspace ids still resolve or not, whether it was replayed or skipped
  seqno/above-trees        ... and greater than the highest seqno reported by every recovered keyspace's tree and by the meta keyspace
  visible=next             the visible seqno equals the next seqno after recovery (a new snapshot sees everything recovered)
Bounds: 2 keyspaces, 2 batches (≤ 2 items + 1 clear), ids/seqnos/persisted marks symbolic (64-bit).
Native replay: histories through the public API comparing Database::seqno() before close / after reopen and reading back
writes made after the reopen.
"""
import z3
from ..core import ret_is_err, ret_is_ok, obj_name
from ..symex import Obj, EnumV, Ref, Cell, deref, bv
from . import common as C
from . import recov


def analyse(ctx):
    if getattr(ctx, '_recov', None) is None:
        ctx.shape = ((1, 0), (0, 1)) if ctx.tier == 'quick' else ((1, 0), (1, 1))
        ctx._recov = recov.run_recover(ctx, n_ks=2, shape=ctx.shape)
    return ctx._recov


def check(ctx):
    ex, paths, env = analyse(ctx)
    o1 = ctx.ob('seqno/above-journal', 'recover: next seqno > seqno of every journal batch read (resolvable or not, replayed or skipped)', ['db::<impl>::recover'])
    o2 = ctx.ob('seqno/above-trees', 'recover: next seqno > highest seqno of every recovered tree, including the meta keyspace', ['db::<impl>::recover'])
    o3 = ctx.ob('visible=next', 'recover: visible seqno == next seqno on return', ['db::<impl>::recover'])
    b1, b2, b3 = [], [], []
    inc = [p for p in paths if p.status in ('error', 'timeout', 'loop_bound')]
    if inc:
        for o in (o1, o2, o3):
            o.status = 'undecided'; o.detail = f'executor: {inc[0].status} {inc[0].notes[-1:]}'
        return
    for p in paths:
        if p.status != 'returned' or ctx.sat(p.pc + [ret_is_ok(p)], o1)[0] != z3.sat:
            continue
        fc = recov.final_counters(ex, p)
        if fc is None or fc[0] is None:
            continue
        S, V, K = fc
        reads = [e.args['idx'] for e in p.events if e.kind == 'BATCH_READ']
        o1.reach += 1; o2.reach += 1; o3.reach += 1
        if reads and ctx.sat(p.pc + [z3.Or([z3.Not(z3.UGT(S, env.batches[i]['seqno'])) for i in reads])], o1)[0] == z3.unsat:
            reads = []
        for i in reads:
            b = env.batches[i]
            r, m = ctx.sat(p.pc + [z3.Not(z3.UGT(S, b['seqno']))], o1)
            if r != z3.unsat:
                resolv = 'some id of the batch does not resolve' if any(ctx.sat(p.pc + [x == k['id']])[0] != z3.sat for x in [d['ksid'] for d in b['items']] + b['clears'] for k in env.ks) else 'the batch was skipped'
                b1.append((p, f'after recovery the next seqno can be ≤ the seqno of journal batch #{i} ({resolv})')); break
        highs = [e for e in p.events if e.kind == 'T_GET_HIGHEST_SEQNO']
        allk = [z3.And(k['tree'].data['persisted'][0], z3.Not(z3.UGT(S, k['tree'].data['persisted'][1]))) for k in env.ks]
        for k in (env.ks if ctx.sat(p.pc + [z3.Or(allk)], o2)[0] != z3.unsat else []):
            hp, pv = k['tree'].data['persisted']
            if ctx.sat(p.pc + [hp, z3.Not(z3.UGT(S, pv))], o2)[0] != z3.unsat:
                b2.append((p, f'next seqno can be ≤ the persisted seqno of keyspace {k["inner"].name}')); break
        mh, mv = env.meta_persisted
        if ctx.sat(p.pc + [mh, z3.Not(z3.UGT(S, mv))], o2)[0] != z3.unsat:
            b2.append((p, 'next seqno can be ≤ the highest seqno of the meta keyspace (keyspace creations/deletions draw from the same counter)'))
        if V is None or ctx.sat(p.pc + [V != S], o3)[0] != z3.unsat:
            b3.append((p, 'visible seqno differs from the next seqno after recovery'))
    for ob, bad, role in ((o1, b1, 'recover/seqno-not-above-journal-records'), (o2, b2, 'recover/seqno-not-above-trees'), (o3, b3, 'recover/visible-not-restored')):
        if ob.reach == 0:
            ob.status = 'undecided'; ob.detail = 'vacuous'
        elif not bad:
            ob.status = 'discharged'; ob.sample = {'ok_paths': ob.reach}
        else:
            ctx.candidate(ob, role, bad[0][1], confirm=lambda: native_supersede(ctx))


def check_sealed(ctx):
    o = ctx.ob('seqno/above-sealed-journal', 'recover_sealed_memtables + recover: next seqno > seqno of every batch read from a sealed journal (resolvable or not, replayed or skipped); visible == next', ['recovery::recover_sealed_memtables', 'db::<impl>::recover'])
    ex, paths, env = recov.run_recover(ctx, n_ks=2, shape=(), sealed_shape=((1, 0), (0, 1)))
    bad = []
    for p in paths:
        if p.status in ('error', 'timeout', 'loop_bound'):
            o.status = 'undecided'; o.detail = f'executor: {p.status} {p.notes[-1:]}'; return
        if p.status != 'returned' or ctx.sat(p.pc + [ret_is_ok(p)], o)[0] != z3.sat:
            continue
        fc = recov.final_counters(ex, p)
        if fc is None or fc[0] is None:
            continue
        S, V, K = fc
        o.reach += 1
        reads = [e.args['idx'] for e in p.events if e.kind == 'BATCH_READ']
        if reads and ctx.sat(p.pc + [z3.Or([z3.Not(z3.UGT(S, env.batches[i]['seqno'])) for i in reads])], o)[0] != z3.unsat:
            bad.append((p, 'after recovery the next seqno can be ≤ the seqno of a batch in a sealed journal')); continue
        if V is None or ctx.sat(p.pc + [V != S], o)[0] != z3.unsat:
            bad.append((p, 'visible seqno differs from the next seqno after recovery')); continue
    if o.reach == 0:
        o.status = 'undecided'; o.detail = 'vacuous'
    elif not bad:
        o.status = 'discharged'; o.sample = {'ok_paths': o.reach}
    else:
        ctx.candidate(o, 'recover-sealed/seqno-not-above-journal-records', bad[0][1], confirm=lambda: native_supersede(ctx))


def native_supersede(ctx):
    """histories: (what is on disk before the reopen) → reopen → seqno must exceed everything seen before; a write after
    the reopen must win for point reads and scans; a snapshot sees recovered ∪ new"""
    H = {
        'journal-only': ['ks a', 'insert a 6b31 31', 'insert a 6b32 32', 'remove a 6b32'],
        'tables-only': ['ks a', 'insert a 6b31 31', 'insert a 6b32 32', 'rotate a', 'worker_drain', 'major_compact a'],
        'both': ['ks a', 'insert a 6b31 31', 'rotate a', 'worker_drain', 'insert a 6b31 3132', 'insert a 6b32 32'],
        'deleted-keyspace-records': ['ks a', 'ks b', 'insert a 6b31 31', 'insert b 6b31 41', 'insert b 6b32 42', 'insert b 6b33 43', 'delete_ks b'],
        'only-deleted-keyspace': ['ks b', 'insert b 6b31 41', 'insert b 6b32 42', 'delete_ks b'],
        'tombstones-only': ['ks a', 'remove a 6b31', 'remove a 6b32'],
        'ingested': ['ks a', 'ingest a 6b31:31,6b32:32', 'ingest a 6b33:33'],
        'journaled-then-ingested': ['ks a', 'insert a 6b31 31', 'ingest a 6b32:32,6b33:33'],
        'journaled-then-ingested-two-keyspaces': ['ks a', 'ks b', 'insert b 6b31 41', 'insert a 6b31 31', 'ingest a 6b32:32', 'ingest b 6b33:43'],
        'cleared': ['ks a', 'insert a 6b31 31', 'clear a'],
        'clear-after-unjournaled-seqnos': ['ks a', 'insert a 6b31 31', 'ingest a 6b32:32', 'ingest a 6b33:33', 'rotate a', 'worker_drain', 'clear a'],
        # (the sealed journal is kept on disk by b's unflushed write; a journal that was evicted takes its seqnos with it)
        'clear-in-sealed-journal': ['rotation_threshold 0', 'ks a', 'ks b', 'ks c', 'insert b 6b31 41', 'insert a 6b31 31', 'ingest a 6b32:32', 'clear a', 'insert c 6b31 51', 'rotate c', 'worker_drain'],
        'sealed-journal-deleted-keyspace': ['rotation_threshold 0', 'ks a', 'ks b', 'insert a 6b31 31', 'insert b 6b31 41', 'insert b 6b32 42', 'insert b 6b33 43', 'rotate a', 'worker_drain', 'delete_ks b'],
        # several keyspaces whose highest seqno lives only in tables (bulk loads right before the close): the counter must clear the highest of them, whichever the
        # keyspace dictionary happens to yield last (both load orders, four keyspaces)
        'ingested-four-keyspaces-up': ['ks a', 'ks b', 'ks c', 'ks d', 'ingest a 6b32:32', 'ingest b 6b31:41', 'ingest c 6b31:51', 'ingest d 6b31:61'],
        'ingested-four-keyspaces-down': ['ks a', 'ks b', 'ks c', 'ks d', 'ingest d 6b31:61', 'ingest c 6b31:51', 'ingest b 6b31:41', 'ingest a 6b32:32'],
        'two-keyspaces-different-marks': ['ks a', 'ks b', 'insert a 6b31 31', 'rotate a', 'worker_drain', 'insert b 6b31 41', 'insert b 6b32 42', 'insert b 6b33 43'],
    }
    last = (False, None, 'not run')
    for name, ops in H.items():
        # bound = the highest seqno any tree (keyspaces, meta keyspace) ever reported before the close: every journal record was
        # in a memtable when it was written, every table item came from a memtable or an ingestion.  (The counter itself is
        # not the bound: version changes of lsm-tree consume numbers that appear in no journal or table.)
        # ... plus the seqno of every journaled single operation (insert/remove/clear draw exactly the counter value read just before them):
        # a clear leaves its seqno in the journal only
        ops2 = []; n_pre = 0
        for o in ops:
            if o.startswith(('insert ', 'remove ', 'clear ')):
                ops2.append('seqno'); n_pre += 1
            ops2 += [o, 'maxseq']
        L = ['dir $DIR/db', 'open workers=0'] + ops2 + ['seqno', 'close', 'open workers=0', 'seqno', 'ks a', 'insert a 6b31 6e6577', 'remove a 6b32', 'snapshot s', 'snap_get s a 6b31',
                                                       'get a 6b31', 'get a 6b32', 'dump a', 'maxseq', 'close', 'open workers=0', 'seqno', 'ks a', 'get a 6b31', 'get a 6b32', 'close']
        spath, out = ctx.run_scenario('\n'.join(L) + '\n', tag='supersede-' + name)
        rs = [(c, r) for _i, c, r in out]
        if any(c == 'CRASH' for c, _r in rs):
            return True, spath, f'{name}: crash ' + rs[-1][1][-200:]
        seq = [int(r.split('=')[1].split()[0]) for c, r in rs if c == 'seqno']
        vis = [int(r.split('visible=')[1]) for c, r in rs if c == 'seqno']
        journaled = seq[:n_pre]; seq = seq[n_pre:]; vis = vis[n_pre:]
        mx = [int(r.split('=')[1]) if r.startswith('max=') else -1 for c, r in rs if c == 'maxseq']
        if len(seq) == 3 and mx:
            bound1 = max(mx[:-1] + journaled); bound2 = max(mx + journaled)
            if seq[1] <= bound1:
                return True, spath, f'history {name}: seqno {bound1} is present in a journal/table before the reopen, but after the reopen Database::seqno() is {seq[1]}: it will be handed out again'
            if seq[2] <= bound2:
                return True, spath, f'history {name}: seqno {bound2} is present on disk, but after the second reopen Database::seqno() is {seq[2]}'
            if vis[1] != seq[1]:
                return True, spath, f'history {name}: after reopen visible seqno {vis[1]} != next seqno {seq[1]}'
        gets = [r for c, r in rs if c == 'get']
        sg = [r for c, r in rs if c == 'snap_get']
        if gets[:2] != ['some:6e6577', 'none'] or gets[2:] != ['some:6e6577', 'none'] or sg != ['some:6e6577']:
            return True, spath, f'history {name}: a write/remove made after the reopen does not supersede the recovered data: get={gets} snapshot={sg}'
        last = (False, spath, f'held natively on {len(H)} histories')
    return last


def run(ctx):
    check(ctx)
    check_sealed(ctx)
    ctx.assumptions += [
        'E8: get_highest_seqno / get_highest_persisted_seqno report the maximum seqno over memtables+tables / tables',
        'journal reader by contract (its byte-level behaviour is C03/C15); sealed journals go through recover_sealed_memtables (same replay code, checked for C04)',
        f'bounds: 2 keyspaces, batches (items, clears) = {getattr(ctx, "shape", None)}, ids and seqnos symbolic 64-bit (< 2^62)',
    ]
    # every tree of the database (new, recovered, meta) must be wired to the same two counters in the same roles (shared obligations, see wiring.py)
    from . import wiring
    wiring.check_all(ctx)
    for o in ctx.obligations:
        ctx.samples.append(o.as_dict())
    return ctx.finish()


MUTANTS = [
    {'name': 'revert: journal batch seqnos do not raise the counter (active journal)', 'edits': [('src/db.rs', "                    db.supervisor.seqno.fetch_max(batch.seqno + 1);", "")]},
    {'name': 'revert: meta keyspace seqnos ignored', 'edits': [('src/db.rs', "            db.supervisor.seqno.fetch_max(seqno + 1);", "            let _ = seqno;")]},
    {'name': 'counter restored to the highest seqno instead of one past it', 'edits': [('src/db.rs', "                        .map(|x| x + 1)\n                        .unwrap_or_default();\n\n                    db.supervisor.seqno.fetch_max(maybe_next_seqno);", "                        .unwrap_or_default();\n\n                    db.supervisor.seqno.fetch_max(maybe_next_seqno);")]},
    # ('counter restored from persisted seqno only' is equivalent on the fixed tree: every memtable item comes from a journal batch whose seqno raises the counter)
    {'name': 'visible seqno not restored', 'edits': [('src/db.rs', "        db.supervisor\n            .snapshot_tracker\n            .set(db.supervisor.seqno.get());", "")]},
    {'name': 'visible seqno restored one too low', 'edits': [('src/db.rs', "            .set(db.supervisor.seqno.get());", "            .set(db.supervisor.seqno.get().saturating_sub(1));")]},
    {'name': 'seqno restored with set instead of fetch_max (last keyspace wins)', 'edits': [('src/db.rs', "                    db.supervisor.seqno.fetch_max(maybe_next_seqno);", "                    db.supervisor.seqno.set(maybe_next_seqno);")]},
]
