"""C18 — compaction filters act only where assigned, only as their verdicts say.

M obligations (dataflow over MIR paths; the assigner is an unknown callable = uninterpreted function of the name):
  assign/create        Database::keyspace (create path): the factory handed to the new keyspace is exactly assigner(name of this
                       keyspace); no assigner / None ⇒ no factory
  assign/recover       recover_keyspaces: the factory installed into a recovered keyspace is assigner(its own stored name)
  stored/never         CreateOptions::from_kvs never produces a factory; the builder stores the assigner unchanged
  forward              apply_to_base_config hands the factory to the tree's with_compaction_filter_factory
Verdict semantics (kept items untouched, removed/replaced items stay so) are decided inside lsm-tree's compaction stream:
not applicable to this technique (contract E5); exercised by the native battery only.
"""
import z3
from ..core import ret_is_err, ret_is_ok, obj_name
from ..symex import Obj, EnumV, Ref, Cell, deref, bv, base_name
from ..contract import cid, canon_id
from . import common as C
from .c05 import find_objs


def factory_field(ex, opts):
    names = ex.src.struct_fields('keyspace::options::CreateOptions')
    c = opts.fields.get(names.index('compaction_filter_factory')) if isinstance(opts, Obj) else None
    return c.val if c is not None else None


def check_create(ctx):
    pat = r'^db::<impl>::keyspace$'
    ob = ctx.ob('assign/create', 'Database::keyspace: the new keyspace gets exactly assigner(its name); otherwise none', [pat])
    ex, paths = ctx.run(pat, cache_key='c18.create', loop_bound=2, no_inline=[r'Keyspace::create_new$', r'MetaKeyspace::create_keyspace$', r'is_valid_keyspace_name$'])
    bad = []
    for p in paths:
        created = [e for e in p.events if e.kind == 'CALL' and e.args.get('callee', '').endswith('Keyspace::create_new')]
        if not created:
            continue
        ob.reach += 1
        ce = created[0]
        a = ce.args['args']          # (keyspace_id, db, name, opts)
        name_arg, opts = a[2], a[3]
        fcalls = [e for e in p.events if e.kind == 'CALL_FN' and e.idx < ce.idx]
        # create_options() is the first unknown callable; the assigner call is the one that receives a name
        assigner_calls = [e for e in fcalls if e.args.get('args')]
        fac = factory_field(ex, opts)
        if assigner_calls:
            ae = assigner_calls[-1]
            nm = ae.args['args'][0]
            if cid(nm) != cid(name_arg):
                bad.append((p, 'the assigner is asked about a name that is not the new keyspace\'s name')); continue
            res = ae.res
            if isinstance(res, EnumV):
                some = ctx.sat(p.pc + [res.disc != bv(1)], ob)[0] == z3.unsat
                none = ctx.sat(p.pc + [res.disc != bv(0)], ob)[0] == z3.unsat
                payload = res.payloads.get('Some').fields[0].val if 'Some' in res.payloads and 0 in res.payloads['Some'].fields else None
                if some:
                    ok = isinstance(fac, EnumV) and ctx.sat(p.pc + [(bv(fac.disc) if isinstance(fac.disc, int) else fac.disc) != bv(1)], ob)[0] == z3.unsat
                    fp = fac.payloads.get('Some').fields[0].val if ok and 'Some' in fac.payloads else None
                    if not ok or payload is None or fp is None or canon_id(fp) != canon_id(payload):
                        bad.append((p, 'the factory returned by the assigner is not the one installed into the new keyspace')); continue
                if none and isinstance(fac, EnumV) and ctx.sat(p.pc + [(bv(fac.disc) if isinstance(fac.disc, int) else fac.disc) == bv(1)], ob)[0] == z3.sat and fac.name != 'hv':
                    # a factory present although the assigner said None: only acceptable if it came from create_options (it cannot: field is crate-private)
                    fp = fac.payloads.get('Some')
                    if fp is not None and 0 in fp.fields and any(canon_id(fp.fields[0].val) == canon_id(x.res.payloads['Some'].fields[0].val) for x in fcalls if isinstance(x.res, EnumV) and 'Some' in x.res.payloads and 0 in x.res.payloads['Some'].fields):
                        bad.append((p, 'a factory is installed although the assigner answered None')); continue
        else:
            # no assigner configured on this path: the options must be passed through untouched
            pass
    finish(ctx, ob, bad, 'Database.keyspace/filter-assignment')
    return ob


def check_recover(ctx):
    pat = r'^recover_keyspaces$|^recovery::recover_keyspaces$'
    ob = ctx.ob('assign/recover', 'recover_keyspaces: each recovered keyspace gets assigner(its stored name)', [pat])
    from ..contract import mk_seq

    def ov_read_dir(ex_, st, call):
        ents = []
        for i in range(1):
            d = Obj('std::fs::DirEntry', f'dirent{i}', 'opaque')
            ents.append(ex_.mk_enum('Result<DirEntry, io::Error>', 'Ok', [d]))
        return ex_.mk_enum(call.dst_ty, 'Ok', [mk_seq('std::fs::ReadDir', ents, 'read_dir')])

    def ov_resolve(ex_, st, call):
        nm = Obj('byteview::StrView', 'stored_name', 'str')
        return ex_.mk_enum(call.dst_ty, 'Ok', [ex_.mk_enum('Option<StrView>', 'Some', [nm])])

    def ov_parse(ex_, st, call):
        return ex_.mk_enum(call.dst_ty, 'Ok', [z3.BitVec('dir_id', 64)])

    def ov_false(ex_, st, call):
        return z3.BoolVal(False)

    def ov_exists(ex_, st, call):
        return ex_.mk_enum(call.dst_ty, 'Ok', [z3.BoolVal(True)])
    ex, paths = ctx.run(pat, cache_key='c18.recover', loop_bound=2,
                        no_inline=[r'CreateOptions::from_kvs$', r'apply_to_base_config$', r'Keyspace::from_database$'],
                        overrides=[(r'^(std::fs::)?read_dir$', ov_read_dir), (r'MetaKeyspace::resolve_id$', ov_resolve), (r'str::parse$|core::str::<impl str>::parse$', ov_parse),
                                   (r'FileType::is_file$', ov_false), (r'Path::try_exists$', ov_exists)])
    bad = []
    for p in paths:
        made = [e for e in p.events if e.kind == 'CALL' and e.args.get('callee', '').endswith('Keyspace::from_database')]
        if not made:
            continue
        ob.reach += 1
        me = made[0]
        a = me.args['args']      # (keyspace_id, db, tree, name, config)
        name_arg, opts = a[3], a[4]
        fcalls = [e for e in p.events if e.kind == 'CALL_FN' and e.idx < me.idx and e.args.get('args')]
        fac = factory_field(ex, opts)
        applied = [e for e in p.events if e.kind == 'CALL' and e.args.get('callee', '').endswith('apply_to_base_config')]
        if fcalls:
            ae = fcalls[-1]
            if cid(ae.args['args'][0]) != cid(name_arg):
                bad.append((p, 'the assigner is asked about a name other than the recovered keyspace\'s stored name')); continue
            res = ae.res
            if isinstance(res, EnumV) and ctx.sat(p.pc + [res.disc != bv(1)], ob)[0] == z3.unsat:
                payload = res.payloads['Some'].fields[0].val if 'Some' in res.payloads and 0 in res.payloads['Some'].fields else None
                fp = fac.payloads.get('Some').fields[0].val if isinstance(fac, EnumV) and 'Some' in fac.payloads and 0 in fac.payloads['Some'].fields else None
                if payload is None or fp is None or canon_id(fp) != canon_id(payload):
                    bad.append((p, 'the factory returned by the assigner is not installed into the recovered keyspace')); continue
                # and the tree config must be built from the options that carry it
                if applied:
                    o2 = deref(applied[0].args['args'][1])
                    f2 = factory_field(ex, o2)
                    fp2 = f2.payloads.get('Some').fields[0].val if isinstance(f2, EnumV) and 'Some' in f2.payloads and 0 in f2.payloads['Some'].fields else None
                    if fp2 is None or canon_id(fp2) != canon_id(payload):
                        bad.append((p, 'the tree is configured before the factory is installed')); continue
    finish(ctx, ob, bad, 'recover_keyspaces/filter-assignment')
    return ob


def check_builder(ctx):
    pat = r'^builder::<impl>::with_compaction_filter_factories$'
    ob = ctx.ob('stored/builder', 'the builder stores the assigner it was given', [pat])
    ex, paths = ctx.run(pat, cache_key='c18.builder', loop_bound=1)
    bad = []
    for p in paths:
        if p.status != 'returned':
            continue
        ob.reach += 1
        fr = p.st.frames[0]
        f = fr.locals[fr.fn.args[1]].val
        cfgs = find_objs(p.ret, lambda o: o.ty.split('<')[0].endswith('Config'))
        names = ex.src.struct_fields('db_config::Config')
        got = None
        for c in cfgs:
            cc = c.fields.get(names.index('compaction_filter_factory_assigner'))
            if cc is not None:
                got = cc.val
        pay = got.payloads.get('Some').fields[0].val if isinstance(got, EnumV) and 'Some' in got.payloads and 0 in got.payloads['Some'].fields else None
        if pay is None or canon_id(pay) != canon_id(f):
            bad.append((p, 'the assigner stored in the configuration is not the one given'))
    finish(ctx, ob, bad, 'Builder/assigner-not-stored')
    return ob


def check_from_kvs_never(ctx):
    ob = ctx.ob('stored/never', 'CreateOptions::from_kvs always yields compaction_filter_factory = None (factories are never read from disk)', [r'options::<impl>::from_kvs'])
    fn = ctx.prog.find(r'^options::<impl>::from_kvs$|^keyspace::options::<impl>::from_kvs$')
    names = ctx.src.struct_fields('keyspace::options::CreateOptions')
    idx = names.index('compaction_filter_factory')
    # syntactic over the MIR: the only aggregate of CreateOptions in from_kvs assigns None to that field
    found = False; ok = True
    for _bb, (stmts, term) in fn.blocks.items():
        for pl, rv in stmts:
            if rv[0] == 'aggr_adt' and rv[3] and rv[1].split('::<')[0].endswith('CreateOptions'):
                found = True
                fld = [op for (n, op) in rv[2] if n == 'compaction_filter_factory']
                if not fld:
                    ok = False
                else:
                    op = fld[0]
                    # must be a local assigned from Option::None in this body
                    if op[0] in ('move', 'copy') and op[1][0] == 'local':
                        loc = op[1][1]
                        srcs = [rv2 for _b2, (st2, _t2) in fn.blocks.items() for (pl2, rv2) in st2 if pl2 == ('local', loc)]
                        if not srcs or not all(r[0] == 'aggr_adt' and r[1].split('::<')[0].endswith('None') or (r[0] == 'aggr_adt' and r[1].endswith('::None')) for r in srcs):
                            ok = False
                    elif op[0] == 'const' and 'None' in op[1]:
                        pass
                    else:
                        ok = False
    ob.reach = 1 if found else 0
    if not found:
        ob.status = 'undecided'; ob.detail = 'CreateOptions aggregate not found in from_kvs'
    elif ok:
        ob.status = 'discharged'; ob.sample = {'field_index': idx}
    else:
        ctx.candidate(ob, 'from_kvs/produces-a-factory', 'from_kvs builds CreateOptions with a compaction_filter_factory that is not the constant None', confirm=lambda: native_filters(ctx))
    return ob


def check_forward(ctx):
    pat = r'apply_to_base_config$'
    ob = ctx.ob('forward', 'apply_to_base_config hands compaction_filter_factory (a clone of it) to the tree\'s with_compaction_filter_factory', [pat])
    fn = ctx.prog.find(pat)
    names = ctx.src.struct_fields('keyspace::options::CreateOptions')
    ex = ctx.executor(loop_bound=1)

    def setup(ex_, st, fr):
        o = Obj('keyspace::options::CreateOptions', 'opts', 'struct')
        f = Obj('Arc<dyn Factory>', 'the_factory', 'struct'); f.fields['ptr'] = Cell(Obj('dyn Factory', 'factory_impl', 'opaque'))
        o.fields[names.index('compaction_filter_factory')] = Cell(ex_.mk_enum('Option<Arc<dyn Factory>>', 'Some', [f]))
        fr.locals[fn.args[1]] = Cell(Ref(Cell(o)))
        st.globals['f'] = f
    paths = ex.run(fn, setup=setup)
    ctx.paths_total += len(paths)
    bad = []
    for p in paths:
        if p.status != 'returned':
            continue
        ob.reach += 1
        calls = [e for e in p.events if e.kind == 'CALL' and e.args.get('callee', '').endswith('with_compaction_filter_factory')]
        if len(calls) != 1:
            bad.append((p, f'{len(calls)} calls to with_compaction_filter_factory')); continue
        arg = calls[0].args['args'][1]
        pay = arg.payloads.get('Some').fields[0].val if isinstance(arg, EnumV) and 'Some' in arg.payloads and 0 in arg.payloads['Some'].fields else None
        if pay is None or canon_id(pay) != canon_id(p.st.globals['f']):
            bad.append((p, 'the tree receives a factory other than the keyspace\'s'))
    finish(ctx, ob, bad, 'apply_to_base_config/factory-not-forwarded')
    return ob


def finish(ctx, ob, bad, role):
    if ob.reach == 0:
        ob.status = 'undecided'; ob.detail = ob.detail or 'vacuous'
    elif not bad:
        ob.status = 'discharged'; ob.sample = {'paths': ob.reach}
    else:
        ctx.candidate(ob, role, f'{ob.id}: {bad[0][1]}', confirm=lambda: native_filters(ctx))


def native_filters(ctx):
    """assigner: keyspace "a" only.  Keys x* are removed, r* replaced by "R", others kept; "b" must stay untouched.
    Checked when newly created and again after reopen (factory re-installed by name)."""
    for ksopt in ('', ' kvsep=1'):
        r = _native_filters(ctx, ksopt)
        if r[0]:
            return r
    return r


def _native_filters(ctx, ksopt):
    def prog(first):
        L = []
        if first:
            L += ['dir $DIR/db', 'open workers=0 filter=a', 'ks a' + ksopt, 'ks b' + ksopt]
        for ks in ('a', 'b'):
            L += [f'insert {ks} 6b31 31', f'insert {ks} 7831 32', f'insert {ks} 7231 33', f'rotate {ks}']
        L += ['worker_drain', 'major_compact a', 'major_compact b', 'dump a', 'dump b', 'options a', 'options b']
        return L
    L = prog(True) + ['close', 'open workers=0 filter=a', 'ks a', 'ks b', 'dump a', 'dump b', 'insert a 7832 34', 'insert b 7832 34', 'rotate a', 'rotate b',
                      'worker_drain', 'major_compact a', 'major_compact b', 'dump a', 'dump b', 'options a', 'options b', 'close']
    spath, out = ctx.run_scenario('\n'.join(L) + '\n', tag='filters' + ksopt.strip().replace('=', ''))
    rs = [(c, r) for _i, c, r in out]
    if any(c == 'CRASH' for c, _r in rs):
        return True, spath, 'crash: ' + rs[-1][1][-200:]
    dumps = [r for c, r in rs if c == 'dump']
    opts = [r for c, r in rs if c == 'options']
    fa = '[6b31:31,7231:52]'; fb = '[6b31:31,7231:33,7831:32]'; fb2 = '[6b31:31,7231:33,7831:32,7832:34]'
    want = [fa, fb, fa, fb, fa, fb2]
    if dumps != want:
        i = next(k for k in range(min(len(dumps), len(want))) if dumps[k] != want[k]) if len(dumps) == len(want) else -1
        return True, spath, f'after major compaction with a filter assigned to "a" only{" (key-value separated keyspaces)" if ksopt else ""}: dumps {dumps}, expected {want} (first difference at #{i})'
    flags = ['has_compaction_filter=true' in o for o in opts]
    if flags != [True, False, True, False]:
        return True, spath, f'compaction filter presence for (a, b) before/after reopen = {flags}, expected [True, False, True, False]'
    tflags = ['filter=true' in o for o in opts]
    if tflags != [True, False, True, False]:
        return True, spath, f'the tree configuration carries a filter for (a, b) = {tflags}, expected [True, False, True, False]'
    return False, spath, 'held natively'


def check_filtered_stay_filtered(ctx):
    """removed / replaced items stay so across a reopen: recovery must not re-apply a journal record that was flushed (and then filtered)"""
    from . import recov, c04
    shape = ((1, 0),) if ctx.tier == 'quick' else ((1, 0), (1, 0))
    ex, paths, env = recov.run_recover(ctx, n_ks=2, shape=shape, symbolic_kinds=True)
    ob = ctx.ob('recover/filtered-stay-filtered', 'Database::recover: a record that was flushed before is never applied again, even when the compaction filter has since removed the newest items '
                'from the tables (ghost mark: highest flushed seqno per keyspace)', ['db::<impl>::recover'])
    c04.check_flushed_ghost(ctx, ex, paths, env, ob, 'recover/filter-removed-newest-item-replayed')
    ob2 = ctx.ob('recover/covered-not-replayed', 'Database::recover: a record whose seqno is <= the highest seqno left in its keyspace\'s tables is not applied again (a filter rewrites an item under its seqno: replaying '
                 'the original would undo the verdict)', ['db::<impl>::recover'])
    c04.check_covered_not_replayed(ctx, ex, paths, env, ob2, 'recover/covered-record-replayed-over-filtered-item', confirm=lambda: c04.native_selfcompare(ctx))
    ex2, paths2, env2 = recov.run_recover(ctx, n_ks=2, shape=(), sealed_shape=shape, symbolic_kinds=True)
    ob3 = ctx.ob('recover-sealed/covered-not-replayed', 'recover_sealed_memtables: the same for records of a sealed journal', ['recovery::recover_sealed_memtables'])
    c04.check_covered_not_replayed(ctx, ex2, paths2, env2, ob3, 'recover-sealed/covered-record-replayed-over-filtered-item', confirm=lambda: c04.native_selfcompare(ctx, c04.sealed_filter_programs()))


def run(ctx):
    ctx.assumptions += [
        'recover/filtered-stay-filtered: symbolic recovered state of recov.py (2 keyspaces, 1-2 journal batches, symbolic ids / seqnos / persisted marks / flushed-up-to ghost marks)',
        'the assigner and the factories are unknown callables (uninterpreted); handle identity through Arc clones',
        'verdict semantics (keep/remove/replace during compaction) are lsm-tree behaviour: contract E5, not decided here',
    ]
    check_create(ctx)
    check_recover(ctx)
    check_builder(ctx)
    check_from_kvs_never(ctx)
    check_forward(ctx)
    check_filtered_stay_filtered(ctx)
    for o in ctx.obligations:
        ctx.samples.append(o.as_dict())
    return ctx.finish()


MUTANTS = [
    {'name': 'assigner applied with a constant name', 'edits': [('src/db.rs', "                .and_then(|f| f(&name))", "                .and_then(|f| f(\"default\"))")]},
    {'name': 'recovery path does not install the factory', 'edits': [('src/recovery.rs', "            recovered_config = recovered_config.with_compaction_filter_factory(f);", "            let _ = f;")]},
    {'name': 'apply_to_base_config drops the factory', 'edits': [('src/keyspace/mod.rs', "        .with_compaction_filter_factory(our_config.compaction_filter_factory.clone())", "        .with_compaction_filter_factory(None)")]},
    {'name': 'builder ignores the assigner', 'edits': [('src/builder.rs', "        self.inner.compaction_filter_factory_assigner = Some(f);", "        let _ = f;")]},
    {'name': 'recovery asks the assigner with the keyspace id as name', 'edits': [('src/recovery.rs', "            .and_then(|f| f(&keyspace_name))", "            .and_then(|f| f(&keyspace_id.to_string()))")]},
    {'name': 'create path installs the factory only when options request kv separation', 'edits': [('src/db.rs', "                opts = opts.with_compaction_filter_factory(f);", "                if opts.kv_separation_opts.is_some() { opts = opts.with_compaction_filter_factory(f); }")]},
]
