"""C10 — a journal file is deleted only when nothing in it is still needed.

M obligations:
  maintenance/evict-rule   JournalManager::maintenance from an arbitrary queue state (2 sealed journals x 2 watermarks, symbolic lsn /
                           deleted flag / persisted seqno per keyspace): every unlink removes the OLDEST queued journal, and only when
                           every watermark of it is satisfied (keyspace deleted, or persisted seqno present and >= lsn); the queue and
                           the byte counter are updated to match; a failed unlink leaves the queue untouched and is reported
  stragglers               get_keyspaces_to_flush_for_oldest_journal_eviction names exactly the keyspaces whose watermark blocks the oldest journal
  seqno-map                Supervisor::build_seqno_map records, for every keyspace that has memtable data, that keyspace with its highest memtable seqno
  rotate/registered        JournalManager::rotate_journal queues the sealed file returned by Writer::rotate with the given watermarks, at the tail
  tick/rotation-atomic     the worker's flush tick builds the watermarks and rotates while it holds the journal lock (no write can slip between the
                           watermark capture and the sealing) and runs maintenance after the flush
  (recovery re-registers sealed journals with the highest replayed seqno per keyspace: C04 sealed/memtables)
Composition (E8 + C14): a record of keyspace k in a sealed journal has seqno <= lsn_k (it was applied to k's memtable under the journal lock before
the sealing); flushes are FIFO, so persisted_k >= lsn_k implies the record is in k's tables.  Hence an evicted journal holds nothing that is needed.

Native replay: journal rotation forced at every flush tick (threshold hook); multi-keyspace workloads with lagging keyspaces; a process-crash
image is taken after every maintenance step and recovered; it must contain every acknowledged write; journal_count returns to 1 once all
keyspaces are flushed.
"""
import z3
from ..core import ret_is_err, ret_is_ok, obj_name
from ..symex import Obj, EnumV, Ref, Cell, Ev, deref, bv
from ..contract import mk_seq, seq_items
from . import common as C
from . import oracle

NJ, NW = 2, 2


def mk_state(ex, st, nj=NJ, nw=NW, distinct_ks=False):
    """a JournalManager with nj queued journals of nw watermarks each; keyspaces ks{j}_{w} (own tree / deleted flag)"""
    inames = ex.src.struct_fields('journal::manager::Item')
    wnames = ex.src.struct_fields('journal::manager::EvictionWatermark')
    knames = ex.src.struct_fields('KeyspaceInner')
    items = []; desc = []
    for j in range(nj):
        wms = []; wd = []
        for w in range(nw):
            nm = f'j{j}w{w}'
            inner = Obj('keyspace::KeyspaceInner', nm + '.ks', 'struct')
            tree = Obj('lsm_tree::AnyTree', nm + '.tree', 'opaque')
            tree.data['persisted'] = (z3.Bool(nm + '.has_persisted'), z3.BitVec(nm + '.persisted', 64))
            dele = Obj('AtomicBool', nm + '.is_deleted', 'opaque'); dele.data['val'] = z3.Bool(nm + '.deleted')
            inner.fields[knames.index('tree')] = Cell(tree)
            inner.fields[knames.index('is_deleted')] = Cell(dele)
            inner.fields[knames.index('name')] = Cell(Obj('byteview::StrView', nm + '.name', 'str'))
            arc = Obj('Arc<KeyspaceInner>', nm + '.arc', 'struct'); arc.fields['ptr'] = Cell(inner)
            ks = Obj('keyspace::Keyspace', nm + '.handle', 'struct'); ks.fields[0] = Cell(arc)
            lsn = z3.BitVec(nm + '.lsn', 64)
            wm = Obj('journal::manager::EvictionWatermark', nm, 'struct')
            wm.fields[wnames.index('keyspace')] = Cell(ks); wm.fields[wnames.index('lsn')] = Cell(lsn)
            wms.append(wm)
            wd.append({'name': nm, 'lsn': lsn, 'deleted': dele.data['val'], 'persisted': tree.data['persisted'], 'tree': tree, 'handle': ks, 'inner': inner})
        it = Obj('journal::manager::Item', f'journal{j}', 'struct')
        path = Obj('std::path::PathBuf', f'journal{j}.path', 'opaque')
        size = z3.BitVec(f'journal{j}.size', 64)
        it.fields[inames.index('path')] = Cell(path)
        it.fields[inames.index('size_in_bytes')] = Cell(size)
        it.fields[inames.index('watermarks')] = Cell(mk_seq('Vec<EvictionWatermark>', wms, f'journal{j}.watermarks'))
        items.append(it); desc.append({'obj': it, 'path': path, 'size': size, 'wms': wd})
    jm = Obj('journal::manager::JournalManager', 'jm', 'struct')
    jn = ex.src.struct_fields('journal::manager::JournalManager')
    jm.fields[jn.index('items')] = Cell(mk_seq('Vec<Item>', items, 'jm.items'))
    space = z3.BitVec('jm.disk_space', 64)
    jm.fields[jn.index('disk_space_in_bytes')] = Cell(space)
    return jm, desc, space


def tree_overrides():
    def ov_persisted(ex, st, call):
        t = deref(call.args[0])
        if isinstance(t, EnumV):
            t = t.data.get('as_obj', t)
        if not isinstance(t, Obj) or 'persisted' not in t.data:
            return NotImplemented
        hp, pv = t.data['persisted']
        e = EnumV(call.dst_ty, z3.If(hp, bv(1), bv(0)), 'persisted')
        o = Obj('Some', 'Some', 'variant'); o.fields[0] = Cell(pv); e.payloads['Some'] = o
        st.emit(Ev('T_GET_HIGHEST_PERSISTED_SEQNO', obj=t, res=e, site=call.site))
        return e
    return [(r'AbstractTree>::get_highest_persisted_seqno$', ov_persisted)]


def satisfied(w):
    hp, pv = w['persisted']
    return z3.Or(w['deleted'], z3.And(hp, z3.UGE(pv, w['lsn'])))


def check_maintenance(ctx, confirm=None, confirm_reclaim=None, with_reclaim=True, with_evict_rule=True):
    pat = r'^journal::manager::<impl>::maintenance$'
    ob2 = ctx.ob('maintenance/reclaims-evictable', 'JournalManager::maintenance: when it returns Ok without a failed unlink, the queue is empty or the oldest remaining journal has a blocking watermark '
                 '(a keyspace that is NOT deleted and whose persisted seqno is missing or below the lsn): a deleted keyspace never pins a journal (nor, through the watermark\'s handle, its own files), '
                 'and after all keyspaces are flushed the journals go back to one', [pat]) if with_reclaim else None
    bad2 = []
    ob = ctx.ob('maintenance/evict-rule', 'JournalManager::maintenance: unlinks only the oldest queued journal and only when each of its watermarks is satisfied '
                '(keyspace deleted, or persisted seqno >= lsn); queue and byte counter follow; a failed unlink changes nothing', [pat])
    holder = {}

    nj = NJ if ctx.tier == 'quick' else 3
    holder['nj'] = nj

    def setup(ex, st, fr):
        jm, desc, space = mk_state(ex, st, nj=nj)
        holder['desc'] = desc; holder['space'] = space
        fr.locals[fr.fn.args[0]] = Cell(Ref(Cell(jm)))
        st.globals['__jm'] = jm
    ex = ctx.executor(loop_bound=nj * NW + 3, overrides=tree_overrides(), timeout_s=120)
    fn = ctx.prog.find(pat)
    paths = ex.run(fn, setup=setup)
    ctx.functions_encoded[fn.key] = ctx.prog.hashes.get(fn.name, '')
    ctx.paths_total += len(paths); ctx.events_total += sum(len(p.events) for p in paths)
    ctx.solver_s += ex.stats['solver_s']; ctx.queries += ex.stats['solver_calls']
    desc = holder.get('desc')
    bad = []
    inc = [p for p in paths if p.status in ('error', 'timeout', 'loop_bound')]
    if inc:
        for o_ in (ob, ob2):
            if o_ is not None:
                o_.status = 'undecided'; o_.detail = f'executor: {inc[0].status} {inc[0].notes[-1:]}'
        return
    jn = ex.src.struct_fields('journal::manager::JournalManager')
    for p in paths:
        if p.status != 'returned':
            if p.status == 'panic':
                ob.reach += 1; bad.append((p, 'maintenance can panic: ' + str([e.args for e in p.events if e.kind == 'PANIC'][:1])))
            continue
        ob.reach += 1
        rms = [e for e in p.events if e.kind == 'FS_REMOVE_FILE']
        okp = ctx.sat(p.pc + [ret_is_ok(p)], ob)[0] == z3.sat
        errp = ctx.sat(p.pc + [ret_is_err(p)], ob)[0] == z3.sat
        jm = p.st.globals.get('__jm')
        its = seq_items(jm.fields[jn.index('items')].val)
        left = [deref(c.val).name.rstrip("'") for c in its] if its is not None else None
        problem = None
        n_ok = 0
        for i, e in enumerate(rms):
            pth = deref(e.args.get('path'))
            if i >= len(desc) or not isinstance(pth, Obj) or pth.name.rstrip("'") != desc[i]['path'].name:
                problem = f'unlink #{i + 1} removes {getattr(pth, "name", pth)}, not the oldest queued journal (journal{i})'; break
            for w in desc[i]['wms']:
                if ctx.sat(p.pc + [z3.Not(satisfied(w))], ob)[0] != z3.unsat:
                    hp, pv = w['persisted']
                    why = 'its keyspace has no persisted seqno at all' if ctx.sat(p.pc + [z3.Not(w['deleted']), z3.Not(hp)], ob)[0] == z3.sat else 'its keyspace\'s persisted seqno is below the watermark'
                    problem = f'journal{i} is unlinked although watermark {w["name"]} is not satisfied ({why}): the keyspace\'s unflushed writes exist only in that journal'; break
            if problem:
                break
            f = getattr(e, 'fault', None)
            failed = f is not None and ctx.sat(p.pc + [z3.Not(f)], ob)[0] != z3.sat
            if not failed:
                n_ok += 1
        if problem is None and left is not None:
            want = [d['obj'].name for d in desc[n_ok:]]
            if left != want:
                problem = f'after {n_ok} successful unlinks the queue holds {left}, expected {want}'
        if problem is None and okp and not errp:
            # maintenance stopped: either the queue is empty or the oldest remaining journal is blocked
            if ob2 is not None and n_ok == len(rms):
                ob2.reach += 1
                if n_ok < len(desc):
                    blk = z3.Or([z3.Not(satisfied(w)) for w in desc[n_ok]['wms']])
                    r_, m_ = ctx.sat(p.pc + [z3.Not(blk)], ob2)
                    if r_ != z3.unsat:
                        dele = [w['name'] for w in desc[n_ok]['wms'] if m_ is not None and z3.is_true(m_.eval(w['deleted'], model_completion=True))]
                        bad2.append((p, f'maintenance stops at journal{n_ok} although none of its watermarks blocks it' +
                                     (f' (watermark {dele[0]} belongs to a deleted keyspace)' if dele else '') + ': the journal file, and the keyspace handles its watermarks hold, are never released'))
            sp = jm.fields[jn.index('disk_space_in_bytes')].val
            exp = holder['space']
            for d in desc[:n_ok]:
                exp = z3.If(z3.UGE(exp, d['size']), exp - d['size'], bv(0))
            if z3.is_expr(sp) and ctx.sat(p.pc + [sp != exp], ob)[0] != z3.unsat:
                problem = 'the journal byte counter does not match the journals that remain'
        if problem:
            bad.append((p, problem))
    if with_evict_rule:
        finish(ctx, ob, bad, 'journal-manager/evicts-needed-journal', confirm=confirm)
    else:
        ctx.obligations.remove(ob)
    if ob2 is not None:
        finish(ctx, ob2, bad2, 'journal-manager/evictable-journal-kept', confirm=confirm_reclaim or confirm)


def check_stragglers(ctx):
    pat = r'^journal::manager::<impl>::get_keyspaces_to_flush_for_oldest_journal_eviction$'
    ob = ctx.ob('stragglers', 'get_keyspaces_to_flush_for_oldest_journal_eviction: exactly the keyspaces whose watermark (no persisted seqno, or persisted < lsn) blocks the oldest journal', [pat])
    holder = {}

    def setup(ex, st, fr):
        jm, desc, space = mk_state(ex, st)
        holder['desc'] = desc
        fr.locals[fr.fn.args[0]] = Cell(Ref(Cell(jm)))
    ex = ctx.executor(loop_bound=NW + 2, overrides=tree_overrides(), timeout_s=60)
    fn = ctx.prog.find(pat)
    paths = ex.run(fn, setup=setup)
    ctx.functions_encoded[fn.key] = ctx.prog.hashes.get(fn.name, '')
    ctx.paths_total += len(paths); ctx.solver_s += ex.stats['solver_s']; ctx.queries += ex.stats['solver_calls']
    desc = holder.get('desc'); bad = []
    for p in paths:
        if p.status != 'returned':
            continue
        ob.reach += 1
        its = seq_items(deref(p.ret)) if isinstance(deref(p.ret), Obj) else None
        if its is None:
            bad.append((p, 'result not a known vector')); continue
        from ..contract import canon_id
        got = {canon_id(c.val) for c in its}
        for w in desc[0]['wms']:
            hp, pv = w['persisted']
            lag = z3.Or(z3.Not(hp), z3.ULT(pv, w['lsn']))
            inn = canon_id(w['handle']) in got
            if inn and ctx.sat(p.pc + [z3.Not(lag)], ob)[0] != z3.unsat:
                bad.append((p, f'{w["name"]} is asked to flush although it does not block the eviction')); break
            if not inn and ctx.sat(p.pc + [lag], ob)[0] != z3.unsat:
                bad.append((p, f'{w["name"]} blocks the oldest journal but is not asked to flush: the journal queue can grow without bound')); break
    finish(ctx, ob, bad, 'journal-manager/stragglers-wrong', native=False)


def check_seqno_map(ctx):
    pat = r'^supervisor::<impl>::build_seqno_map$'
    ob = ctx.ob('seqno-map', 'Supervisor::build_seqno_map: one watermark per keyspace that has memtable data, carrying that keyspace and its highest memtable seqno', [pat])
    N = 2
    holder = {}

    def setup(ex, st, fr):
        knames = ex.src.struct_fields('KeyspaceInner')
        m = Obj('HashMap<StrView, Keyspace>', 'keyspaces', 'opaque')
        vals = []
        for j in range(N):
            inner = Obj('keyspace::KeyspaceInner', f'ks{j}', 'struct')
            tree = Obj('lsm_tree::AnyTree', f'ks{j}.tree', 'opaque')
            tree.data['mem'] = (z3.Bool(f'ks{j}.has_mem'), z3.BitVec(f'ks{j}.mem_seqno', 64))
            inner.fields[knames.index('tree')] = Cell(tree)
            arc = Obj('Arc<KeyspaceInner>', f'ks{j}.arc', 'struct'); arc.fields['ptr'] = Cell(inner)
            ks = Obj('keyspace::Keyspace', f'ks{j}.handle', 'struct'); ks.fields[0] = Cell(arc)
            vals.append({'handle': ks, 'tree': tree, 'inner': inner})
        m.data['items'] = [Cell(v['handle']) for v in vals]
        m.data['len'] = bv(N)
        holder['ks'] = vals
        fr.locals[fr.fn.args[1]] = Cell(Ref(Cell(m)))

    def ov_mem(ex, st, call):
        t = deref(call.args[0])
        if isinstance(t, EnumV):
            t = t.data.get('as_obj', t)
        if not isinstance(t, Obj) or 'mem' not in t.data:
            return NotImplemented
        hm, mv = t.data['mem']
        e = EnumV(call.dst_ty, z3.If(hm, bv(1), bv(0)), 'memseq')
        o = Obj('Some', 'Some', 'variant'); o.fields[0] = Cell(mv); e.payloads['Some'] = o
        st.emit(Ev('T_GET_HIGHEST_MEMTABLE_SEQNO', obj=t, res=e, site=call.site))
        return e

    def ov_values(ex, st, call):
        m = deref(call.args[0])
        if isinstance(m, Obj) and 'items' in m.data:
            from ..contract import mk_iter
            return mk_iter(ex, st, call.dst_ty, m, True)
        return NotImplemented

    def ov_len(ex, st, call):
        return bv(N)
    ex = ctx.executor(loop_bound=N + 2, overrides=[(r'AbstractTree>::get_highest_memtable_seqno$', ov_mem), (r'HashMap::values$', ov_values), (r'HashMap::len$', ov_len)], timeout_s=60)
    fn = ctx.prog.find(pat)
    paths = ex.run(fn, setup=setup)
    ctx.functions_encoded[fn.key] = ctx.prog.hashes.get(fn.name, '')
    ctx.paths_total += len(paths); ctx.solver_s += ex.stats['solver_s']; ctx.queries += ex.stats['solver_calls']
    bad = []
    wn = ex.src.struct_fields('journal::manager::EvictionWatermark')
    from ..contract import canon_id
    for p in paths:
        if p.status != 'returned':
            continue
        ob.reach += 1
        its = seq_items(deref(p.ret)) if isinstance(deref(p.ret), Obj) else None
        if its is None:
            bad.append((p, 'result not a known vector')); continue
        got = {}
        for c in its:
            w = deref(c.val)
            got[canon_id(w.fields[wn.index('keyspace')].val)] = w.fields[wn.index('lsn')].val
        for k in holder['ks']:
            hm, mv = k['tree'].data['mem']
            cid_ = canon_id(k['handle'])
            if cid_ not in got:
                if ctx.sat(p.pc + [hm], ob)[0] != z3.unsat:
                    bad.append((p, f'keyspace {k["inner"].name} has memtable data but gets no watermark: the sealed journal can be evicted while that data is unflushed')); break
            else:
                if ctx.sat(p.pc + [z3.Not(hm)], ob)[0] != z3.unsat:
                    bad.append((p, f'keyspace {k["inner"].name} gets a watermark without memtable data')); break
                if ctx.sat(p.pc + [got[cid_] != mv], ob)[0] != z3.unsat:
                    bad.append((p, f'the watermark of keyspace {k["inner"].name} is not its highest memtable seqno')); break
    finish(ctx, ob, bad, 'supervisor/watermarks-wrong')


def check_rotate(ctx):
    pat = r'^journal::manager::<impl>::rotate_journal$'
    ob = ctx.ob('rotate/registered', 'JournalManager::rotate_journal: the file sealed by Writer::rotate is queued at the tail with the given watermarks and its size', [pat])
    def ov_rotate(ex_, st, call):
        t = Obj('(PathBuf, PathBuf)', 'rotated', 'tuple')
        t.fields[0] = Cell(Obj('std::path::PathBuf', 'sealed_path', 'opaque')); t.fields[1] = Cell(Obj('std::path::PathBuf', 'new_active_path', 'opaque'))
        f = ex_.contract.fault(ex_, st, 'J_ROTATE')
        st.emit(Ev('J_ROTATE', args={}, fault=f, site=call.site))
        return ex_.mk_result(st, call.dst_ty, f, ok=t)
    ex, paths = ctx.run(pat, cache_key='c10.rotate', loop_bound=2, no_inline=[r'Writer::len$'], overrides=[(r'Writer::rotate$', ov_rotate)])
    bad = []
    inames = ex.src.struct_fields('journal::manager::Item')
    for p in paths:
        if p.status != 'returned':
            continue
        rot = [e for e in p.events if e.kind == 'J_ROTATE']
        okp = ctx.sat(p.pc + [ret_is_ok(p)], ob)[0] == z3.sat
        if not okp:
            continue
        ob.reach += 1
        if not rot:
            bad.append((p, 'Ok without sealing the active journal')); continue
        push = [e for e in p.events if e.kind == 'VEC_PUSH_ITEM']
        fr = p.st.frames[0] if p.st.frames else None
        # the pushed item is found in self.items
        jm = deref(fr.locals[fr.fn.args[0]].val) if fr else None
        jn = ex.src.struct_fields('journal::manager::JournalManager')
        items = seq_items(jm.fields[jn.index('items')].val) if isinstance(jm, Obj) and jn.index('items') in jm.fields else None
        if not items:
            bad.append((p, 'the sealed journal is not queued')); continue
        it = deref(items[-1].val)
        wm = deref(it.fields[inames.index('watermarks')].val)
        given = deref(fr.locals[fr.fn.args[2]].val)
        if not (isinstance(wm, Obj) and isinstance(given, Obj) and wm.uid == given.uid):
            bad.append((p, 'the queued journal does not carry the watermarks captured at rotation')); continue
        pth = deref(it.fields[inames.index('path')].val)
        ok_path = isinstance(pth, Obj) and pth.name.rstrip("'") == 'sealed_path'
        if not ok_path:
            bad.append((p, 'the queued path is not the sealed file returned by Writer::rotate')); continue
    finish(ctx, ob, bad, 'journal-manager/rotation-not-registered')


TICK_NOINLINE = [r'run_flush$', r'run_compaction$', r'^flush::worker::run$', r'^compaction::worker::run$', r'JournalManager::maintenance$', r'JournalManager::rotate_journal$', r'Supervisor::build_seqno_map$',
                 r'get_keyspaces_to_flush_for_oldest_journal_eviction$', r'inner_rotate_memtable$', r'request_rotation$', r'FlushManager::dequeue$']


def run_tick(ctx):
    """one worker_tick from an arbitrary worker state and message (shared by C10, C13, C14)"""
    return ctx.run(r'^(worker_pool::)?worker_tick$', cache_key='worker.tick', loop_bound=2, no_inline=TICK_NOINLINE)


def check_tick(ctx):
    pat = r'^(worker_pool::)?worker_tick$'
    ob = ctx.ob('tick/rotation-atomic', 'worker flush tick: watermark capture and journal rotation happen under one hold of the journal lock; maintenance runs after the flush', [pat])
    ex, paths = run_tick(ctx)
    bad = []
    for p in paths:
        calls = [e for e in p.events if e.kind == 'CALL']
        rot = [e for e in calls if e.args.get('callee', '').endswith('rotate_journal')]
        bm = [e for e in calls if e.args.get('callee', '').endswith('build_seqno_map')]
        fl = [e for e in calls if e.args.get('callee', '').endswith(('run_flush', 'flush::worker::run'))]
        mt = [e for e in calls if e.args.get('callee', '').endswith('JournalManager::maintenance')]
        if rot:
            ob.reach += 1
            jl = [e for e in p.events if e.kind == 'LOCK' and 'journal' in obj_name(e) and 'manager' not in obj_name(e) and e.idx < rot[0].idx]
            ju = [e for e in p.events if e.kind == 'UNLOCK' and 'journal' in obj_name(e) and 'manager' not in obj_name(e)]
            if not jl:
                bad.append((p, 'the journal is rotated without holding the journal lock')); continue
            if not bm or bm[0].idx < jl[-1].idx or bm[0].idx > rot[0].idx:
                bad.append((p, 'the watermarks are not captured between taking the journal lock and the rotation')); continue
            if any(jl[-1].idx < u.idx < rot[0].idx for u in ju):
                bad.append((p, 'the journal lock is released between the watermark capture and the rotation: a write can land in the sealed journal above its watermark')); continue
            wm_uid = getattr(deref(bm[0].res), 'uid', None)
            touched = [e for e in p.events if bm[0].idx < e.idx < rot[0].idx and e.kind in ('CALL', 'SEQ_UNKNOWN', 'VEC_REMOVE') and
                       (getattr(e.obj, 'uid', None) == wm_uid or any(getattr(deref(a_), 'uid', None) == wm_uid for a_ in (e.args.get('args') or [])))]
            if wm_uid is not None and touched:
                bad.append((p, f'the captured watermarks are modified ({touched[0].args.get("callee", touched[0].kind)}) before the journal is sealed with them: a keyspace with unflushed writes in that journal may no longer hold it back')); continue
            given = rot[0].args['args'][2] if len(rot[0].args.get('args', [])) > 2 else None
            if bm[0].res is not None and given is not None and getattr(deref(given), 'uid', 1) != getattr(deref(bm[0].res), 'uid', 2):
                bad.append((p, 'rotate_journal receives other watermarks than the ones just captured')); continue
        if fl and p.status == 'returned' and ctx.sat(p.pc + [ret_is_ok(p)], ob)[0] == z3.sat:
            ob.reach += 1
            if not mt or mt[-1].idx < fl[0].idx:
                bad.append((p, 'journal maintenance does not run after a completed flush: journals are never reclaimed'))
    finish(ctx, ob, bad, 'worker/rotation-not-atomic', native=False)


def finish(ctx, ob, bad, role, native=True, confirm=None):
    if ob.reach == 0:
        ob.status = 'undecided'; ob.detail = ob.detail or 'vacuous'
    elif not bad:
        ob.status = 'discharged'; ob.sample = {'paths': ob.reach}
    else:
        ctx.candidate(ob, role, f'{ob.id}: {bad[0][1]}', confirm=confirm or (lambda: native_eviction(ctx)))


# ------------------------------------------------------------------ native
def eviction_programs():
    A, B, Cc = 'a', 'b', 'c'
    k1, k2, k3, k4, k5 = oracle.KEYS
    T = ('threshold', 0)
    X = ('crash',)
    P = {}
    P['lagging-never-flushed'] = [T, ('ks', A), ('ks', B), ('insert', B, k1, '41'), ('insert', A, k1, '31'), ('rotate', A), ('flush',), X, ('insert', A, k2, '32'), ('rotate', A), ('flush',), X,
                                  ('insert', B, k2, '42'), ('rotate', A), ('flush',), X, ('rotate', B), ('flush',), X, ('journals', 1)]
    P['lagging-flushed-once'] = [T, ('ks', A), ('ks', B), ('insert', B, k1, '41'), ('rotate', B), ('flush',), X, ('insert', B, k2, '42'), ('insert', A, k1, '31'), ('rotate', A), ('flush',), X,
                                 ('insert', A, k2, '32'), ('rotate', A), ('flush',), X, ('insert', B, k3, '43'), ('rotate', A), ('flush',), X, ('rotate', B), ('flush',), X, ('journals', 1)]
    P['three-keyspaces-different-order'] = [T, ('ks', A), ('ks', B), ('ks', Cc), ('insert', A, k1, '31'), ('insert', B, k1, '41'), ('insert', Cc, k1, '51'), ('rotate', Cc), ('flush',), X,
                                            ('insert', A, k2, '32'), ('rotate', B), ('flush',), X, ('insert', Cc, k2, '52'), ('rotate', A), ('flush',), X, ('rotate', Cc), ('flush',), X, ('journals', 1)]
    P['batch-across-lagging'] = [T, ('ks', A), ('ks', B), ('batch', [('insert', A, k1, '31'), ('insert', B, k1, '41')]), ('rotate', A), ('flush',), X,
                                 ('batch', [('insert', A, k2, '32'), ('remove', B, k1)]), ('rotate', A), ('flush',), X, ('rotate', B), ('flush',), X, ('journals', 1)]
    P['deleted-keyspace-does-not-block'] = [T, ('ks', A), ('ks', B), ('insert', B, k1, '41'), ('insert', A, k1, '31'), ('rotate', A), ('flush',), X, ('delete_ks', B), ('insert', A, k2, '32'),
                                            ('rotate', A), ('flush',), X, ('journals', 1)]
    P['clear-then-lag'] = [T, ('ks', A), ('ks', B), ('insert', B, k1, '41'), ('clear', B), ('insert', B, k2, '42'), ('insert', A, k1, '31'), ('rotate', A), ('flush',), X,
                           ('insert', A, k2, '32'), ('rotate', A), ('flush',), X, ('rotate', B), ('flush',), X]
    # a write that arrives after the memtable was sealed but before the flush tick runs lives only in the new active memtable and in the journal being sealed
    P['write-after-seal-before-flush'] = [T, ('ks', A), ('ks', B), ('insert', A, k1, '31'), ('rotate', A), ('insert', A, k2, '32'), ('flush',), X, ('insert', B, k1, '41'), ('rotate', B), ('insert', A, k3, '33'), ('flush',), X]
    P['reopen-with-sealed-then-evict'] = [T, ('ks', A), ('ks', B), ('insert', B, k1, '41'), ('insert', B, k3, '43'), ('insert', A, k1, '31'), ('rotate', A), ('flush',), ('reopen',), ('check',), X,
                                          ('insert', A, k2, '32'), ('rotate', A), ('flush',), X, ('rotate', B), ('flush',), X, ('insert', B, k2, '42'), ('rotate', A), ('flush',), X]
    # two keyspaces with a sealed, not yet flushed memtable each (their active memtables are empty) when the first flush tick seals the journal: both still need it.
    # The worker messages are run one at a time with a crash image after each.
    P['sealed-memtables-at-rotation'] = [T, ('ks', A), ('ks', B), ('insert', B, k1, '41'), ('insert', B, k2, '42'), ('rotate', B), ('insert', A, k1, '31'), ('rotate', A),
                                         ('step',), X, ('step',), X, ('step',), X, ('step',), X, ('flush',), X, ('insert', A, k2, '32'), ('rotate', A), ('step',), X, ('flush',), X]
    P['digit-boundary'] = digit_boundary_program()
    return P


def digit_boundary_program():
    # more than ten journal files at once (ids cross a decimal digit boundary: 9.jnl / 10.jnl), kept alive by a lagging keyspace; reopen, then reclaim them
    A, B = 'a', 'b'
    k1, k2, k3, k4, k5 = oracle.KEYS
    X = ('crash',)
    prog = [('threshold', 0), ('ks', A), ('ks', B), ('insert', B, k1, '41')]
    for i in range(11):
        prog += [('insert', A, k1, f'{0x30 + i:02x}{0x61 + i:02x}'), ('rotate', A), ('flush',)]
    prog += [X, ('reopen',), ('check',), ('insert', A, k2, '6e6577'), ('insert', B, k2, '42'), X, ('rotate', A), ('flush',), X, ('insert', A, k3, '33'), ('reopen',), ('check',), X,
             ('rotate', B), ('flush',), X, ('rotate', A), ('flush',), X, ('reopen',), ('check',), ('insert', A, k4, '34'), X]
    return prog


def native_eviction(ctx):
    last = (False, None, 'not run')
    progs = eviction_programs()
    for name, prog in progs.items():
        # journal files are pre-allocated, so the default journaling cap would flush the lagging keyspace after eight files: lift it where more files are wanted
        kw = {'open_opts': 'workers=0 max_journal=100000000000'} if name == 'digit-boundary' else {}
        v, path, d = oracle.run_program(ctx, prog, f'evict-{name}', **kw)
        if v:
            return True, path, f'program {name}: {d}'
        last = (False, path, f'{len(progs)} eviction programs: every crash image after a maintenance step recovers all acknowledged writes')
    return last


def run(ctx):
    check_maintenance(ctx)
    check_stragglers(ctx)
    check_seqno_map(ctx)
    check_rotate(ctx)
    check_tick(ctx)
    # recovery re-registers sealed journals with recomputed watermarks: the same rule the eviction decision relies on after a reopen
    from . import c04, c02
    # ... and finds them in the order they were sealed (oldest first), the newest one being the active journal
    c02.check_journal_order(ctx, confirm=lambda: native_eviction(ctx))
    c04.check_sealed(ctx, confirm=lambda: native_eviction(ctx))
    c04.check_sealed(ctx, confirm=lambda: native_eviction(ctx), shape=((1, 0), (1, 0)), tag='/two-item-batches', n_ks=1 if ctx.tier == 'quick' else 2)
    ctx.assumptions += [
        'E8: flushes of one keyspace are FIFO and get_highest_persisted_seqno is the highest seqno in its tables, so persisted >= s implies every record of that keyspace with seqno <= s is in tables',
        'C14 (checked separately): a record is applied to its memtable under the journal lock, so at sealing time get_highest_memtable_seqno >= every record of that keyspace in the sealed journal that is not yet in tables',
        f'bounds: {NJ} (quick) / 3 (thorough) queued journals x {NW} watermarks, symbolic lsn / persisted / deleted; 2 keyspaces in build_seqno_map',
        'file system by contract F2 (remove_file either removes the file or fails)',
    ]
    for o in ctx.obligations:
        ctx.samples.append(o.as_dict())
    return ctx.finish()


MUTANTS = [
    {'name': 'sealed recovery: watermark keeps the first seqno instead of the highest', 'edits': [('src/recovery.rs', "                    .and_modify(|prev| {\n                        prev.lsn = prev.lsn.max(batch.seqno);\n                    })\n                    .or_insert_with(|| EvictionWatermark {\n                        keyspace: handle.clone(),\n                        lsn: batch.seqno,\n                    });\n\n                match item.value_type {", "                    .or_insert_with(|| EvictionWatermark {\n                        keyspace: handle.clone(),\n                        lsn: batch.seqno,\n                    });\n\n                match item.value_type {")]},
    {'name': 'never-flushed keyspace does not block eviction', 'edits': [('src/journal/manager.rs', "                    else {\n                        return Ok(());\n                    };\n\n                    if keyspace_seqno < item.lsn {", "                    else {\n                        continue;\n                    };\n\n                    if keyspace_seqno < item.lsn {")]},
    {'name': 'watermark comparison off by one (<= lsn-1 accepted)', 'edits': [('src/journal/manager.rs', "                    if keyspace_seqno < item.lsn {\n                        log::trace!(", "                    if keyspace_seqno + 1 < item.lsn {\n                        log::trace!(")]},
    {'name': 'only the first watermark is checked', 'edits': [('src/journal/manager.rs', "            for item in &item.watermarks {\n                // Only check keyspace seqno if not deleted", "            for item in item.watermarks.iter().take(1) {\n                // Only check keyspace seqno if not deleted")]},
    {'name': 'evicts the newest journal', 'edits': [('src/journal/manager.rs', "            self.items.remove(0);", "            self.items.pop();")]},
    {'name': 'watermarks use the persisted seqno', 'edits': [('src/supervisor.rs', "keyspace.tree.get_highest_memtable_seqno()", "keyspace.tree.get_highest_persisted_seqno()")]},
    {'name': 'watermarks captured before taking the journal lock', 'edits': [('src/worker_pool.rs', "                log::trace!(\"acquiring journal lock to maybe rotate journal\");\n                let mut journal_writer = ctx.supervisor.journal.get_writer()?;", "                let early_map = {\n                    let keyspaces = ctx.supervisor.keyspaces.write().expect(\"lock is poisoned\");\n                    ctx.supervisor.build_seqno_map(&keyspaces)\n                };\n                let mut journal_writer = ctx.supervisor.journal.get_writer()?;"), ('src/worker_pool.rs', "                    journal_manager.rotate_journal(&mut journal_writer, seqno_map)?;", "                    let _ = seqno_map;\n                    journal_manager.rotate_journal(&mut journal_writer, early_map)?;")]},
    {'name': 'deleted flag ignored (harmless: more conservative)', 'edits': [('src/journal/manager.rs', "                if !item\n                    .keyspace\n                    .is_deleted\n                    .load(std::sync::atomic::Ordering::Acquire)\n                {", "                {")]},
]
