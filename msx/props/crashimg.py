"""Crash images built from the real execution (native side of C02 / C09 / C10 / C13).

process-crash image  = copy of the directory made by the driver at the crash point (everything write()-n is there,
                       BufWriter content is not)
power-loss image     = the same copy with every journal cut to the length that had been fsync/fdatasync-ed at that
                       point, computed from an strace log of the real run (independent of the verification hooks):
                       journals are created with O_EXCL and written sequentially, so durable length = bytes written to
                       the fd before its last successful fsync/fdatasync; the unsynced tail is zeroed (pre-allocation).
"""
import os, re, shutil


def durable_lengths(trace_lines, upto_mark):
    """{journal path: durable length} at the moment the driver emitted `mark <upto_mark>`"""
    fds = {}      # (pid-independent) fd -> path
    pos = {}      # path -> bytes written so far
    durable = {}
    for l in trace_lines:
        m = re.match(r'^\d+\s+(.*)$', l)
        body = m.group(1) if m else l
        if 'MARK %s"' % upto_mark in body or f'"MARK {upto_mark}"' in body:
            break
        mo = re.match(r'openat\(AT_FDCWD, "([^"]+\.jnl)", ([A-Z_|]+).*\) = (\d+)', body)
        if mo:
            path, flags, fd = mo.group(1), mo.group(2), int(mo.group(3))
            fds[fd] = path
            if 'O_EXCL' in flags or 'O_TRUNC' in flags:
                pos[path] = 0; durable.setdefault(path, 0)
            else:
                pos.setdefault(path, None)     # opened for append/read on an existing file: offset unknown
            continue
        mo = re.match(r'(?:write|pwrite64)\((\d+), .*\) = (\d+)', body)
        if mo:
            fd, n = int(mo.group(1)), int(mo.group(2))
            p = fds.get(fd)
            if p is not None and pos.get(p) is not None:
                pos[p] += n
            continue
        mo = re.match(r'(fsync|fdatasync)\((\d+)\)\s+= 0', body)
        if mo:
            p = fds.get(int(mo.group(2)))
            if p is not None and pos.get(p) is not None:
                durable[p] = pos[p]
            continue
        mo = re.match(r'close\((\d+)\)', body)
        if mo:
            fds.pop(int(mo.group(1)), None)
    return durable, pos


def cut_image(img_dir, orig_dir, durable):
    """zero the journal bytes beyond the durable length in the copied image; returns {file: (durable, written)}"""
    out = {}
    for path, d in durable.items():
        rel = os.path.relpath(path, orig_dir)
        ip = os.path.join(img_dir, rel)
        if not os.path.exists(ip):
            continue
        size = os.path.getsize(ip)
        with open(ip, 'r+b') as fh:
            fh.truncate(min(d, size))
            fh.truncate(size)
        out[rel] = d
    return out


def key(i):
    return '6b%02x' % (0x30 + i)


def run_crash_workload(ctx, steps, tag, manual=0, power_loss=True, two_ks=False):
    """steps: list of 'w' (insert next key), 'b' (batch of two next keys, over both keyspaces when two_ks), 'p:<mode>', 'x' (crash point).
    Returns (violated, replay_path, detail).  Oracle: at every crash point the recovered key set is a prefix of the write
    sequence (batches atomic) that contains every write acknowledged before the last successful sync-level persist
    (power loss) / every acknowledged write (process crash, automatic persist) / every write before the last persist(buffer) (manual)."""
    L = ['dir $DIR/db', f'open workers=0 manual_persist={manual}', f'ks a manual={manual}'] + ([f'ks b manual={manual}'] if two_ks else [])
    n = 0; mark = 0
    units = []          # each unit = list of (ks, key)
    req_power = []      # number of units that must be durable at each crash point (power loss)
    req_proc = []       # ... that must survive a process crash
    synced = 0; flushed = 0
    for s in steps:
        if s == 'w':
            n += 1; L.append(f'insert a {key(n)} {31 + 0:02x}'); units.append([('a', key(n))])
            if not manual:
                flushed = len(units)
        elif s == 'b':
            k1, k2 = key(n + 1), key(n + 2); n += 2
            ksb = 'b' if two_ks else 'a'
            L.append(f'batch2 a {k1} 42 {ksb} {k2} 42'); units.append([('a', k1), (ksb, k2)])
            if not manual:
                flushed = len(units)
        elif s.startswith('p:'):
            mode = s[2:]
            L.append(f'persist {mode}')
            flushed = len(units)
            if mode in ('syncdata', 'syncall'):
                synced = len(units)
        elif s == 'x':
            mark += 1
            L.append(f'mark {mark}'); L.append(f'copydir $DIR/db $DIR/img{mark}')
            req_power.append(synced); req_proc.append(flushed)
    L.append('close')
    text = '\n'.join(L) + '\n'
    r = ctx.run_scenario(text, tag=tag, strace=power_loss, keep_work=True)
    spath, out = r[0], r[1]
    trace = r[2] if power_loss else []
    work = ctx.last_work
    import shutil, os
    try:
        if any(c == 'CRASH' for _i, c, _r in out):
            return True, spath, 'crash: ' + out[-1][2][-200:]
        errs = [(c, r) for _i, c, r in out if r.startswith('err')]
        if errs:
            return False, spath, f'workload did not run cleanly: {errs[:2]}'
        from . import crashimg as _ci
        for m in range(1, mark + 1):
            img = os.path.join(work, f'img{m}')
            if power_loss:
                durable, _pos = durable_lengths(trace, m)
                cut_image(img, os.path.join(work, 'db'), durable)
            # recover the image
            L2 = [f'dir {img}', f'open workers=0 manual_persist={manual}', 'ks a'] + (['ks b'] if two_ks else []) + ['dump a'] + (['dump b'] if two_ks else []) + ['close']
            sp2, out2 = ctx.run_scenario('\n'.join(L2) + '\n', tag=f'{tag}-img{m}')
            if any(c == 'CRASH' for _i, c, _r in out2):
                return True, sp2, f'recovering the crash image #{m} crashed: ' + out2[-1][2][-200:]
            opens = [r for _i, c, r in out2 if c == 'open']
            if not opens or opens[0] != 'ok':
                return True, sp2, f'reopening the {"power-loss" if power_loss else "process-crash"} image #{m} fails: {opens}'
            dumps = [r for _i, c, r in out2 if c == 'dump']
            got = {}
            for ksn, d in zip(['a', 'b'], dumps):
                got[ksn] = set(x.split(':')[0] for x in d[1:-1].split(',') if x)
            present = [all(k in got.get(ks, set()) for ks, k in u) for u in units]
            partial = [any(k in got.get(ks, set()) for ks, k in u) and not all(k in got.get(ks, set()) for ks, k in u) for u in units]
            if any(partial):
                i = partial.index(True)
                return True, sp2, f'image #{m}: batch {units[i]} was recovered partially ({got})'
            j = sum(1 for x in present if x)
            if present != [True] * j + [False] * (len(units) - j):
                return True, sp2, f'image #{m}: recovered units {present} are not a prefix of the commit sequence'
            need = req_power[m - 1] if power_loss else req_proc[m - 1]
            if j < need:
                what = 'made durable by a successful sync-level persist' if power_loss else 'acknowledged / flushed'
                return True, sp2, f'image #{m} ({"power loss" if power_loss else "process crash"}): only {j} of the {need} writes {what} were recovered (steps {steps})'
        return False, spath, 'held natively'
    finally:
        shutil.rmtree(work, ignore_errors=True)
