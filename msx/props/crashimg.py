"""Crash images built from the real execution (native side of C02 / C09 / C10 / C13).

process-crash image  = copy of the directory made by the driver at the crash point (everything write()-n is there,
                       BufWriter content is not)
power-loss image     = the same copy with every journal cut to the length that had been fsync/fdatasync-ed at that
                       point, computed from an strace log of the real run (independent of the verification hooks):
                       journals are created with O_EXCL and written sequentially, so durable length = bytes written to
                       the fd before its last successful fsync/fdatasync; the unsynced tail is zeroed (pre-allocation).
"""
import os, re, shutil


def durable_lengths(trace_lines, upto_mark):
    """{journal path: durable length} at the moment the driver emitted `mark <upto_mark>`"""
    fds = {}      # (pid-independent) fd -> path
    pos = {}      # path -> bytes written so far
    durable = {}
    for l in trace_lines:
        m = re.match(r'^\d+\s+(.*)$', l)
        body = m.group(1) if m else l
        if 'MARK %s"' % upto_mark in body or f'"MARK {upto_mark}"' in body:
            break
        mo = re.match(r'openat\(AT_FDCWD, "([^"]+\.jnl)", ([A-Z_|]+).*\) = (\d+)', body)
        if mo:
            path, flags, fd = mo.group(1), mo.group(2), int(mo.group(3))
            fds[fd] = path
            if 'O_EXCL' in flags or 'O_TRUNC' in flags:
                pos[path] = 0; durable.setdefault(path, 0)
            else:
                pos.setdefault(path, None)     # opened for append/read on an existing file: offset unknown
            continue
        mo = re.match(r'(?:write|pwrite64)\((\d+), .*\) = (\d+)', body)
        if mo:
            fd, n = int(mo.group(1)), int(mo.group(2))
            p = fds.get(fd)
            if p is not None and pos.get(p) is not None:
                pos[p] += n
            continue
        mo = re.match(r'(fsync|fdatasync)\((\d+)\)\s+= 0', body)
        if mo:
            p = fds.get(int(mo.group(2)))
            if p is not None and pos.get(p) is not None:
                durable[p] = pos[p]
            continue
        mo = re.match(r'close\((\d+)\)', body)
        if mo:
            fds.pop(int(mo.group(1)), None)
    return durable, pos


def cut_image(img_dir, orig_dir, durable):
    """zero the journal bytes beyond the durable length in the copied image; returns {file: (durable, written)}"""
    out = {}
    for path, d in durable.items():
        rel = os.path.relpath(path, orig_dir)
        ip = os.path.join(img_dir, rel)
        if not os.path.exists(ip):
            continue
        size = os.path.getsize(ip)
        with open(ip, 'r+b') as fh:
            fh.truncate(min(d, size))
            fh.truncate(size)
        out[rel] = d
    return out


def key(i):
    return '6b%02x' % (0x30 + i)


def run_crash_workload(ctx, steps, tag, manual=0, power_loss=True, two_ks=False, kind='plain'):
    """steps: 'w' insert next key into a · 'v' insert next key into b · 'b' batch of two next keys (over a and b when two_ks) · 'c' clear a ·
    'r' rotate a's memtable and run the worker (journal rotation is forced at that flush tick) · 'p:<mode>' persist · 'x' crash point.
    Returns (violated, replay_path, detail).  Oracle: at every crash point the recovered content of all keyspaces equals the state after some PREFIX
    of the acknowledged operations, and that prefix contains every operation acknowledged before the last successful sync-level persist (power loss) /
    every acknowledged operation (process crash, automatic persist) / every operation before the last persist (manual)."""
    two_ks = two_ks or any(s_ in ('v',) for s_ in steps)
    rot = any(s_ == 'r' for s_ in steps)
    L = ['dir $DIR/db', f'kind {kind}', f'open workers=0 manual_persist={manual}'] + (['rotation_threshold 0'] if rot else []) + [f'ks a manual={manual}'] + ([f'ks b manual={manual}'] if two_ks else [])
    n = 0; mark = 0
    states = [{'a': {}, 'b': {}}]        # states[i] = content after i acknowledged units
    descr = []
    req_power = []; req_proc = []
    synced = 0; flushed = 0

    def push(fn, what):
        import copy
        st = copy.deepcopy(states[-1]); fn(st); states.append(st); descr.append(what)
    for s in steps:
        if s in ('w', 'v'):
            n += 1; ksn = 'a' if s == 'w' else 'b'; k = key(n)
            L.append(f'insert {ksn} {k} 31'); push(lambda st, ksn=ksn, k=k: st[ksn].__setitem__(k, '31'), f'insert {ksn} {k}')
            if not manual:
                flushed = len(states) - 1
        elif s == 'b':
            k1, k2 = key(n + 1), key(n + 2); n += 2
            ksb = 'b' if two_ks else 'a'
            L.append(f'batch2 a {k1} 42 {ksb} {k2} 42')
            push(lambda st, k1=k1, k2=k2, ksb=ksb: (st['a'].__setitem__(k1, '42'), st[ksb].__setitem__(k2, '42')), f'batch a:{k1} {ksb}:{k2}')
            if not manual:
                flushed = len(states) - 1
        elif s.startswith('B:'):
            # a batch committed with an explicit durability level: durable when commit returns (sync levels) / OS-visible (buffer)
            mode = s[2:]
            k1, k2 = key(n + 1), key(n + 2); n += 2
            bid = f'd{n}'
            L += [f'batch {bid} begin', f'batch {bid} durability {mode}', f'batch {bid} insert a {k1} 44', f'batch {bid} insert a {k2} 44', f'batch {bid} commit']
            push(lambda st, k1=k1, k2=k2: (st['a'].__setitem__(k1, '44'), st['a'].__setitem__(k2, '44')), f'durable batch({mode}) a:{k1},{k2}')
            flushed = len(states) - 1
            if mode in ('syncdata', 'syncall'):
                synced = len(states) - 1
        elif s.startswith('T:'):
            # a transaction committed with an explicit durability level (transactional database kinds only)
            mode = s[2:]
            k1, k2 = key(n + 1), key(n + 2); n += 2
            tid = f't{n}'
            L += [f'tx {tid} begin', f'tx {tid} durability {mode}', f'tx {tid} insert a {k1} 54', f'tx {tid} insert a {k2} 54', f'tx {tid} commit']
            push(lambda st, k1=k1, k2=k2: (st['a'].__setitem__(k1, '54'), st['a'].__setitem__(k2, '54')), f'durable transaction({mode}) a:{k1},{k2}')
            flushed = len(states) - 1
            if mode in ('syncdata', 'syncall'):
                synced = len(states) - 1
        elif s == 'c':
            L.append('clear a'); push(lambda st: st['a'].clear(), 'clear a')
            if not manual:
                flushed = len(states) - 1
        elif s == 'r':
            L += ['rotate a', 'worker_drain']
            # rotating the journal persists the sealed journal with SyncAll (Writer::rotate): everything acknowledged so far is durable afterwards
            flushed = len(states) - 1; synced = len(states) - 1
        elif s.startswith('p:'):
            mode = s[2:]
            L.append(f'{"persist" if kind == "plain" else "tpersist"} {mode}')
            flushed = len(states) - 1
            if mode in ('syncdata', 'syncall'):
                synced = len(states) - 1
        elif s == 'x':
            mark += 1
            L.append(f'mark {mark}'); L.append(f'copydir $DIR/db $DIR/img{mark}')
            req_power.append(synced); req_proc.append(flushed)
    L.append('close')
    text = '\n'.join(L) + '\n'
    r = ctx.run_scenario(text, tag=tag, strace=power_loss, keep_work=True)
    spath, out = r[0], r[1]
    trace = r[2] if power_loss else []
    work = ctx.last_work
    import shutil, os
    try:
        if any(c == 'CRASH' for _i, c, _r in out):
            return True, spath, 'crash: ' + out[-1][2][-200:]
        errs = [(c, r) for _i, c, r in out if r.startswith('err')]
        if errs:
            return False, spath, f'workload did not run cleanly: {errs[:2]}'
        for m in range(1, mark + 1):
            img = os.path.join(work, f'img{m}')
            if power_loss:
                durable, _pos = durable_lengths(trace, m)
                cut_image(img, os.path.join(work, 'db'), durable)
            L2 = [f'dir {img}', f'open workers=0 manual_persist={manual}', 'ks a'] + (['ks b'] if two_ks else []) + ['dump a'] + (['dump b'] if two_ks else []) + ['close']
            sp2, out2 = ctx.run_scenario('\n'.join(L2) + '\n', tag=f'{tag}-img{m}')
            if any(c == 'CRASH' for _i, c, _r in out2):
                return True, sp2, f'recovering the crash image #{m} crashed: ' + out2[-1][2][-200:]
            opens = [r for _i, c, r in out2 if c == 'open']
            if not opens or opens[0] != 'ok':
                return True, sp2, f'reopening the {"power-loss" if power_loss else "process-crash"} image #{m} fails: {opens}'
            dumps = [r for _i, c, r in out2 if c == 'dump']
            got = {'a': {}, 'b': {}}
            for ksn, d in zip(['a', 'b'], dumps):
                for x in d[1:-1].split(','):
                    if x:
                        kk, vv = x.split(':'); got[ksn][kk] = vv
            if not two_ks:
                got['b'] = {}
            upto = len(states) - 1
            match = [j for j in range(len(states)) if states[j] == got]
            need = req_power[m - 1] if power_loss else req_proc[m - 1]
            kind = 'power loss' if power_loss else 'process crash'
            if not match:
                return True, sp2, f'image #{m} ({kind}): the recovered content {got} is the state after no prefix of the acknowledged operations {descr} (steps {steps})'
            if max(match) < need:
                what = 'made durable by a successful sync-level persist' if power_loss else 'acknowledged / flushed'
                return True, sp2, f'image #{m} ({kind}): the recovered content is the state after {max(match)} operations, but {need} operations were {what}: lost {descr[max(match):need]} (steps {steps})'
        return False, spath, 'held natively'
    finally:
        shutil.rmtree(work, ignore_errors=True)
