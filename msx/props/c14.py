"""C14 — concurrent single operations are linearizable and no write is lost (safety part; liveness not applicable).

M obligations:
  critical-section/<op>   in every writer, the seqno draw, every journal append, every tree write and the publish all lie
                          between taking the journal lock and releasing it (so at event granularity writers are serial and
                          the commit order = seqno order = journal order = visibility order)
  rotation/id-recheck     memtable rotation re-checks the active memtable id under the journal lock and enqueues exactly one
                          flush task per successful rotation
  ingestion/holds-lock    Ingestion::finish holds the journal lock across the tree's finish()
M/C: z3 model of two writer threads + a reader over the extracted event order (symbolic schedule): with the lock, every
interleaving is equivalent to a serial order consistent with real time.
Native replay: two threads through pause points at the journal lock.
"""
import z3
from ..core import ret_is_err, ret_is_ok, obj_name
from ..symex import Obj, EnumV, Ref, Cell, deref, bv
from . import common as C
from . import writepath as W


def check_critical_section(ctx, op):
    ob = ctx.ob(f'critical-section/{op}', f'{op}: seqno draw, journal appends, tree writes and publish happen while the journal lock is held', [C.WRITERS[op]])
    ex, paths, recs = W.run_op(ctx, op, value_types=['Value'] if op == 'batch' else None)
    if C.incomplete(paths):
        ob.status = 'undecided'; ob.detail = 'executor: ' + str(C.incomplete(paths)[0].notes[-1:]); return ob
    bad = []
    for r in recs:
        p = r.p
        if p.status != 'returned':
            continue
        effects = r.nexts + r.appends + r.flushes + r.tree + r.publish
        if not effects:
            continue
        ob.reach += 1
        if len(r.locks) != 1:
            bad.append((p, f'{len(r.locks)} journal lock acquisitions')); continue
        lk = r.locks[0].idx
        ul = min([e.idx for e in r.unlocks if e.idx > lk], default=None)
        if ul is None:
            bad.append((p, 'journal lock never released')); continue
        out = [e for e in effects if not (lk < e.idx < ul)]
        if out:
            bad.append((p, f'{out[0].kind} happens outside the journal lock'))
    if ob.reach == 0:
        ob.status = 'undecided'; ob.detail = 'vacuous'
    elif not bad:
        ob.status = 'discharged'; ob.sample = {'paths': ob.reach}
    else:
        p, why = bad[0]
        def confirm():
            r1 = native_two_writers(ctx, op)
            if r1[0]:
                return r1
            r2 = native_apply_outside_lock(ctx, op)
            return r2 if r2[0] else r1
        ctx.candidate(ob, f'{op}/effects-outside-journal-lock', f'{op}: {why}; events: ' + ' · '.join(e.kind for e in p.events)[:240], confirm=confirm)
    return ob


def native_two_writers(ctx, op):
    """thread B is parked right before taking the journal lock inside `op`; the main thread performs writes; B resumes.
    Afterwards live state, and the state after reopen, must equal the operations applied in their completion order."""
    K1, K2 = '6b31', '6b32'
    opl = {'insert': f'insert a {K1} 42', 'remove': f'remove a {K1}', 'remove_weak': f'remove_weak a {K1}', 'clear': 'clear a',
           'batch': f'batch2 a {K1} 42 a {K2} 42'}[op]
    after = {'insert': {K1: '42', K2: '4d'}, 'remove': {K2: '4d'}, 'remove_weak': {K2: '4d'}, 'clear': {}, 'batch': {K1: '42', K2: '42'}}[op]
    L = ['dir $DIR/db', 'open workers=0', 'ks a', f'insert a {K1} 30', 'arm_pause journal.get_writer', f'spawn B {opl}', 'wait_parked journal.get_writer 5000',
         f'insert a {K1} 4d', f'insert a {K2} 4d', 'release journal.get_writer', 'join B', 'dump a', 'seqno', 'close', 'open workers=0', 'ks a', 'dump a', 'close']
    spath, out = ctx.run_scenario('\n'.join(L) + '\n', tag=f'twowriters-{op}')
    rs = [(c, r) for _i, c, r in out]
    if any(c == 'CRASH' for c, _r in rs):
        return True, spath, 'crash: ' + rs[-1][1][-200:]
    dumps = [r for c, r in rs if c == 'dump']
    want = '[' + ','.join(f'{k}:{after[k]}' for k in sorted(after)) + ']'
    if len(dumps) == 2 and (dumps[0] != want or dumps[1] != want):
        return True, spath, f'B ({opl}) completed after the main thread\'s writes, so the content must be {want}; live={dumps[0]} after reopen={dumps[1]}'
    return False, spath, 'held natively'


def native_apply_outside_lock(ctx, op):
    """B is parked right before its tree apply.  With the journal lock held (correct), another writer cannot complete.
    If it can, a snapshot taken now misses B's write although its seqno is below the snapshot instant, and sees it appear later."""
    K1, K2, K3 = '6b31', '6b32', '6b33'
    opl = {'insert': f'insert a {K2} 42', 'remove': f'remove a {K1}', 'remove_weak': f'remove_weak a {K1}'}.get(op)
    if opl is None:
        return native_two_writers(ctx, op)
    probe = K2 if op == 'insert' else K1
    L = ['dir $DIR/db', 'open workers=0', 'ks a', f'insert a {K1} 30', 'arm_pause writer.before_apply', f'spawn B {opl}', 'wait_parked writer.before_apply 5000',
         f'spawn_free C insert a {K3} 43', 'join_timeout C 400', 'snapshot s', f'snap_get s a {probe}', 'release writer.before_apply', 'join B', 'join_timeout C 5000',
         f'snap_get s a {probe}', 'snap_drop s', 'close']
    spath, out = ctx.run_scenario('\n'.join(L) + '\n', tag=f'applyrace-{op}')
    rs = [(c, r) for _i, c, r in out]
    if any(c == 'CRASH' for c, _r in rs):
        return True, spath, 'crash: ' + rs[-1][1][-200:]
    parked = [r for c, r in rs if c == 'wait_parked']
    if not parked or not parked[0].startswith('ok'):
        return False, spath, f'B did not park before its apply ({parked})'
    jt = [r for c, r in rs if c == 'join_timeout']
    gets = [r for c, r in rs if c == 'snap_get']
    if jt and jt[0] != 'pending':
        detail = f'while `{opl}` was between its journal append and its tree apply, another write completed ({jt[0]}): the journal lock is not held across the apply'
        if len(gets) == 2 and gets[0] != gets[1]:
            detail += f'; a snapshot taken in between read {gets[0]} and later {gets[1]} for the same key'
            return True, spath, detail
        return True, spath, detail + '; commit order and apply order can differ'
    return False, spath, 'held natively (the concurrent writer blocked until B finished)'


def check_stall_outside_lock(ctx):
    """a writer that waits for background work (write stall / halt loops) must not hold the journal lock: flush workers need that lock to make the
    progress the writer is waiting for (necessary condition of 'stalls always let writers proceed eventually'; liveness itself is not decided)"""
    for op in ('insert', 'remove', 'remove_weak', 'batch'):
        ob = ctx.ob(f'stall/outside-lock-{op}', f'{op}: memtable-size maintenance and the write-stall loops run after the journal lock has been released', [C.WRITERS[op]])
        setup = C.batch_setup(2, value_types=['Value']) if op == 'batch' else None
        ex, paths = ctx.run(C.WRITERS[op], setup=setup, cache_key=f'stall.{op}', loop_bound=3,
                            no_inline=C.NO_BACKPRESSURE + [r'keyspace::<impl>::maintenance$', r'Keyspace::maintenance$', r'check_memtable_rotate$'])
        bad = []
        for p in paths:
            if p.status != 'returned':
                continue
            st_calls = [e for e in p.events if e.kind == 'CALL' and e.args.get('callee', '').endswith(('local_backpressure', 'check_write_halt', 'perform_write_stall', '::maintenance'))
                        and 'JournalManager' not in e.args.get('callee', '') and 'MetaKeyspace' not in e.args.get('callee', '')]
            if not st_calls:
                continue
            ob.reach += 1
            lk = [e for e in p.events if C.is_journal_lock(e)]
            ul = [e for e in p.events if C.is_journal_unlock(e)]
            for sc in st_calls:
                held = [l for l in lk if l.idx < sc.idx and not any(l.idx < u.idx < sc.idx for u in ul)]
                if held:
                    bad.append((p, f'{sc.args["callee"].split("::")[-1]} runs while the journal lock is held: a writer stalled there blocks the flush worker (which needs the lock) and with it every other writer')); break
        if ob.reach == 0:
            ob.status = 'undecided'; ob.detail = 'vacuous'
        elif not bad:
            ob.status = 'discharged'; ob.sample = {'paths': ob.reach}
        else:
            ctx.candidate(ob, f'{op}/stalls-under-journal-lock', f'{op}: {bad[0][1]}', confirm=lambda op=op: native_stall(ctx, op))


def native_stall(ctx, op):
    """4 sealed memtables are queued; a writer of kind `op` returns into the stall loop; the flush work runs on another thread: everything must finish"""
    cmd = {'insert': 'insert a 6b39 39', 'remove': 'remove a 6b39', 'remove_weak': 'remove_weak a 6b39', 'batch': 'batch1 a 6b39 39'}[op]
    L = ['dir $DIR/db', 'open workers=0', 'ks a']
    for i in range(4):
        L += [f'insert a 6b3{i} 3{i}', 'rotate a']
    L += [f'spawn_free T {cmd}', 'join_timeout T 700', 'spawn_free D wdrain', 'join_timeout D 8000', 'join_timeout T 8000', 'get a 6b30']
    spath, out = ctx.run_scenario('\n'.join(L) + '\n', tag='stall-' + op)
    rs = [(c, r) for _i, c, r in out]
    if any(c == 'CRASH' for c, _r in rs):
        return False, spath, 'replay ended abnormally: ' + rs[-1][1][-200:]
    jt = [r for c, r in rs if c == 'join_timeout']
    if len(jt) == 3 and (jt[1] == 'pending' or jt[2] == 'pending'):
        return True, spath, (f'with 4 sealed memtables queued, `{cmd}` went into the write stall; the flush work started on another thread did not finish within 8 s '
                             f'(flush thread: {jt[1]}, writer: {jt[2]}): the stalled writer holds the journal lock the flush needs')
    return False, spath, 'held natively'


def check_rotation(ctx):
    pat = r'^keyspace::<impl>::inner_rotate_memtable$'
    ob = ctx.ob('rotation/id-recheck', 'inner_rotate_memtable rotates only if the active memtable id still matches, under the journal lock handed in, and enqueues one flush task per rotation', [pat])
    ex, paths = ctx.run(pat, cache_key='rot', no_inline=C.NO_BACKPRESSURE + [r'SnapshotTracker::(gc|pullup)$', r'FlushManager::enqueue$', r'JournalManager::maintenance$'], loop_bound=2)
    bad = []
    for p in paths:
        if p.status != 'returned':
            continue
        rot = [e for e in p.events if e.kind == 'T_ROTATE']
        enq = [e for e in p.events if e.kind == 'CALL' and e.args.get('callee', '').endswith('FlushManager::enqueue')]
        ids = [e for e in p.events if e.kind in ('T_QUERY',) and e.args.get('what') == 'active_memtable']
        ob.reach += 1
        if rot and not any(e.idx < rot[0].idx for e in ids):
            bad.append((p, 'rotates without re-reading the active memtable id')); continue
        rotated_some = False
        if rot and isinstance(rot[0].res, EnumV):
            rotated_some = ctx.sat(p.pc + [rot[0].res.disc != bv(1)], ob)[0] == z3.unsat
        if rotated_some and len(enq) != 1:
            bad.append((p, f'{len(enq)} flush tasks enqueued for one rotation')); continue
        if not rotated_some and enq:
            bad.append((p, 'flush task enqueued without a rotation')); continue
        unl = [e for e in p.events if e.kind == 'UNLOCK' and 'MutexGuard' in str(e.args.get('guard'))]
        if rot and unl and unl[0].idx < rot[0].idx:
            bad.append((p, 'journal lock released before the memtable is rotated'))
    if ob.reach == 0:
        ob.status = 'undecided'; ob.detail = 'vacuous'
    elif not bad:
        ob.status = 'discharged'; ob.sample = {'paths': ob.reach}
    else:
        from . import oracle
        ctx.candidate(ob, 'inner_rotate_memtable/rotation-protocol', f'rotation: {bad[0][1]}', confirm=lambda: oracle.run_battery(ctx, 'c14-rot', focus='maint'))
    return ob


def check_ingestion(ctx):
    pat = r'^ingestion::<impl>::finish$'
    ob = ctx.ob('ingestion/holds-lock', 'Ingestion::finish holds the journal lock across the tree ingestion\'s finish()', [pat])
    ex, paths = ctx.run(pat, cache_key='ing', no_inline=[r'SnapshotTracker::gc$'], loop_bound=2)
    bad = []
    for p in paths:
        if p.status != 'returned':
            continue
        fin = [e for e in p.events if e.kind == 'CALL' and 'AnyIngestion' in e.args.get('callee', '') and e.args['callee'].endswith('finish')]
        if not fin:
            continue
        ob.reach += 1
        lk = [e for e in p.events if C.is_journal_lock(e) and e.idx < fin[0].idx]
        ul = [e for e in p.events if C.is_journal_unlock(e) and e.idx < fin[0].idx]
        if not lk or ul:
            bad.append((p, 'tree ingestion finishes without holding the journal lock'))
    if ob.reach == 0:
        ob.status = 'undecided'; ob.detail = 'vacuous'
    elif not bad:
        ob.status = 'discharged'; ob.sample = {'paths': ob.reach}
    else:
        ctx.candidate(ob, 'Ingestion.finish/no-journal-lock', f'ingestion: {bad[0][1]}', confirm=lambda: native_ingest_vs_write(ctx))
    return ob


def native_ingest_vs_write(ctx):
    """an ingestion is parked between taking the journal lock and registering its tables; another thread overwrites one of the ingested keys.
    Linearizable outcomes: the write is ordered after the ingestion (it waits for the lock) — afterwards point read and scan both show the written value."""
    K = '6b31'
    L = ['dir $DIR/db', 'open workers=0', 'ks d', 'arm_pause ingestion.before_finish', f'spawn W ingest1 d {K} 494e', 'wait_parked ingestion.before_finish 3000',
         f'spawn_free X insert d {K} 5752', 'join_timeout X 1500', 'release ingestion.before_finish', 'join W', 'join_timeout X 5000', f'get d {K}', 'dump d',
         'rotate d', 'worker_drain', 'major_compact d', f'get d {K}', 'dump d', 'close']
    spath, out = ctx.run_scenario('\n'.join(L) + '\n', tag='ingest-vs-write')
    rs = [(c, r) for _i, c, r in out]
    if any(c == 'CRASH' for c, _r in rs):
        return True, spath, 'crash: ' + rs[-1][1][-200:]
    parked = [r for c, r in rs if c == 'wait_parked']
    if not parked or not parked[0].startswith('ok'):
        return False, spath, f'ingestion did not reach the pause point ({parked})'
    gets = [r for c, r in rs if c == 'get']; dumps = [r for c, r in rs if c == 'dump']
    jt = [r for c, r in rs if c == 'join_timeout']
    want_get, want_dump = 'some:5752', f'[{K}:5752]'
    for i, (g, d) in enumerate(zip(gets, dumps)):
        if g != want_get or d != want_dump:
            when = 'right after both calls returned' if i == 0 else 'after flush and major compaction'
            return True, spath, (f'an insert that ran while an ingestion of the same key was between its journal-lock acquisition and the table registration '
                                 f'(insert returned early: {jt[:1]}) is not ordered after it: {when} get={g} scan={d}, expected {want_get} / {want_dump}')
    return False, spath, 'held natively'


def check_schedule_model(ctx):
    """M/C: two writers (event lists extracted from `insert`) + one reader, symbolic interleaving at event granularity,
    mutex as enabledness.  Assert: final value and reader observations are explained by a serial order consistent with
    the order of the writers' returns."""
    ob = ctx.ob('schedule-model/two-writers', 'z3 model over the extracted event order: all interleavings of two writers (lock · draw · append · apply · publish · unlock) and a reader are linearizable', [C.WRITERS['insert']])
    ex, paths, recs = W.run_op(ctx, 'insert')
    okr = [r for r in recs if r.ok]
    if not okr:
        ob.status = 'undecided'; ob.detail = 'no acknowledged insert path'; return ob
    r = okr[0]
    order = [e for e in r.p.events if e in r.locks or e in r.nexts or e in r.appends or e in r.tree or e in r.publish or e in r.unlocks]
    kinds = []
    for e in order:
        kinds.append('LOCK' if e in r.locks else 'NEXT' if e in r.nexts else 'APPEND' if e in r.appends else 'APPLY' if e in r.tree else 'PUBLISH' if e in r.publish else 'UNLOCK')
    # collapse the three appends into one step
    steps = []
    for k in kinds:
        if k == 'APPEND' and steps and steps[-1] == 'APPEND':
            continue
        steps.append(k)
    n = len(steps)
    T = 2 * n + 2          # two writers + reader's two steps (snapshot, read)

    def build(with_mutex):
      s = z3.Solver()
      if True:
        sched = [z3.Int(f'sched{i}') for i in range(T)]     # 0,1 writers; 2 reader
        pc = [[z3.Int(f'pc{t}_{i}') for i in range(T + 1)] for t in range(3)]
        S = [z3.Int(f'S{i}') for i in range(T + 1)]; V = [z3.Int(f'V{i}') for i in range(T + 1)]
        owner = [z3.Int(f'own{i}') for i in range(T + 1)]
        seq = [[z3.Int(f'seq{t}_{i}') for i in range(T + 1)] for t in range(2)]
        applied = [[z3.Bool(f'app{t}_{i}') for i in range(T + 1)] for t in range(2)]
        snap = [z3.Int(f'snap{i}') for i in range(T + 1)]
        seen = [[z3.Bool(f'seen{t}_{i}') for i in range(T + 1)] for t in range(2)]
        s.add(S[0] == 0, V[0] == 0, owner[0] == -1, snap[0] == -1)
        for t in range(3):
            s.add(pc[t][0] == 0)
        for t in range(2):
            s.add(seq[t][0] == -1, applied[t][0] == False, seen[t][0] == False)
        lens = [n, n, 2]
        for i in range(T):
            s.add(z3.Or(sched[i] == 0, sched[i] == 1, sched[i] == 2))
            for t in range(3):
                me = sched[i] == t
                s.add(z3.Implies(me, pc[t][i] < lens[t]))
                s.add(pc[t][i + 1] == z3.If(me, pc[t][i] + 1, pc[t][i]))
            frame = []
            for t in range(2):
                me = sched[i] == t
                for j, k in enumerate(steps):
                    at = z3.And(me, pc[t][i] == j)
                    if k == 'LOCK':
                        s.add(z3.Implies(at, owner[i] == -1)) if with_mutex else None
            # state updates
            def upd(var, default, cases):
                e = default
                for c, v in reversed(cases):
                    e = z3.If(c, v, e)
                return e
            own_cases, S_cases, V_cases = [], [], []
            for t in range(2):
                me = sched[i] == t
                for j, k in enumerate(steps):
                    at = z3.And(me, pc[t][i] == j)
                    if k == 'LOCK':
                        own_cases.append((at, z3.IntVal(t)))
                    if k == 'UNLOCK':
                        own_cases.append((at, z3.IntVal(-1)))
                    if k == 'NEXT':
                        S_cases.append((at, S[i] + 1))
                    if k == 'PUBLISH':
                        V_cases.append((at, z3.If(seq[t][i] + 1 > V[i], seq[t][i] + 1, V[i])))
                nxt = [z3.And(sched[i] == t, pc[t][i] == j) for j, k in enumerate(steps) if k == 'NEXT']
                app = [z3.And(sched[i] == t, pc[t][i] == j) for j, k in enumerate(steps) if k == 'APPLY']
                s.add(seq[t][i + 1] == z3.If(z3.Or(*nxt) if nxt else False, S[i], seq[t][i]))
                s.add(applied[t][i + 1] == z3.Or(applied[t][i], z3.Or(*app) if app else False))
            s.add(owner[i + 1] == upd(owner, owner[i], own_cases))
            s.add(S[i + 1] == upd(S, S[i], S_cases))
            s.add(V[i + 1] == upd(V, V[i], V_cases))
            rd_snap = z3.And(sched[i] == 2, pc[2][i] == 0)
            rd_read = z3.And(sched[i] == 2, pc[2][i] == 1)
            s.add(snap[i + 1] == z3.If(rd_snap, V[i], snap[i]))
            for t in range(2):
                s.add(seen[t][i + 1] == z3.If(rd_read, z3.And(applied[t][i], seq[t][i] < snap[i]), seen[t][i]))
        for t in range(3):
            s.add(pc[t][T] == lens[t])
        # both writers write the same key; linearizability: the final value is that of the writer with the larger seqno, and that
        # writer did not return before the other one started; the reader never sees the later write without the earlier one;
        # and a reader whose snapshot was taken after a writer returned sees that writer
        ret_step = [z3.Int(f'ret{t}') for t in range(2)]; start_step = [z3.Int(f'start{t}') for t in range(2)]
        for t in range(2):
            s.add(z3.Or(*[z3.And(ret_step[t] == i, sched[i] == t, pc[t][i] == n - 1) for i in range(T)]))
            s.add(z3.Or(*[z3.And(start_step[t] == i, sched[i] == t, pc[t][i] == 0) for i in range(T)]))
        snap_step = z3.Int('snap_step')
        s.add(z3.Or(*[z3.And(snap_step == i, sched[i] == 2, pc[2][i] == 0) for i in range(T)]))
        viol = []
        for a, b in ((0, 1), (1, 0)):
            # a returned before b started but a's seqno is larger (order inversion)
            viol.append(z3.And(ret_step[a] < start_step[b], seq[a][T] > seq[b][T]))
            # reader sees b (larger seqno) but not a (smaller seqno)
            viol.append(z3.And(seq[a][T] < seq[b][T], seen[b][T], z3.Not(seen[a][T])))
            # stale read: snapshot taken after a returned does not contain a
            viol.append(z3.And(ret_step[a] < snap_step, z3.Not(seen[a][T])))
        s.add(z3.Or(*viol))
      return s, sched
    import time
    t0 = time.time()
    s, sched = build(True)
    res = s.check()
    s2, _ = build(False)
    twin = s2.check()       # vacuity witness: without mutual exclusion the same query must be satisfiable
    ctx.solver_s += time.time() - t0; ctx.queries += 2; ob.queries += 2
    ob.reach = 1 if twin == z3.sat else 0
    if twin != z3.sat:
        ob.status = 'undecided'; ob.detail = 'vacuity witness failed: the model cannot express a non-linearizable schedule even without the lock'
        return ob
    if res == z3.unsat:
        ob.unsat += 1
        ob.status = 'discharged'; ob.sample = {'steps_per_writer': steps, 'global_steps': T, 'threads': 3, 'vacuity_twin_without_mutex': 'sat'}
    elif res == z3.sat:
        m = s.model()
        order_ = [m.eval(x).as_long() for x in sched]
        txt = f'schedule {order_} over writer steps {steps} is not linearizable'
        ctx.candidate(ob, 'insert/schedule-not-linearizable', txt, confirm=lambda: native_two_writers(ctx, 'insert'))
    else:
        ob.status = 'undecided'; ob.detail = 'solver returned unknown'
    return ob


def _lock_class(name):
    n = name.rstrip("'")
    for key, cls in (('journal_manager', 'journal manager'), ('keyspaces', 'keyspace dictionary'), ('backpressure_lock', 'backpressure lock'), ('write_serialize_lock', 'oracle commit lock'),
                     ('single_writer_lock', 'single-writer lock'), ('gc_lock', 'snapshot gc lock'), ('thread_handles', 'worker handles'), ('flush_manager', 'flush queue')):
        if key in n:
            return cls
    if 'journal' in n:
        return 'journal lock'
    return n.split('.')[-1].split('→')[-1] or n


LOCK_ORDER_ENTRIES = [
    (r'^db::<impl>::keyspace$', {'no_inline': [r'apply_to_base_config$', r'lsm_tree::Config::open$', r'Keyspace::create_new$', r'keyspace::<impl>::create_new$', r'encode_kvs$', r'MetaKeyspace::maintenance$']}),
    (r'^db::<impl>::delete_keyspace$', {'no_inline': [r'MetaKeyspace::maintenance$']}),
    (r'^db::<impl>::persist$', {}),
    (r'^ingestion::<impl>::finish$', {'no_inline': [r'SnapshotTracker::gc$']}),
    (r'^keyspace::<impl>::rotate_memtable$', {'no_inline': [r'SnapshotTracker::(gc|pullup)$', r'get_version_history_lock$', r'JournalManager::maintenance$']}),
    (r'^db::<impl>::drop$', {'no_inline': [r'FlushManager::clear$', r'StopSignal::send$']}),
]


def check_lock_order(ctx):
    """deadlock freedom of the foreground/background lock protocol: over all symbolic paths of the writers, the worker tick, keyspace creation/deletion, persist, ingestion, rotation
    and drop, collect every pair (lock held -> lock acquired) and require the relation to be acyclic (a cycle = two threads that can wait for each other forever)"""
    ob = ctx.ob('locks/acyclic-order', 'no two code paths acquire two of the database\'s locks (journal lock, journal manager, keyspace dictionary, ...) in opposite orders: the held->acquired relation over '
                'writers, worker tick, keyspace create/delete, persist, ingestion, rotation and drop is acyclic', ['*'])
    edges = {}       # (a, b) -> (entry, path)
    skipped = []

    def scan(entry, paths):
        for p in paths:
            held = []
            for e in p.events:
                if e.kind in ('LOCK', 'RLOCK', 'WLOCK'):
                    c = _lock_class(obj_name(e))
                    for h in held:
                        if h != c:
                            edges.setdefault((h, c), (entry, p))
                    held.append(c)
                    ob.reach += 1
                elif e.kind == 'UNLOCK':
                    c = _lock_class(obj_name(e))
                    if c in held:
                        held.reverse(); held.remove(c); held.reverse()
    for op in ('insert', 'remove', 'remove_weak', 'clear', 'batch'):
        ex, paths, recs = W.run_op(ctx, op, value_types=['Value'] if op == 'batch' else None)
        scan(op, paths)
    from . import c10
    ex, paths = c10.run_tick(ctx)
    scan('worker_tick', paths)
    for pat, kw in LOCK_ORDER_ENTRIES:
        try:
            ex, paths = ctx.run(pat, cache_key='lockorder.' + pat, loop_bound=2, **kw)
            scan(pat.strip('^$'), paths)
        except Exception as e:      # noqa
            skipped.append(f'{pat}: {e!r}'[:120])
    # cycle search
    graph = {}
    for (a, b) in edges:
        graph.setdefault(a, set()).add(b)
    cyc = None

    def dfs(n, stack, seen):
        nonlocal cyc
        if cyc:
            return
        for m in graph.get(n, ()):
            if m in stack:
                cyc = stack[stack.index(m):] + [m]; return
            if m not in seen:
                seen.add(m); dfs(m, stack + [m], seen)
    for n in list(graph):
        if cyc:
            break
        dfs(n, [n], {n})
    ob.sample = {'edges': sorted(f'{a} -> {b} ({edges[(a, b)][0]})' for a, b in edges), 'skipped': skipped}
    if ob.reach == 0:
        ob.status = 'undecided'; ob.detail = 'vacuous'
    elif cyc is None:
        ob.status = 'discharged'
    else:
        pairs = list(zip(cyc, cyc[1:]))
        why = '; '.join(f'{a} is held while {b} is taken in {edges[(a, b)][0]}' for a, b in pairs)
        ctx.candidate(ob, 'locks/opposite-orders', f'{ob.id}: lock-order cycle {" -> ".join(cyc)}: {why}: two threads on these paths can block each other forever', confirm=lambda: native_lock_inversion(ctx))
    return ob


def native_lock_inversion(ctx):
    """a batch committer is parked right before it takes the journal lock (holding whatever it took before); a flush tick with a forced journal rotation runs on another thread
    (journal lock -> journal manager -> keyspace dictionary); then the committer is released.  Both must finish."""
    K = '6b31'
    L = ['dir $DIR/db', 'open workers=0', 'rotation_threshold 0', 'ks a', 'ks b', f'insert a {K} 31', f'insert b {K} 41', 'rotate a',
         'arm_pause journal.get_writer', f'spawn B batch2 a 6b32 42 b 6b32 42', 'wait_parked journal.get_writer 4000', 'spawn_free W wdrain', 'sleep 500', 'release journal.get_writer',
         'join_timeout B 6000', 'join_timeout W 6000']
    spath, out = ctx.run_scenario('\n'.join(L) + '\n', tag='lock-inversion')
    rs = [(c, r) for _i, c, r in out]
    parked = [r for c, r in rs if c == 'wait_parked']
    if not parked or not parked[0].startswith('ok'):
        return False, spath, f'the committer did not reach the journal lock ({parked})'
    jt = [r for c, r in rs if c == 'join_timeout']
    if len(jt) == 2 and jt[0] == 'pending' and jt[1] == 'pending':
        return True, spath, 'deadlock: a batch commit and a flush tick with journal rotation wait for each other (neither finished within 6 s after the committer was released); every later writer blocks on the journal lock'
    if any(c == 'CRASH' for c, _r in rs):
        return False, spath, 'replay ended abnormally: ' + rs[-1][1][-200:]
    return False, spath, f'held natively (committer: {jt[:1]}, flush tick: {jt[1:]})'


def check_compaction_progress(ctx):
    """the write halt (L0 run count) ends only through compactions: a Compact request must be acted upon - a worker may hand it back to the queue only when another worker exists"""
    ob = ctx.ob('compact/single-worker-compacts', 'worker_tick(Compact): the request is re-queued instead of run only if the pool has more than one worker; with a single worker it is run '
                '(otherwise nothing ever reduces the L0 run count and the write halt never ends)', [r'worker_tick'])
    from . import c10
    ex, paths = c10.run_tick(ctx)
    names = ex.src.struct_fields('worker_pool::WorkerState')
    bad = []
    for p in paths:
        if p.status != 'returned':
            continue
        calls = [e for e in p.events if e.kind == 'CALL']
        ran = [e for e in calls if e.args.get('callee', '').endswith(('compaction::worker::run', 'run_compaction'))]
        requeued = [e for e in calls if e.args.get('callee', '').endswith('Sender::send')]
        flush = [e for e in calls if e.args.get('callee', '').endswith(('flush::worker::run', 'run_flush', 'FlushManager::dequeue', 'inner_rotate_memtable'))]
        if flush or not (ran or requeued):
            continue
        ob.reach += 1
        if requeued and not ran:
            fr = p.st.frames[0] if p.st.frames else None
            ws = deref(fr.locals[fr.fn.args[0]].val) if fr is not None else None
            ps = ws.fields.get(names.index('pool_size')) if isinstance(ws, Obj) else None
            if ps is None or not z3.is_expr(ps.val):
                bad.append((p, 'a compaction request is handed back to the queue without looking at the pool size')); continue
            if ctx.sat(p.pc + [ps.val == bv(1)], ob)[0] != z3.unsat:
                bad.append((p, 'with a pool of ONE worker the compaction request is put back into the queue instead of being run: no compaction ever happens, the L0 run count only grows and writers halt forever'))
    if ob.reach == 0:
        ob.status = 'undecided'; ob.detail = 'vacuous'
    elif not bad:
        ob.status = 'discharged'; ob.sample = {'paths': ob.reach}
    else:
        ctx.candidate(ob, 'worker/compaction-never-runs', f'{ob.id}: {bad[0][1]}', confirm=lambda: native_single_worker_compacts(ctx))
    return ob


def native_single_worker_compacts(ctx):
    """one real worker thread; eight overlapping flushes of the same keys: the leveled strategy must bring the L0 run count back down"""
    L = ['dir $DIR/db', 'open workers=1', 'ks a']
    for i in range(8):
        L += [f'insert a 6b31 {0x30 + i:02x}', f'insert a 6b39 {0x30 + i:02x}', 'rotate_wait a']
    L += ['sleep 3000', 'l0_runs a', 'close']
    spath, out = ctx.run_scenario('\n'.join(L) + '\n', tag='single-worker-compacts')
    rs = [(c, r) for _i, c, r in out]
    if any(c == 'CRASH' for c, _r in rs):
        return False, spath, 'replay ended abnormally: ' + rs[-1][1][-200:]
    l0 = [r for c, r in rs if c == 'l0_runs']
    if l0 and l0[0].startswith('n='):
        n = int(l0[0][2:])
        if n >= 8:
            return True, spath, f'with a single worker thread no compaction ever ran: {n} L0 runs after 8 flushes and 3 s of idle time (at 30 the writers halt forever)'
        return False, spath, f'held natively ({n} L0 runs left)'
    return False, spath, f'no answer ({l0})'


def run(ctx):
    ctx.assumptions += [
        'E10/F3: every environment call is atomic and sequentially consistent at event granularity; Mutex gives mutual exclusion',
        'fjall code between two events touches only thread-local state',
        'liveness of the write-stall mechanism is not applicable (real time, sleep)',
    ]
    for op in ('insert', 'remove', 'remove_weak', 'clear', 'batch'):
        check_critical_section(ctx, op)
    check_rotation(ctx)
    check_ingestion(ctx)
    check_stall_outside_lock(ctx)
    check_schedule_model(ctx)
    check_lock_order(ctx)
    check_compaction_progress(ctx)
    for o in ctx.obligations:
        ctx.samples.append(o.as_dict())
    return ctx.finish()


MUTANTS = [
    {'name': 'insert releases the journal lock before the tree insert', 'edits': [('src/keyspace/mod.rs', """        let (item_size, memtable_size) = self.tree.insert(key, value, seqno);

        self.supervisor.snapshot_tracker.publish(seqno);

        drop(journal_writer);
""", """        drop(journal_writer);

        let (item_size, memtable_size) = self.tree.insert(key, value, seqno);

        self.supervisor.snapshot_tracker.publish(seqno);
""")]},
    {'name': 'remove draws the seqno before taking the lock', 'edits': [('src/keyspace/mod.rs', """        let key = key.into();

        let mut journal_writer = self.supervisor.journal.get_writer()?;

        // IMPORTANT: Check the poisoned flag after getting journal mutex, otherwise TOCTOU
        if self.is_poisoned.is_poisoned() {
            return Err(crate::Error::Poisoned);
        }

        let seqno = self.supervisor.seqno.next();

        journal_writer
            .write_raw(self.id, &key, &[], lsm_tree::ValueType::Tombstone, seqno)""", """        let key = key.into();

        let seqno = self.supervisor.seqno.next();

        let mut journal_writer = self.supervisor.journal.get_writer()?;

        // IMPORTANT: Check the poisoned flag after getting journal mutex, otherwise TOCTOU
        if self.is_poisoned.is_poisoned() {
            return Err(crate::Error::Poisoned);
        }

        journal_writer
            .write_raw(self.id, &key, &[], lsm_tree::ValueType::Tombstone, seqno)""")]},
    {'name': 'rotation without re-checking the memtable id', 'edits': [('src/keyspace/mod.rs', """        if self.tree.active_memtable().id() != memtable_id {
            return Ok(false);
        }
""", "")]},
    {'name': 'Ingestion::finish without the journal lock', 'edits': [('src/ingestion.rs', "let _journal_lock = self.keyspace.supervisor.journal.get_writer();", "")]},
    {'name': 'batch publishes after releasing the lock', 'edits': [('src/batch/mod.rs', """        self.db.supervisor.snapshot_tracker.publish(batch_seqno);

        drop(journal_writer);
""", """        drop(journal_writer);

        self.db.supervisor.snapshot_tracker.publish(batch_seqno);
""")]},
]
