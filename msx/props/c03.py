"""C03 — batches and transactions are all-or-nothing across crashes.

M obligations (byte-level, writer and reader both executed from MIR; see journalimg.py):
  framing/<shape>        the writer frames a unit as Start{count = #items, seqno} · items · End{H(items)} · trailer, item count
                         equal to the number of items appended (images are produced by the real writer code)
  cut/<shapes>           for EVERY byte offset c at which the journal can end (tail = EOF or pre-allocated zeros): the reader
                         emits exactly the units that lie completely before c, with identical contents, reports no error,
                         truncates the file to the end of the last complete unit, and a unit appended there afterwards is
                         read back together with the earlier ones
  tx/one-batch           BaseTransaction::commit turns the transaction into ONE batch (one WriteBatch::commit call) that
                         holds the newest write per key
Bounds: ≤ 3 units of ≤ 2 items, keys 1–2 bytes, values 0–2 bytes (contents symbolic), every cut offset.
Native replay: the cut image is written into a real database directory and opened.
"""
import z3, time, os
from ..core import ret_is_err, ret_is_ok, obj_name
from ..symex import Obj, EnumV, Ref, Cell, deref, bv
from . import common as C
from . import journalimg as J

KS = [z3.BitVec('ksid0', 64), z3.BitVec('ksid1', 64)]
VT = {'Value': 0, 'Tombstone': 1, 'WeakTombstone': 2}

SHAPES_QUICK = [
    [('raw', 0, 'Value', 2, 1), ('batch', [(0, 'Value', 1, 2), (1, 'Tombstone', 1, 0)])],
    [('batch', [(1, 'Value', 1, 0), (0, 'WeakTombstone', 2, 0)]), ('clear', 0), ('raw', 1, 'Tombstone', 1, 0)],
]
SHAPES_THOROUGH = SHAPES_QUICK + [
    [('raw', 0, 'Value', 1, 2), ('raw', 0, 'Value', 1, 0), ('batch', [(0, 'Value', 2, 2), (0, 'Value', 2, 1)])],
    [('clear', 1), ('batch', [(0, 'Tombstone', 1, 0), (1, 'Value', 2, 2)]), ('clear', 0)],
]


def build(ctx, shape):
    J.reset_hashes()
    units = []
    off = 0
    for i, u in enumerate(shape):
        b, d = J.write_unit(ctx, u, i + 1, KS)
        units.append({'bytes': b, 'desc': d, 'start': off, 'end': off + len(b), 'unit': u})
        off += len(b)
    return units


def same_batch(ctx, ex, pc, batch, desc, ob):
    """z3: the emitted batch equals the written unit"""
    seq, items, cls = J.batch_view(ex, batch)
    cl = []
    cl.append(seq == J.seqno_sym(desc['seqno']))
    if len(items) != len(desc['items']) or len(cls) != len(desc['clears']):
        return False, 'different number of items'
    for (ks, vt, kb, vb), d in zip(items, desc['items']):
        if kb is None or vb is None or len(kb) != len(d['key']) or len(vb) != len(d['value']):
            return False, 'key/value length differs'
        cl.append(ks == d['ks'])
        vd = bv(vt.disc) if isinstance(vt.disc, int) else vt.disc
        cl.append(vd == bv(VT[d['vtype']]))
        cl += [a == b for a, b in zip(kb, d['key'])] + [a == b for a, b in zip(vb, d['value'])]
    for a, b in zip(cls, desc['clears']):
        cl.append(a == b)
    r, m = ctx.sat(list(pc) + J.injectivity_axioms() + [z3.Not(z3.And(*cl))], ob)
    return r == z3.unsat, 'contents differ'


def check_framing(ctx, shapes):
    ob = ctx.ob('framing/units', 'the writer frames every unit as Start{count, seqno} · items · End{checksum of exactly the item bytes} · trailer', ['writer::<impl>::write_raw', 'writer::<impl>::write_batch', 'writer::<impl>::write_clear'])
    bad = []
    for shape in shapes:
        units = build(ctx, shape)
        for u in units:
            ob.reach += 1
            b = u['bytes']; d = u['desc']
            n_items = len(d['items']) + len(d['clears'])
            want_head = [z3.BitVecVal(1, 8)] + J.le_bytes(n_items, 32) + J.le_bytes(J.seqno_sym(d['seqno']), 64)
            if len(b) < 13 + 13 or any(not z3.eq(z3.simplify(x), z3.simplify(y)) for x, y in zip(b[:13], want_head)):
                bad.append((None, f'unit {u["unit"]}: Start marker bytes are not tag · item count {n_items} · seqno')); continue
            tail = b[-13:]
            if not (z3.is_bv_value(z3.simplify(tail[0])) and z3.simplify(tail[0]).as_long() == 3) or [z3.simplify(x).as_long() if z3.is_bv_value(z3.simplify(x)) else None for x in tail[9:]] != [70, 74, 76, 3]:
                bad.append((None, f'unit {u["unit"]}: End marker / trailer malformed')); continue
            body = b[13:-13]
            chk = z3.simplify(z3.Concat(*reversed(tail[1:9])))
            J._mode['register'] = False
            want = J.H(body)
            J._mode['register'] = True
            r, m = ctx.sat(J.injectivity_axioms() + [chk != want], ob)
            if r != z3.unsat:
                bad.append((None, f'unit {u["unit"]}: the stored checksum is not the checksum of the item bytes written'))
    finish(ctx, ob, bad, 'writer/framing', lambda: native_cut(ctx, None))
    return ob


def check_cuts(ctx, shape, idx, step=1):
    units = build(ctx, shape)
    image = [x for u in units for x in u['bytes']]
    n = len(image)
    ob = ctx.ob(f'cut/shape{idx}', f'journal of units {[u["unit"][0] for u in units]} ({n} bytes): for every end offset 0..{n} and both tails the reader emits exactly the complete units, no error, truncates to the last complete unit; a later append is read back', ['batch_reader::<impl>::next', 'reader::<impl>::next', 'entry::<impl>::decode_from'])
    ex = ctx.executor()
    bad = []
    for c in range(0, n + 1, step):
        complete = [u for u in units if u['end'] <= c]
        boundary = complete[-1]['end'] if complete else 0
        for tail in ('zeros', 'eof'):
            length = n + 24 if tail == 'zeros' else c
            outs = J.run_reader(ctx, image, length, c, max_batches=len(units) + 1)
            feas = []
            for o in outs:
                p = o['path']
                if ctx.sat(list(p.pc) + J.injectivity_axioms(), ob)[0] == z3.sat:
                    feas.append(o)
            ob.reach += 1
            for o in feas:
                p = o['path']
                if o['end'] != 'none':
                    bad.append((c, tail, f'reader ends with {o["end"]} {p.notes[-1:]} (a torn tail must be discarded silently)')); break
                if len(o['batches']) != len(complete):
                    bad.append((c, tail, f'{len(o["batches"])} units emitted, {len(complete)} lie completely before the cut')); break
                okc = True
                for b, u in zip(o['batches'], complete):
                    same, why = same_batch(ctx, ex, p.pc, b, u['desc'], ob)
                    if not same:
                        bad.append((c, tail, f'unit {u["unit"][0]}@{u["start"]}: {why}')); okc = False; break
                if not okc:
                    break
                sl = [e.args['len'] for e in p.events if e.kind == 'F_SET_LEN']
                torn = c > boundary or (tail == 'zeros')
                if torn and c != boundary or (tail == 'zeros' and length > boundary):
                    # something follows the last complete unit: the file must be cut back to it
                    if not sl or not z3.is_bv_value(z3.simplify(sl[-1])) or z3.simplify(sl[-1]).as_long() != boundary:
                        bad.append((c, tail, f'file truncated to {[str(x) for x in sl]} instead of {boundary}')); break
                elif sl and z3.is_bv_value(z3.simplify(sl[-1])) and z3.simplify(sl[-1]).as_long() < boundary:
                    bad.append((c, tail, f'complete data cut away: truncated to {sl[-1]}, last complete unit ends at {boundary}')); break
            if bad:
                break
        if bad:
            break
    # recoverable again: append a fresh unit at the truncation point of a torn image
    if not bad and len(units) >= 2:
        cutu = units[-1]
        c = cutu['start'] + max(1, (cutu['end'] - cutu['start']) // 2)
        boundary = cutu['start']
        J._mode['register'] = True
        fresh, fdesc = J.write_unit(ctx, ('raw', 0, 'Value', 1, 1), 9, KS)
        image2 = image[:boundary] + fresh
        outs = J.run_reader(ctx, image2, len(image2) + 24, len(image2), max_batches=len(units) + 2)
        ob.reach += 1
        for o in outs:
            p = o['path']
            if ctx.sat(list(p.pc) + J.injectivity_axioms(), ob)[0] != z3.sat:
                continue
            if o['end'] != 'none' or len(o['batches']) != len(units):
                bad.append((c, 'append', f'after repairing a torn journal and appending, the reader ends with {o["end"]} after {len(o["batches"])} units')); break
            same, why = same_batch(ctx, ex, p.pc, o['batches'][-1], fdesc, ob)
            if not same:
                bad.append((c, 'append', 'the unit appended after the repair is not read back intact')); break
    if ob.reach == 0:
        ob.status = 'undecided'; ob.detail = 'vacuous'
    elif not bad:
        ob.status = 'discharged'; ob.sample = {'image_bytes': n, 'cuts': ob.reach, 'units': [str(u['unit']) for u in units]}
    else:
        c, tail, why = bad[0]
        ctx.candidate(ob, 'journal-reader/torn-tail', f'journal ending at byte {c} (tail: {tail}): {why}', confirm=lambda: native_cut(ctx, (shape, c, tail)))
    return ob


def check_tx_one_batch(ctx):
    pat = r'^tx::write_tx::<impl>::commit$'
    ob = ctx.ob('tx/one-batch', 'BaseTransaction::commit: every write of the transaction goes into one WriteBatch that is committed once', [pat])
    ex, paths = ctx.run(pat, cache_key='tx.commit', no_inline=[r'WriteBatch::commit$', r'^batch::<impl>::commit$', r'SnapshotTracker::gc$'], loop_bound=2)
    bad = []
    for p in paths:
        if p.status != 'returned':
            continue
        commits = [e for e in p.events if e.kind == 'CALL' and e.args.get('callee', '').endswith('WriteBatch::commit')]
        pushes = [e for e in p.events if e.kind in ('IT_NEXT',)]
        if not commits and not pushes:
            continue
        ob.reach += 1
        if len(commits) > 1:
            bad.append((p, f'{len(commits)} batches committed for one transaction'))
    if ob.reach == 0:
        ob.status = 'undecided'; ob.detail = 'vacuous'
    elif not bad:
        ob.status = 'discharged'; ob.sample = {'paths': ob.reach}
    else:
        ctx.candidate(ob, 'BaseTransaction.commit/not-one-batch', bad[0][1], confirm=lambda: native_cut(ctx, None))
    return ob


def finish(ctx, ob, bad, role, confirm):
    if ob.reach == 0:
        ob.status = 'undecided'; ob.detail = ob.detail or 'vacuous'
    elif not bad:
        ob.status = 'discharged'; ob.sample = {'checked': ob.reach}
    else:
        ctx.candidate(ob, role, f'{ob.id}: {bad[0][1]}', confirm=confirm)


# ------------------------------------------------------------------ native: cut a real journal at a byte offset
def native_cut(ctx, spec):
    """real journal with the same unit shapes (concrete keys), ended at the given byte (and a sweep of nearby offsets),
    zero-padded or truncated; reopen must succeed with exactly the complete units; a later write must survive another reopen"""
    K = ['6b31', '6b32', '6b33', '6b34']
    writes = ['insert a 6b31 31', 'batch2 a 6b32 4242 b 6b33 43', 'remove b 6b33', 'batch2 b 6b34 - a 6b31 3535', 'clear a', 'insert a 6b32 36']
    # expected state after each prefix of the write sequence
    states = []
    a, b = {}, {}
    import copy
    states.append((dict(a), dict(b)))
    a['6b31'] = '31'; states.append((dict(a), dict(b)))
    a['6b32'] = '4242'; b['6b33'] = '43'; states.append((dict(a), dict(b)))
    b.pop('6b33'); states.append((dict(a), dict(b)))
    b['6b34'] = ''; a['6b31'] = '3535'; states.append((dict(a), dict(b)))
    a = {}; states.append((dict(a), dict(b)))
    a['6b32'] = '36'; states.append((dict(a), dict(b)))
    L = ['dir $DIR/db', 'open workers=0', 'ks a', 'ks b', 'filepos0']
    L = ['dir $DIR/db', 'open workers=0', 'ks a', 'ks b']
    for w in writes:
        L.append(w); L.append('persist buffer')
    L += ['close', 'filelen $DIR/db/0.jnl']
    spath, out = ctx.run_scenario('\n'.join(L) + '\n', tag='cut-base', keep_work=True)
    work = ctx.last_work
    import shutil
    try:
        jn = os.path.join(work, 'db', '0.jnl')
        data = open(jn, 'rb').read()
        # unit boundaries: parse the real file (Start tag 1 ... End tag 3 + 8 + FJL\x03)
        ends = []
        i = 0
        while i < len(data) and data[i] == 1:
            j = data.find(b'FJL\x03', i)
            # walk entries properly
            pos = i + 13
            cnt = int.from_bytes(data[i + 1:i + 5], 'little')
            for _ in range(cnt):
                if data[pos] == 2:
                    kl = int.from_bytes(data[pos + 11:pos + 13], 'little'); vl = int.from_bytes(data[pos + 17:pos + 21], 'little')
                    pos += 21 + kl + vl
                elif data[pos] == 4:
                    pos += 9
            pos += 13
            ends.append(pos); i = pos
        # the complete journal must reopen to the final state (a writer that frames units wrongly shows up here)
        full = os.path.join(work, 'img-full')
        shutil.copytree(os.path.join(work, 'db'), full)
        spf, outf = ctx.run_scenario('\n'.join([f'dir {full}', 'open workers=0', 'ks a', 'ks b', 'dump a', 'dump b', 'close']) + '\n', tag='cut-full')
        rsf = [(cc, r) for _i, cc, r in outf]
        if any(cc == 'CRASH' for cc, _r in rsf):
            return True, spf, 'reopening a cleanly closed database crashed: ' + rsf[-1][1][-200:]
        opf = [r for cc, r in rsf if cc == 'open']
        if opf and opf[0] != 'ok':
            return True, spf, f'reopening a cleanly closed database with {len(writes)} journaled operations fails: {opf[0]}'
        dmf = [r for cc, r in rsf if cc == 'dump']

        def fmt0(d):
            return '[' + ','.join(f'{k}:{d[k] if d[k] else "-"}' for k in sorted(d)) + ']'
        if dmf and (dmf[0] != fmt0(states[-1][0]) or dmf[1] != fmt0(states[-1][1])):
            return True, spf, f'after a clean close and reopen: a={dmf[0]} b={dmf[1]}, expected a={fmt0(states[-1][0])} b={fmt0(states[-1][1])}'
        shutil.rmtree(full, ignore_errors=True)
        if len(ends) != len(writes):
            return False, spath, f'could not parse the real journal into {len(writes)} units (got {ends})'
        total = ends[-1]
        cuts = sorted(set([0, 1, 5, 12, 13, 14] + [e + d for e in ends for d in (-13, -12, -5, -4, -1, 0, 1, 2, 13, 14, 16, 20, 22, 24, 26, 28, 30, 31, 32, 33, 34, 35) if 0 <= e + d <= total]))
        if spec is not None and spec[1] is not None:
            cuts = sorted(set(cuts + [min(total, spec[1])]))
        last = (False, spath, 'held natively')
        for c in cuts:
            for tail in ('zeros', 'eof'):
                img = os.path.join(work, f'img-{c}-{tail}')
                shutil.copytree(os.path.join(work, 'db'), img)
                with open(os.path.join(img, '0.jnl'), 'r+b') as fh:
                    fh.truncate(c)
                    if tail == 'zeros':
                        fh.truncate(c + 4096)
                complete = sum(1 for e in ends if e <= c)
                L2 = [f'dir {img}', 'open workers=0', 'ks a', 'ks b', 'dump a', 'dump b', 'insert a 6b39 39', 'close', 'open workers=0', 'ks a', 'ks b', 'dump a', 'dump b', 'close']
                sp2, out2 = ctx.run_scenario('\n'.join(L2) + '\n', tag=f'cut-{c}-{tail}')
                rs = [(cc, r) for _i, cc, r in out2]
                if any(cc == 'CRASH' for cc, _r in rs):
                    return True, sp2, f'journal ending at byte {c} ({tail}): recovery crashed: ' + rs[-1][1][-200:]
                opens = [r for cc, r in rs if cc == 'open']
                if opens[0] != 'ok':
                    return True, sp2, f'journal ending at byte {c} ({tail}): open fails with {opens[0]}'
                dumps = [r for cc, r in rs if cc == 'dump']
                wa, wb = states[complete]

                def fmt(d):
                    return '[' + ','.join(f'{k}:{d[k] if d[k] else "-"}' for k in sorted(d)) + ']'
                if dumps[0] != fmt(wa) or dumps[1] != fmt(wb):
                    return True, sp2, f'journal ending at byte {c} ({tail}), {complete} complete units: recovered a={dumps[0]} b={dumps[1]}, expected a={fmt(wa)} b={fmt(wb)}'
                wa2 = dict(wa); wa2['6b39'] = '39'
                if len(opens) < 2 or opens[1] != 'ok' or dumps[2] != fmt(wa2) or dumps[3] != fmt(wb):
                    return True, sp2, f'journal ending at byte {c} ({tail}): a write made after the repair is not recovered ({opens[1:]}, a={dumps[2:3]})'
                shutil.rmtree(img, ignore_errors=True)
        return last
    finally:
        shutil.rmtree(work, ignore_errors=True)


def native_half_flushed(ctx):
    from . import c04, oracle
    last = (False, None, 'not run')
    for crash in (True, False):
        v, path, d = oracle.run_program(ctx, c04.half_flushed_batch_program(crash=crash), f'half-flushed-{"crash" if crash else "reopen"}')
        if v:
            return True, path, f'batch over two keyspaces, one of them flushed before the {"crash" if crash else "reopen"}: {d}'
        last = (False, path, 'held natively')
    return last


def run(ctx):
    ctx.assumptions += [
        'F5: xxh3 is modelled as an uninterpreted function that does not collide on the byte strings compared within one query',
        'journal files end in EOF or in pre-allocated zeros; non-zero garbage after a torn record is outside the claim',
        'structure concrete, contents symbolic: ≤ 3 units × ≤ 2 items, keys 1–2 bytes, values 0–2 bytes, journal compression off',
    ]
    shapes = SHAPES_QUICK if ctx.tier == 'quick' else SHAPES_THOROUGH
    check_framing(ctx, shapes)
    for i, sh in enumerate(shapes):
        check_cuts(ctx, sh, i)
    # the same cuts on the dev profile (debug assertions compiled in, as `cargo test` and debug builds run): an assertion on bytes read from a torn record must not fire
    with ctx.dev_profile():
        check_cuts(ctx, shapes[0], '0/dev-profile')
    check_tx_one_batch(ctx)
    # all-or-nothing also needs the batch to be applied as one unit of the journal order: every apply and the publish under one hold of the journal lock
    # (otherwise a memtable rotation can land inside the batch and recovery, which skips records covered by tables, replays only part of it)
    from . import c06
    c06.check_atomic_publish(ctx, 2)
    # ... and recovery must replay every item of a complete batch that its keyspace's tables do not cover: a verdict for one item must not decide another
    from . import c04
    c04.check_two_item_batch(ctx, confirm=lambda: native_half_flushed(ctx))
    for o in ctx.obligations:
        ctx.samples.append(o.as_dict())
    return ctx.finish()


MUTANTS = [
    {'name': 'revert: debug assertion on the two length fields of an uncompressed item', 'edits': [('src/journal/entry.rs', "                        if value_len != on_disk_value_len {\n                            log::error!(\"On-disk size does not match expected value size\");\n                            return Err(crate::Error::Decompress(CompressionType::None));\n                        }\n", "                        debug_assert_eq!(value_len, on_disk_value_len);\n")]},
    {'name': 'item_count = batch_size - 1', 'edits': [('src/journal/writer.rs', "let item_count = batch_size as u32;", "let item_count = (batch_size as u32).saturating_sub(1).max(1);")]},
    {'name': 'hash updated before the buffer is filled', 'edits': [('src/journal/writer.rs', """            self.file.write_all(&self.buf)?;

            hasher.update(&self.buf);
            byte_count += self.buf.len();

            self.buf.clear();
        }""", """            self.file.write_all(&self.buf)?;

            byte_count += self.buf.len();

            self.buf.clear();
            hasher.update(&self.buf);
        }""")]},
    {'name': 'on_close truncates to the entry-level position', 'edits': [('src/journal/batch_reader.rs', """            // Discard batch
            self.truncate_to(self.last_valid_pos)?;
        }

        Ok(())""", """            // Discard batch
            self.truncate_to(self.reader.last_valid_pos)?;
        }

        Ok(())""")]},
    {'name': 'End trailer check removed', 'edits': [('src/journal/entry.rs', """                if magic != MAGIC_BYTES {
                    return Err(crate::Error::InvalidTrailer);
                }
""", "")]},
    {'name': 'reader emits a batch as soon as the item counter reaches zero', 'edits': [('src/journal/batch_reader.rs', """                    self.batch_counter -= 1;

                    self.items.push(ReadBatchItem {
                        keyspace_id,
                        key,
                        value,
                        value_type,
                    });
                }""", """                    self.batch_counter -= 1;

                    self.items.push(ReadBatchItem {
                        keyspace_id,
                        key,
                        value,
                        value_type,
                    });

                    if self.batch_counter == 0 {
                        self.is_in_batch = false;
                        self.checksum_builder = xxhash_rust::xxh3::Xxh3::new();
                        let items = std::mem::take(&mut self.items);
                        let cleared_keyspaces = std::mem::take(&mut self.cleared_keyspaces);
                        return Some(Ok(Batch {
                            seqno: self.batch_seqno,
                            items,
                            cleared_keyspaces,
                        }));
                    }
                }""")]},
    {'name': 'entry reader does not truncate on UnexpectedEof', 'edits': [('src/journal/reader.rs', """                        std::io::ErrorKind::UnexpectedEof | std::io::ErrorKind::Other => {
                            fail_iter!(self.maybe_truncate_file_to_last_valid_pos());
                            None
                        }""", """                        std::io::ErrorKind::UnexpectedEof | std::io::ErrorKind::Other => None,""")]},
    {'name': 'batch reader records last_valid_pos at Start instead of End', 'edits': [('src/journal/batch_reader.rs', """                    self.is_in_batch = true;
                    self.batch_counter = item_count;
                    self.batch_seqno = seqno;""", """                    self.is_in_batch = true;
                    self.batch_counter = item_count;
                    self.batch_seqno = seqno;
                    self.last_valid_pos = journal_file_pos;""")]},
    {'name': 'clear entries are not counted as batch items by the writer', 'edits': [('src/journal/writer.rs', """        self.buf.clear();
        byte_count += self.write_start(1, seqno)?;
        self.buf.clear();

        Entry::Clear { keyspace_id }.encode_into(&mut self.buf)?;""", """        self.buf.clear();
        byte_count += self.write_start(0, seqno)?;
        self.buf.clear();

        Entry::Clear { keyspace_id }.encode_into(&mut self.buf)?;""")]},
]
