"""C12 — keyspaces are isolated, and a deleted keyspace never comes back.

M obligations:
  isolation/<op>          every write of a handle goes to that handle's own tree and is journaled under that keyspace's id
                          (batch items: the item's keyspace) — no path touches another keyspace's tree
  deleted/refused-<op>    insert/remove/remove_weak through a handle whose keyspace was deleted return KeyspaceDeleted before
                          any journal or tree effect
  delete/order            delete_keyspace removes the name and the stored configuration (meta keyspace) before flagging the handle
  replay/unresolvable     journal records whose keyspace id no longer resolves are not applied to any tree
  ids/never-reused        after recovery the keyspace id counter is greater than every keyspace id that occurs in a journal
                          record read during recovery (so a later keyspace can never inherit replayed records)
Native replay: create/write/delete/re-create histories with reopen at every point.
"""
import z3
from ..core import ret_is_err, ret_is_ok, obj_name
from ..symex import Obj, EnumV, Ref, Cell, deref, bv
from . import common as C
from . import writepath as W
from . import recov
from .c11 import analyse

TREE_W = ('T_INSERT', 'T_REMOVE', 'T_REMOVE_WEAK', 'T_CLEAR')


def check_isolation(ctx):
    for op in ('insert', 'remove', 'remove_weak', 'clear'):
        ob = ctx.ob(f'isolation/{op}', f'{op}: the only tree written is this handle\'s; the journal record carries this keyspace\'s id', [C.WRITERS[op]])
        ex, paths, recs = W.run_op(ctx, op)
        bad = []
        for r in recs:
            p = r.p
            if not r.tree:
                continue
            ob.reach += 1
            inner, ksid, tree = W.self_keyspace(ex, p)
            for t in r.tree:
                if tree is not None and t.obj is not tree:
                    bad.append((p, f'{t.kind} goes to {obj_name(t)}, not to this handle\'s tree'))
            segs = W.journal_segments(r)
            u64s = W.seg_values(segs, 'u64le')
            if len(u64s) >= 2 and ksid is not None and ctx.sat(p.pc + [u64s[1] != ksid], ob)[0] != z3.unsat:
                bad.append((p, 'the journal record is written under another keyspace id'))
        finish(ctx, ob, bad, f'{op}/writes-other-keyspace')
    ob = ctx.ob('isolation/batch', 'WriteBatch::commit: item i is applied to item i\'s keyspace tree and journaled under that keyspace\'s id', [C.WRITERS['batch']])
    ex, paths, recs = W.run_op(ctx, 'batch', n_items=2, value_types=['Value'])
    bad = []
    for r in recs:
        if not r.ok:
            continue
        p = r.p
        ob.reach += 1
        for i, t in enumerate(r.tree):
            if not obj_name(t).startswith(f'item{i}.'):
                bad.append((p, f'item {i} is applied to {obj_name(t)}'))
        segs = W.journal_segments(r)
        u64s = W.seg_values(segs, 'u64le')
        ids = u64s[1:-1]
        for i, v in enumerate(ids):
            if not (z3.is_expr(v) and f'item{i}.' in str(v)):
                bad.append((p, f'journal item {i} carries id {v}'))
    finish(ctx, ob, bad, 'batch/writes-other-keyspace')


def check_deleted(ctx):
    for op in ('insert', 'remove', 'remove_weak'):
        ob = ctx.ob(f'deleted/refused-{op}', f'{op} through a handle of a deleted keyspace: Err(KeyspaceDeleted), no lock, no journal append, no tree write', [C.WRITERS[op]])
        ex, paths, recs = W.run_op(ctx, op)
        bad = []
        for r in recs:
            p = r.p
            dl = r.deleted_loads
            if not dl:
                if r.tree or r.appends:
                    ob.reach += 1
                    bad.append((p, 'writes without checking whether the keyspace was deleted'))
                continue
            flag = dl[0].res
            if ctx.sat(p.pc + [flag], ob)[0] != z3.sat:
                continue
            ob.reach += 1
            if ctx.sat(p.pc + [flag, ret_is_ok(p)], ob)[0] == z3.sat if ret_is_ok(p) is not None else True:
                bad.append((p, 'a write through a deleted keyspace\'s handle is acknowledged'))
            eff = [e for e in p.events if e.kind in ('J_APPEND', 'CTR_NEXT') + TREE_W]
            if eff:
                bad.append((p, f'{eff[0].kind} happens although the keyspace is deleted'))
        finish(ctx, ob, bad, f'{op}/deleted-keyspace-not-refused')


def check_delete_order(ctx):
    pat = r'^db::<impl>::delete_keyspace$'
    ob = ctx.ob('delete/order', 'delete_keyspace: name and stored configuration are removed (meta keyspace) and only then the handle is flagged deleted; failure leaves the flag unset', [pat])
    ex, paths = ctx.run(pat, cache_key='delks', no_inline=[r'MetaKeyspace::remove_keyspace$'], loop_bound=2)
    bad = []
    for p in paths:
        if p.status != 'returned':
            continue
        rm = [e for e in p.events if e.kind == 'CALL' and e.args.get('callee', '').endswith('remove_keyspace')]
        st = [e for e in p.events if e.kind == 'ATOMIC_STORE' and 'is_deleted' in obj_name(e)]
        ob.reach += 1
        okp = ctx.sat(p.pc + [ret_is_ok(p)], ob)[0] == z3.sat
        if okp and (not rm or not st or st[0].idx < rm[0].idx):
            bad.append((p, 'handle flagged deleted without / before removing the keyspace from the meta keyspace'))
        if not okp and st:
            bad.append((p, 'handle flagged deleted although removing the keyspace failed'))
    finish(ctx, ob, bad, 'delete_keyspace/order')


def check_delete_own(ctx):
    """delete_keyspace(handle) may only remove the keyspace the handle belongs to: a handle of an earlier, already deleted keyspace of the same name
    must not take the present keyspace of that name with it"""
    pat = r'^db::<impl>::delete_keyspace$'
    ob = ctx.ob('delete/only-own', 'delete_keyspace(handle): the dictionary entry and the stored metadata are removed only if the keyspace registered under that name IS the handle\'s keyspace (same id)', [pat])
    ex, paths = ctx.run(pat, cache_key='delks.own', loop_bound=3, no_inline=[r'MetaKeyspace::maintenance$'])
    bad = []
    from .c05 import find_objs
    for p in paths:
        if p.status != 'returned':
            continue
        rm = [e for e in p.events if e.kind == 'MAP_REMOVE']
        get = [e for e in p.events if e.kind == 'MAP_GET']
        if not rm:
            continue
        ob.reach += 1
        # id of the keyspace found in the dictionary: the value the tombstone keys were built from
        fr = p.st.frames[0]
        handle = deref(fr.locals[fr.fn.args[1]].val)
        hin = find_objs(handle, lambda o: o.ty.split('<')[0].endswith('KeyspaceInner'))
        names = ex.src.struct_fields('KeyspaceInner')
        hid = hin[0].fields[names.index('id')].val if hin and names.index('id') in hin[0].fields else None
        tomb = [e for e in p.events if e.kind == 'CALL' and e.args.get('callee', '').endswith('write_tombstone')]
        rid = None
        for t in tomb:
            v = deref(t.args['args'][1])
            if isinstance(v, Obj) and 'segs' in v.data:
                for k_, x in v.data['segs']:
                    if k_ == 'be64':
                        rid = x
        if rid is None:
            bad.append((p, 'cannot identify the keyspace whose metadata is removed')); continue
        if hid is None or not z3.is_expr(hid):
            # the code never looked at the handle's id: the removal cannot depend on it
            bad.append((p, 'the keyspace registered under the handle\'s name is removed without comparing it with the handle (ids never compared): a stale handle of an earlier keyspace of that name deletes the present one, '
                           'whose own handles keep accepting writes that are lost at the next reopen')); continue
        if ctx.sat(p.pc + [rid != hid], ob)[0] != z3.unsat:
            bad.append((p, 'the keyspace registered under the handle\'s name can have another id than the handle\'s keyspace and is removed all the same')); continue
    if ob.reach == 0:
        ob.status = 'undecided'; ob.detail = 'vacuous'
    elif not bad:
        ob.status = 'discharged'; ob.sample = {'paths': ob.reach}
    else:
        ctx.candidate(ob, 'delete_keyspace/stale-handle-deletes-new-keyspace', f'{ob.id}: {bad[0][1]}', confirm=lambda: native_stale_delete(ctx))


def native_stale_delete(ctx):
    L = ['dir $DIR/db', 'open workers=0', 'ks a', 'insert a 6b31 31', 'delete_ks a keep', 'ks a', 'insert a 6b32 32', 'delete_ks a#old', 'list_ks', 'insert a 6b33 33', 'dump a', 'close',
         'open workers=0', 'list_ks', 'ks a', 'dump a', 'close']
    spath, out = ctx.run_scenario('\n'.join(L) + '\n', tag='stale-delete')
    if any(c == 'CRASH' for _i, c, _r in out):
        return True, spath, 'crash: ' + out[-1][2][-200:]
    lk = [r for _i, c, r in out if c == 'list_ks']; dumps = [r for _i, c, r in out if c == 'dump']
    ins = [r for _i, c, r in out if c == 'insert']
    if lk and lk[0] != '[a]':
        return True, spath, f'create a; delete a; create a again; delete_keyspace(handle of the FIRST a) => the second keyspace a is gone from the database (keyspaces: {lk[0]}), yet writes through its handle are still acknowledged ({ins[-1:]}) and lost after reopen (content after reopen: {dumps[-1:]})'
    if len(dumps) == 2 and dumps[0] != dumps[1]:
        return True, spath, f'content of the re-created keyspace differs after reopen: {dumps}'
    return False, spath, 'held natively'


def check_files_removed(ctx):
    """the files of a deleted keyspace disappear when its last handle goes away - and only then, and only for a deleted keyspace"""
    pat = r'^keyspace::<impl>::drop$'
    ob = ctx.ob('deleted/files-removed', 'KeyspaceInner::drop: iff the keyspace was deleted, its manifest marker is removed first and then its whole folder (the folder of this keyspace\'s own tree); '
                'a keyspace that was not deleted loses no file', [pat])
    try:
        cands = [f for f in ctx.prog.fns.values() if f.key == 'keyspace::<impl>::drop']
        fn = cands[0]
    except Exception as e:      # noqa
        ob.status = 'undecided'; ob.detail = f'drop impl not found: {e!r}'; return
    ex = ctx.executor(loop_bound=2)
    paths = ex.run(fn)
    ctx.functions_encoded[fn.key] = ctx.prog.hashes.get(fn.name, '')
    ctx.paths_total += len(paths); ctx.solver_s += ex.stats['solver_s']; ctx.queries += ex.stats['solver_calls']
    bad = []
    for p in paths:
        if p.status != 'returned':
            continue
        ob.reach += 1
        loads = [e for e in p.events if e.kind == 'ATOMIC_LOAD' and 'is_deleted' in obj_name(e)]
        rmf = [e for e in p.events if e.kind == 'FS_REMOVE_FILE']
        rmd = [e for e in p.events if e.kind == 'FS_REMOVE_DIR_ALL']
        if not loads:
            if rmf or rmd:
                bad.append((p, 'files are removed without looking at the deleted flag'))
            continue
        flag = loads[0].res
        deleted = ctx.sat(p.pc + [z3.Not(flag)], ob)[0] != z3.sat
        alive = ctx.sat(p.pc + [flag], ob)[0] != z3.sat
        if alive and (rmf or rmd):
            bad.append((p, 'dropping the last handle of a keyspace that was NOT deleted removes files')); continue
        if deleted:
            # fault-free, marker present: marker first, then the folder
            te = [e for e in p.events if e.kind == 'CALL' and e.args.get('callee', '').endswith('try_exists')]
            marker_there = False
            if te and isinstance(te[0].res, EnumV):
                r = te[0].res
                okb = r.payloads['Ok'].fields[0].val if 'Ok' in r.payloads and 0 in r.payloads['Ok'].fields else None
                d = bv(r.disc) if isinstance(r.disc, int) else r.disc
                marker_there = z3.is_expr(okb) and ctx.sat(p.pc + [z3.Not(z3.And(d == 0, okb))], ob)[0] != z3.sat
            faults = [e for e in rmf if getattr(e, 'fault', None) is not None and ctx.sat(p.pc + [z3.Not(e.fault)], ob)[0] != z3.sat]
            if not marker_there or faults:
                continue
            if not rmf:
                bad.append((p, 'the manifest marker of a deleted keyspace is not removed when its last handle is dropped')); continue
            if not rmd:
                bad.append((p, 'a deleted keyspace\'s folder is not removed when its last handle is dropped: its files stay on disk (and a later directory scan meets them again)')); continue
            if rmd and rmf and rmf[0].idx > rmd[0].idx:
                bad.append((p, 'the folder is removed before the manifest marker: a crash in between can leave a keyspace that looks initialised')); continue
    if ob.reach == 0:
        ob.status = 'undecided'; ob.detail = 'vacuous'
    elif not bad:
        ob.status = 'discharged'; ob.sample = {'paths': ob.reach}
    else:
        ctx.candidate(ob, 'keyspace-drop/files-of-deleted-keyspace', f'{ob.id}: {bad[0][1]}', confirm=lambda: native_files_removed(ctx))


def native_files_removed(ctx):
    L = ['dir $DIR/db', 'open workers=0', 'ks a', 'ks b', 'insert a 6b31 31', 'insert b 6b31 41', 'rotate b', 'worker_drain', 'ls $DIR/db/keyspaces', 'delete_ks b keep', 'ls $DIR/db/keyspaces',
         'ks_drop b#old', 'ls $DIR/db/keyspaces', 'ks_drop a', 'ls $DIR/db/keyspaces', 'close', 'open workers=0', 'ls $DIR/db/keyspaces', 'ks a', 'dump a', 'close']
    spath, out = ctx.run_scenario('\n'.join(L) + '\n', tag='files-removed')
    if any(c == 'CRASH' for _i, c, _r in out):
        return True, spath, 'crash: ' + out[-1][2][-200:]
    ls = [r for _i, c, r in out if c == 'ls']
    d = [r for _i, c, r in out if c == 'dump']
    if len(ls) >= 5:
        if '2' not in ls[1].strip('[]').split(','):
            return True, spath, f'the folder of the deleted keyspace vanished while a handle was still alive: {ls[1]}'
        if '2' in ls[2].strip('[]').split(','):
            return True, spath, f'the folder of the deleted keyspace (id 2) is still there after its last handle was dropped: {ls[2]}'
        if '1' not in ls[3].strip('[]').split(',') or '1' not in ls[4].strip('[]').split(','):
            return True, spath, f'the folder of a keyspace that was not deleted disappeared: {ls[3]} / after reopen {ls[4]}'
    if d and d[0] != '[6b31:31]':
        return True, spath, f'content of the surviving keyspace after reopen: {d[0]}'
    return False, spath, 'held natively'


def native_deleted_pins_journal(ctx):
    """a keyspace with unflushed data in a sealed journal is deleted and its handles are dropped: at the next maintenance the journal goes away and with it the last handle,
    so the keyspace folder disappears and one journal file is left"""
    L = ['dir $DIR/db', 'open workers=0', 'rotation_threshold 0', 'ks a', 'ks b', 'insert b 6b31 41', 'insert a 6b31 31', 'rotate a', 'worker_drain', 'journal_count',
         'delete_ks b', 'insert a 6b32 32', 'rotate a', 'worker_drain', 'journal_count', 'ls $DIR/db/keyspaces', 'close']
    spath, out = ctx.run_scenario('\n'.join(L) + '\n', tag='deleted-pins-journal')
    if any(c == 'CRASH' for _i, c, _r in out):
        return True, spath, 'crash: ' + out[-1][2][-200:]
    jc = [r for _i, c, r in out if c == 'journal_count']
    ls = [r for _i, c, r in out if c == 'ls']
    if len(jc) == 2 and jc[0] == 'n=2' and jc[1] != 'n=1':
        return True, spath, f'a sealed journal whose only lagging keyspace was deleted is never reclaimed ({jc[1]} journal files after everything else was flushed)'
    if ls and '2' in ls[0].strip('[]').split(','):
        return True, spath, f'the folder of the deleted keyspace (id 2) is still there after its last handle was dropped and all other keyspaces were flushed: {ls[0]}'
    return False, spath, f'held natively (journal files {jc}, keyspace folders {ls})'


def check_meta_removed(ctx):
    pat = r'^meta_keyspace::<impl>::remove_keyspace$|MetaKeyspace::remove_keyspace$'
    ob = ctx.ob('delete/meta-removed', 'MetaKeyspace::remove_keyspace: on success a tombstone was ingested for the id->name key (b\'n\' ++ id) and for every '
                'stored configuration key found under (b\'c\' ++ id), the ingestion was finished, and the name was removed from the keyspace dictionary', [pat])
    ex, paths = ctx.run(pat, cache_key='rmks', no_inline=[r'MetaKeyspace::maintenance$'], loop_bound=3)
    bad = []

    def key_shape(v):
        v = deref(v)
        if isinstance(v, Obj) and 'segs' in v.data:
            return [(k, x) for k, x in v.data['segs']]
        return None
    for p in paths:
        if p.status != 'returned' or ctx.sat(p.pc + [ret_is_ok(p)], ob)[0] != z3.sat:
            continue
        get = [e for e in p.events if e.kind == 'MAP_GET']
        if not get or not [e for e in p.events if e.kind == 'CTR_NEXT']:
            continue                # name unknown: nothing to do
        ob.reach += 1
        calls = [e for e in p.events if e.kind == 'CALL']
        tomb = [e for e in calls if e.args['callee'].endswith('write_tombstone')]
        fin = [e for e in calls if e.args['callee'].endswith('AnyIngestion::finish')]
        rm = [e for e in p.events if e.kind == 'MAP_REMOVE']
        pre = [e for e in p.events if e.kind == 'T_PREFIX']
        found = [e for e in calls if e.args['callee'].endswith('Guard>::key')]
        idterms = set()
        n_ok = False
        for t in tomb:
            sh = key_shape(t.args['args'][1])
            if sh and len(sh) == 2 and sh[0][0] == 'u8' and z3.is_expr(sh[0][1]) is False and sh[0][1] == 0x6e and sh[1][0] == 'be64':
                n_ok = True; idterms.add(str(sh[1][1]))
            elif sh and len(sh) == 2 and sh[0][0] == 'u8' and z3.is_bv_value(sh[0][1]) and sh[0][1].as_long() == 0x6e and sh[1][0] == 'be64':
                n_ok = True; idterms.add(str(sh[1][1]))
        if not n_ok:
            bad.append((p, 'success without a tombstone for the id->name key: the id keeps resolving, so journal records of the deleted keyspace are replayed')); continue
        if not pre:
            bad.append((p, 'stored configuration keys are not looked up')); continue
        psh = key_shape(pre[0].args['bounds'])
        pv = psh[0][1] if psh else None
        if not psh or len(psh) != 2 or psh[0][0] != 'u8' or not ((z3.is_bv_value(pv) and pv.as_long() == 0x63) or pv == 0x63) or psh[1][0] != 'be64' or str(psh[1][1]) not in idterms:
            bad.append((p, f'configuration keys are looked up under an unexpected prefix {psh}')); continue
        if len(tomb) != len(found) + 1:
            bad.append((p, f'{len(found)} configuration keys found but {len(tomb) - 1} tombstones written for them')); continue
        if not fin or fin[0].idx < tomb[-1].idx:
            bad.append((p, 'the ingestion carrying the tombstones is not finished')); continue
        if not rm or rm[0].idx < fin[0].idx or obj_name(rm[0]) != obj_name(get[0]) or str(rm[0].args.get('key')) != str(get[0].args.get('key')):
            bad.append((p, 'the name is not removed from the keyspace dictionary after the tombstones were written')); continue
    finish(ctx, ob, bad, 'remove_keyspace/meta-not-removed')


def check_recover_keyspaces(ctx):
    """recover_keyspaces over a symbolic keyspaces folder with 2 entries"""
    pat = r'^recover_keyspaces$|^recovery::recover_keyspaces$'
    ob = ctx.ob('recover/keyspaces-by-id', 'recover_keyspaces: every directory whose id resolves is recovered under exactly that id, the name stored for that id and its own folder; '
                'unreferenced directories are removed, not recovered; afterwards the id counter is above every recovered id', [pat])
    from ..contract import mk_seq
    N = 2 if ctx.tier == 'quick' else 3
    ids = [z3.BitVec(f'dir{i}.id', 64) for i in range(N)]

    def ov_read_dir(ex_, st, call):
        ents = []
        for i in range(N):
            d = Obj('std::fs::DirEntry', f'dirent{i}', 'opaque'); d.data['idx'] = i
            ents.append(ex_.mk_enum('Result<DirEntry, io::Error>', 'Ok', [d]))
        import itertools as _it
        for a_, b_ in _it.combinations(range(N), 2):
            st.pc.append(ids[a_] != ids[b_])
        for x in ids:
            st.pc.append(z3.ULT(x, bv(2 ** 62)))
        return ex_.mk_enum(call.dst_ty, 'Ok', [mk_seq('std::fs::ReadDir', ents, 'read_dir')])

    def idx_of(v):
        v = deref(v)
        seen = 0
        while isinstance(v, Obj) and 'idx' not in v.data and 'of' in v.data and seen < 6:
            v = v.data['of']; seen += 1
        return v.data.get('idx') if isinstance(v, Obj) else None

    def derived(name, ty):
        def f(ex_, st, call):
            src = deref(call.args[0])
            o = Obj(ty, f'{name}({getattr(src, "name", "?")})', 'opaque'); o.data['of'] = src
            if isinstance(src, Obj) and 'idx' in src.data:
                o.data['idx'] = src.data['idx']
            return o
        return f

    def ov_to_string(ex_, st, call):
        o = Obj('std::string::String', 'id_string', 'str'); o.data['of_value'] = deref(call.args[0])
        return o

    def ov_to_str(ex_, st, call):
        src = deref(call.args[0])
        o = Obj('str', f'str({getattr(src, "name", "?")})', 'str'); o.data['idx'] = idx_of(src)
        return ex_.mk_enum(call.dst_ty, 'Some', [Ref(Cell(o))])

    def ov_parse(ex_, st, call):
        i = idx_of(call.args[0])
        if i is None:
            return NotImplemented
        return ex_.mk_enum(call.dst_ty, 'Ok', [ids[i]])

    def ov_file_type(ex_, st, call):
        o = Obj('std::fs::FileType', 'ft', 'opaque'); o.data['idx'] = idx_of(call.args[0])
        return ex_.mk_enum(call.dst_ty, 'Ok', [o])

    def ov_is_file(ex_, st, call):
        return z3.Bool(f'dir{idx_of(call.args[0])}.is_file')

    def ov_resolve(ex_, st, call):
        kid = call.args[1]
        j = None
        for i in range(N):
            if not ex_.feasible(st.pc, kid != ids[i]):
                j = i
        nm = Obj('byteview::StrView', f'stored_name{j}', 'str')
        e = EnumV('Option<StrView>', z3.If(z3.Bool(f'dir{j}.resolves'), bv(1), bv(0)), 'resolved')
        o = Obj('Some', 'Some', 'variant'); o.fields[0] = Cell(nm); e.payloads['Some'] = o
        st.emit(Ev_('RESOLVE', args={'id': kid, 'idx': j}, site=call.site))
        return ex_.mk_enum(call.dst_ty, 'Ok', [e])

    def ov_exists(ex_, st, call):
        return ex_.mk_enum(call.dst_ty, 'Ok', [z3.Bool(f'marker!{next(st.fresh)}')])

    def ov_open(ex_, st, call):
        t = Obj('lsm_tree::AnyTree', f'tree!{next(st.fresh)}', 'opaque')
        st.emit(Ev_('TREE_OPEN', obj=t, args={'config': deref(call.args[0])}, site=call.site))
        return ex_.mk_enum(call.dst_ty, 'Ok', [t])
    from ..symex import Ev as Ev_
    ex, paths = ctx.run(pat, cache_key='c12.recover_keyspaces', loop_bound=N + 1,
                        no_inline=[r'CreateOptions::from_kvs$', r'apply_to_base_config$', r'Keyspace::from_database$'],
                        overrides=[(r'^(std::fs::)?read_dir$', ov_read_dir), (r'MetaKeyspace::resolve_id$', ov_resolve), (r'str::parse$|core::str::<impl str>::parse$', ov_parse),
                                   (r'DirEntry::file_type$', ov_file_type), (r'FileType::is_file$', ov_is_file), (r'Path::try_exists$', ov_exists),
                                   (r'DirEntry::path$', derived('path', 'std::path::PathBuf')), (r'DirEntry::file_name$', derived('file_name', 'std::ffi::OsString')),
                                   (r'<OsString as Deref>::deref$', derived('os_str', 'std::ffi::OsStr')), (r'<u64 as ToString>::to_string$', ov_to_string),
                                   (r'OsStr::to_str$|OsString::to_str$', ov_to_str), (r'lsm_tree::Config::open$', ov_open)])
    bad = []
    for p in paths:
        if p.status != 'returned' or ctx.sat(p.pc + [ret_is_ok(p)], ob)[0] != z3.sat:
            continue
        ob.reach += 1
        made = [e for e in p.events if e.kind == 'CALL' and e.args.get('callee', '').endswith('Keyspace::from_database')]
        sets = [e for e in p.events if e.kind == 'CTR_SET']
        ins = [e for e in p.events if e.kind == 'MAP_INSERT']
        rms = [e for e in p.events if e.kind in ('FS_REMOVE_DIR_ALL',) or (e.kind == 'CALL' and 'remove_dir_all' in e.args.get('callee', ''))]
        res = [e for e in p.events if e.kind == 'RESOLVE']
        problem = None
        recovered_ids = []
        for me in made:
            a = me.args['args']          # (keyspace_id, db, tree, name, config)
            kid, name = a[0], deref(a[3])
            j = None
            for i in range(N):
                if z3.is_expr(kid) and ctx.sat(p.pc + [kid != ids[i]], ob)[0] == z3.unsat:
                    j = i
            if j is None:
                problem = 'a keyspace is recovered under an id that is not the id of its directory'; break
            recovered_ids.append(ids[j])
            if not isinstance(name, Obj) or name.name.rstrip("'") != f'stored_name{j}':
                problem = f'the keyspace of directory {j} is recovered under a name ({getattr(name, "name", name)}) that is not the one stored for its id'; break
            if ctx.sat(p.pc + [z3.Not(z3.Bool(f'dir{j}.resolves'))], ob)[0] == z3.sat:
                problem = f'directory {j} is recovered although its id may not resolve to a name (deleted keyspace)'; break
            if ctx.sat(p.pc + [ids[j] == 0], ob)[0] == z3.sat:
                problem = 'the meta keyspace (id 0) is recovered as a user keyspace'; break
            # the tree is opened in <keyspaces folder>/<id>
            cfg = [e for e in p.events if e.kind == 'CALL' and e.args.get('callee', '').endswith('lsm_tree::Config::new') and e.idx < me.idx]
            joins = {getattr(e.res, 'uid', None): e for e in p.events if e.kind == 'CALL' and e.args.get('callee', '').endswith('Path::join')}
            pj = joins.get(getattr(deref(cfg[-1].args['args'][0]), 'uid', -1)) if cfg else None
            leaf = deref(pj.args['args'][1]) if pj is not None else None
            lv = leaf.data.get('of_value') if isinstance(leaf, Obj) else None
            if lv is None or not z3.is_expr(lv) or ctx.sat(p.pc + [lv != ids[j]], ob)[0] != z3.unsat:
                problem = f'the tree of the keyspace with id of directory {j} is not opened in the folder named after that id'; break
        if problem is None:
            # every resolvable, initialised directory must have been recovered (the path condition decides which are)
            for j in range(N):
                must = [z3.Not(z3.Bool(f'dir{j}.is_file')), ids[j] != 0, z3.Bool(f'dir{j}.resolves')]
                if ctx.sat(p.pc + must, ob)[0] == z3.sat:
                    got = any(ctx.sat(p.pc + [x != ids[j]], ob)[0] == z3.unsat for x in recovered_ids)
                    marker_missing = bool(rms)
                    if not got and not marker_missing:
                        problem = f'directory {j} resolves to a stored name but is not recovered'; break
        if problem is None:
            if not sets:
                problem = 'the keyspace id counter is not restored'
            else:
                K = sets[-1].args['val']
                for x in recovered_ids:
                    if ctx.sat(p.pc + [z3.Not(z3.UGT(K, x))], ob)[0] != z3.unsat:
                        problem = 'after recovery the keyspace id counter can be ≤ the id of a recovered keyspace: the next new keyspace gets the id (and directory, journal records) of an existing one'; break
        if problem is None and len(ins) != len(made):
            problem = f'{len(made)} keyspaces recovered but {len(ins)} registered in the keyspace dictionary'
        if problem:
            bad.append((p, problem))
    finish(ctx, ob, bad, 'recover_keyspaces/wrong-id-name-or-counter')


def check_recover(ctx):
    ex, paths, env = analyse(ctx)
    o1 = ctx.ob('replay/unresolvable', 'recover: a journal record whose keyspace id does not resolve is applied to no tree; a resolvable one only to its own keyspace\'s tree', ['db::<impl>::recover'])
    o2 = ctx.ob('ids/never-reused', 'recover: keyspace id counter > every keyspace id occurring in a journal record that was read', ['db::<impl>::recover'])
    b1, b2 = [], []
    for p in paths:
        if p.status != 'returned' or ctx.sat(p.pc + [ret_is_ok(p)], o1)[0] != z3.sat:
            continue
        fc = recov.final_counters(ex, p)
        if fc is None:
            continue
        S, V, K = fc
        o1.reach += 1; o2.reach += 1
        reads = [e.args['idx'] for e in p.events if e.kind == 'BATCH_READ']
        tw = [e for e in p.events if e.kind in TREE_W]
        for e in tw:
            # the tree written must be the tree of the keyspace whose id equals the record's id
            owner = [k for k in env.ks if obj_name(e) == k['tree'].name]
            if not owner:
                b1.append((p, f'{e.kind} on an unknown tree {obj_name(e)}')); continue
            key = e.args.get('key')
            if isinstance(key, Obj):
                bi = [(i, d) for i in reads for d in env.batches[i]['items'] if d['key'].name == key.name.rstrip("'")]
                if bi and ctx.sat(p.pc + [bi[0][1]['ksid'] != owner[0]['id']], o1)[0] != z3.unsat:
                    b1.append((p, f'a record of keyspace id {bi[0][1]["ksid"]} is applied to keyspace {owner[0]["inner"].name}'))
        if K is None:
            b2.append((p, 'keyspace id counter untouched')); continue
        for i in reads:
            for x in [d['ksid'] for d in env.batches[i]['items']] + env.batches[i]['clears']:
                r, m = ctx.sat(p.pc + [z3.ULT(x, bv(2 ** 62)), z3.Not(z3.UGT(K, x))], o2)
                if r != z3.unsat:
                    b2.append((p, f'after recovery the keyspace id counter can be ≤ id {x} that occurs in journal batch #{i}; a keyspace created next would inherit those records on the following reopen')); break
            if b2:
                break
    finish(ctx, o1, b1, 'recover/record-applied-to-wrong-keyspace')
    finish(ctx, o2, b2, 'recover/keyspace-id-reusable-while-journaled')
    # the same for records that sit in a sealed journal (recover_sealed_memtables)
    o3 = ctx.ob('ids/never-reused-sealed', 'recover_sealed_memtables: keyspace id counter > every keyspace id occurring in a record of a sealed journal, whether its keyspace still exists or not', ['recovery::recover_sealed_memtables'])
    ex, paths, env = recov.run_recover(ctx, n_ks=2, shape=(), sealed_shape=((1, 0), (0, 1)))
    b3 = []
    for p in paths:
        if p.status in ('error', 'timeout', 'loop_bound'):
            o3.status = 'undecided'; o3.detail = f'executor: {p.status} {p.notes[-1:]}'; return
        if p.status != 'returned' or ctx.sat(p.pc + [ret_is_ok(p)], o3)[0] != z3.sat:
            continue
        fc = recov.final_counters(ex, p)
        if fc is None:
            continue
        S, V, K = fc
        o3.reach += 1
        reads = [e.args['idx'] for e in p.events if e.kind == 'BATCH_READ']
        if K is None:
            b3.append((p, 'keyspace id counter untouched')); continue
        for i in reads:
            for x in [d['ksid'] for d in env.batches[i]['items']] + env.batches[i]['clears']:
                if ctx.sat(p.pc + [z3.ULT(x, bv(2 ** 62)), z3.Not(z3.UGT(K, x))], o3)[0] != z3.unsat:
                    b3.append((p, f'after recovery the keyspace id counter can be ≤ id {x} that occurs in a sealed journal (batch #{i}); a keyspace created next inherits those records on the following reopen')); break
            if b3:
                break
    finish(ctx, o3, b3, 'recover-sealed/keyspace-id-reusable-while-journaled')


def check_create_atomic(ctx):
    pat = r'^db::<impl>::keyspace$'
    ob = ctx.ob('create/atomic', 'Database::keyspace: the lookup of the name, the id allocation and the registration of the new keyspace happen under ONE hold of the keyspace dictionary\'s write lock '
                '(two callers opening the same new name get the same keyspace)', [pat])
    ex, paths = ctx.run(pat, cache_key='c12.create', loop_bound=2, no_inline=[r'Keyspace::create_new$', r'MetaKeyspace::create_keyspace$', r'is_valid_keyspace_name$'])
    bad = []
    for p in paths:
        cr = [e for e in p.events if e.kind == 'CALL' and e.args.get('callee', '').endswith('MetaKeyspace::create_keyspace')]
        if not cr:
            continue
        ob.reach += 1
        wl = [e for e in p.events if e.kind == 'WLOCK' and 'keyspaces' in obj_name(e) and e.idx < cr[0].idx]
        look = [e for e in p.events if e.kind in ('MAP_GET', 'MAP_CONTAINS_KEY') and 'keyspaces' in obj_name(e)]
        nx = [e for e in p.events if e.kind == 'CTR_NEXT' and 'keyspace_id_counter' in obj_name(e)]
        if not wl:
            bad.append((p, 'a new keyspace is registered without holding the dictionary write lock')); continue
        w = wl[-1]
        unl = [e for e in p.events if e.kind == 'UNLOCK' and w.idx < e.idx < cr[0].idx and 'keyspaces' in obj_name(e)]
        if unl:
            bad.append((p, 'the dictionary lock is released between the lookup and the registration')); continue
        if not look or look[-1].idx < w.idx:
            bad.append((p, 'the name is looked up before the write lock that protects the registration is taken (no re-check under it): two callers creating the same name both create a keyspace; '
                           'the dictionary keeps one, the other handle writes into an orphan tree whose id/name mapping survives a later delete')); continue
    if ob.reach == 0:
        ob.status = 'undecided'; ob.detail = 'vacuous'
    elif not bad:
        ob.status = 'discharged'; ob.sample = {'paths': ob.reach}
    else:
        ctx.candidate(ob, 'Database.keyspace/create-not-atomic', f'{ob.id}: {bad[0][1]}', confirm=lambda: native_create_race(ctx))


def finish(ctx, ob, bad, role):
    if ob.reach == 0:
        ob.status = 'undecided'; ob.detail = ob.detail or 'vacuous'
    elif not bad:
        ob.status = 'discharged'; ob.sample = {'paths': ob.reach}
    else:
        ctx.candidate(ob, role, f'{ob.id}: {bad[0][1]}', confirm=lambda: native_lifecycle(ctx))


def native_create_race(ctx):
    """several threads open the same new keyspace name at once: all must get the same keyspace (same id)"""
    L = ['dir $DIR/db', 'open workers=0']
    for r in range(12):
        for t in range(4):
            L.append(f'spawn_free T{r}_{t} mkks n{r}')
        for t in range(4):
            L.append(f'join T{r}_{t}')
    # deterministic variant: one creator is parked just before it takes the dictionary lock (after whatever it checked without the lock), another one creates the name meanwhile
    L += ['arm_pause db.keyspace.before_lock', 'spawn PA mkks raced', 'wait_parked db.keyspace.before_lock 5000', 'spawn_free PB mkks raced', 'join PB', 'release db.keyspace.before_lock', 'join PA']
    L += ['list_ks', 'close', 'open workers=0', 'list_ks', 'close']
    spath, out = ctx.run_scenario('\n'.join(L) + '\n', tag='create-race')
    if any(c == 'CRASH' for _i, c, _r in out):
        return True, spath, 'crash: ' + out[-1][2][-200:]
    joins = [r for _i, c, r in out if c == 'join']
    for r in range(12):
        ids = set(joins[r * 4:(r + 1) * 4])
        if len(ids) > 1:
            return True, spath, f'four threads opened the new keyspace n{r} at once and got different keyspaces: {sorted(ids)}'
    if len(joins) >= 50 and joins[48] != joins[49]:
        return True, spath, f'a creator parked before the dictionary lock and one that created the name meanwhile ended up with different keyspaces for the same name: {joins[48:50]}'
    v = native_lifecycle(ctx)
    return v


def native_lifecycle(ctx):
    """create / write / delete / re-create histories with reopen in between; a deleted keyspace and its data never reappear"""
    H = {
        'id-reuse': ['ks a', 'ks b', 'insert a 6b31 31', 'insert b 6b31 4f4c44', 'insert b 6b32 4f4c44', 'delete_ks b', 'reopen', 'ks c', 'dump c', 'insert c 6b39 39',
                     'reopen', 'ks c', 'dump c => [6b39:39]', 'ks a', 'dump a => [6b31:31]', 'list_ks => [a,c]'],
        'recreate-same-name': ['ks a', 'insert a 6b31 4f4c44', 'delete_ks a', 'ks a', 'dump a => []', 'insert a 6b32 4e4557', 'reopen', 'ks a', 'dump a => [6b32:4e4557]',
                               'reopen', 'ks a', 'dump a => [6b32:4e4557]'],
        'delete-then-reopen': ['ks a', 'ks b', 'insert b 6b31 41', 'delete_ks b', 'list_ks => [a]', 'reopen', 'list_ks => [a]', 'ks_exists b => false', 'ks b', 'dump b => []'],
        'old-handle-refused': ['ks a', 'insert a 6b31 31', 'delete_ks a keep', 'insert a#old 6b32 32 => err', 'remove a#old 6b31 => err', 'ks a', 'dump a => []'],
        'delete-only-keyspace-recreate-after-reopen': ['ks b', 'insert b 6b31 41', 'insert b 6b32 42', 'delete_ks b', 'reopen', 'ks c', 'dump c => []', 'insert c 6b33 43', 'reopen', 'ks c', 'dump c => [6b33:43]',
                                                       'reopen', 'list_ks => [c]', 'ks c', 'dump c => [6b33:43]'],
        'id-reuse-sealed-journal': ['rotation_threshold 0', 'ks a', 'ks b', 'insert b 6b31 4f4c44', 'insert b 6b32 4f4c44', 'insert a 6b31 31', 'rotate a', 'worker_drain', 'delete_ks b', 'reopen', 'ks c', 'dump c => []',
                                    'insert c 6b39 39', 'reopen', 'ks c', 'dump c => [6b39:39]', 'ks a', 'dump a => [6b31:31]'],
        'isolation': ['ks a', 'ks b', 'insert a 6b31 31', 'insert b 6b31 41', 'remove a 6b31', 'dump b => [6b31:41]', 'clear b', 'insert a 6b32 32', 'dump a => [6b32:32]', 'dump b => []',
                      'reopen', 'ks a', 'ks b', 'dump a => [6b32:32]', 'dump b => []'],
        'flushed-then-deleted': ['ks a', 'ks b', 'insert b 6b31 41', 'rotate b', 'worker_drain', 'insert b 6b32 42', 'delete_ks b', 'reopen', 'ks c', 'dump c => []', 'reopen', 'ks c', 'dump c => []',
                                 'ks b', 'dump b => []'],
    }
    last = (False, None, 'not run')
    for name, ops in H.items():
        L = ['dir $DIR/db', 'open workers=0']
        expect = []
        for o in ops:
            if o == 'reopen':
                L += ['close', 'open workers=0']
                continue
            if ' => ' in o:
                cmd, want = o.split(' => ', 1)
                L.append(cmd); expect.append((len(L) - 1, want, cmd))
            else:
                L.append(o)
                if o.startswith('dump c') and name == 'id-reuse' and not expect:
                    expect.append((len(L) - 1, '[]', o))
        L.append('close')
        spath, out = ctx.run_scenario('\n'.join(L) + '\n', tag='lifecycle-' + name)
        res = {i: r for i, _c, r in out}
        if any(c == 'CRASH' for _i, c, _r in out):
            return True, spath, f'history {name}: crash ' + out[-1][2][-200:]
        for idx, want, cmd in expect:
            got = res.get(idx + 1, '?')
            okk = got.startswith('err') if want == 'err' else got == want
            if not okk:
                return True, spath, f'history {name}: `{cmd}` answered {got}, expected {want} (history: {" ; ".join(ops)})'
        errs = [(L[i - 1], r) for i, _c, r in out if r.startswith('err') and not any(i - 1 == e[0] and e[1] == 'err' for e in expect)]
        if errs:
            return True, spath, f'history {name}: operation failed: {errs[:2]}'
        last = (False, spath, f'held natively on {len(H)} histories')
    return last


def run(ctx):
    ctx.assumptions += [
        'file system by contract F2 (remove_file / remove_dir_all either succeed or fail)',
        'bounds of the recovery harness: 2 keyspaces, 2 journal batches, ids symbolic',
    ]
    check_isolation(ctx)
    check_deleted(ctx)
    check_delete_order(ctx)
    check_delete_own(ctx)
    check_files_removed(ctx)
    check_meta_removed(ctx)
    check_create_atomic(ctx)
    check_recover_keyspaces(ctx)
    check_recover(ctx)
    # a deleted keyspace must not pin a sealed journal: the journal's watermark holds a handle, so the keyspace's files would never disappear (C10's reclaim rule, decided here too)
    from . import c10
    c10.check_maintenance(ctx, with_evict_rule=False, confirm_reclaim=lambda: native_deleted_pins_journal(ctx))
    for o in ctx.obligations:
        ctx.samples.append(o.as_dict())
    return ctx.finish()


MUTANTS = [
    {'name': 'folder of a deleted keyspace is kept', 'edits': [('src/keyspace/mod.rs', "                            if let Err(e) = std::fs::remove_dir_all(path) {", "                            if let Err(e) = std::fs::create_dir_all(path) {")]},
    {'name': 'files removed when a live keyspace handle is dropped', 'edits': [('src/keyspace/mod.rs', "        if self.is_deleted.load(std::sync::atomic::Ordering::Acquire) {\n            let path = &self.tree.tree_config().path;", "        if !self.is_deleted.load(std::sync::atomic::Ordering::Acquire) {\n            let path = &self.tree.tree_config().path;")]},
    {'name': 'revert: ids in journal records do not raise the id counter (active journal)', 'edits': [('src/db.rs', "                        db.keyspace_id_counter.fetch_max(keyspace_id + 1);", "                        let _ = keyspace_id;")]},
    {'name': 'insert ignores the deleted flag', 'edits': [('src/keyspace/mod.rs', "        if self.is_deleted.load(Ordering::Relaxed) {\n            return Err(crate::Error::KeyspaceDeleted);\n        }\n\n        let key = key.into();\n        let value = value.into();", "        let key = key.into();\n        let value = value.into();")]},
    {'name': 'delete_keyspace does not flag the handle', 'edits': [('src/db.rs', "        handle\n            .is_deleted\n            .store(true, std::sync::atomic::Ordering::Release);", "")]},
    {'name': 'id counter restored to the highest id (not one past)', 'edits': [('src/recovery.rs', "    db.keyspace_id_counter.set(highest_id + 1);", "    db.keyspace_id_counter.set(highest_id);")]},
    {'name': 'replay applies unresolvable ids to the first keyspace', 'edits': [('src/db.rs', "                        let Some(keyspace_name) = db.meta_keyspace.resolve_id(item.keyspace_id)?\n                        else {\n                            continue;\n                        };", "                        let keyspace_name = match db.meta_keyspace.resolve_id(item.keyspace_id)? {\n                            Some(n) => n,\n                            None => match keyspaces.keys().next() { Some(n) => n.clone(), None => continue },\n                        };")]},
    {'name': 'remove_keyspace keeps the id->name mapping', 'edits': [('src/meta_keyspace.rs', "            key.push(b'n');\n            key.extend(keyspace.id.to_be_bytes());\n            ingestion.write_tombstone(key)?;", "            key.push(b'n');\n            key.extend(keyspace.id.to_be_bytes());\n            let _ = key;")]},
    {'name': 'insert journals its record under the next keyspace id', 'edits': [('src/keyspace/mod.rs', "            .write_raw(self.id, &key, &value, lsm_tree::ValueType::Value, seqno)", "            .write_raw(self.id + 1, &key, &value, lsm_tree::ValueType::Value, seqno)")]},
]
