"""C06 — a committed batch becomes visible to readers atomically.

M obligations:
  atomic-publish/batchN     one seqno for all items; the publish follows the last apply and precedes the unlock
  visible-writers           the only fjall functions that raise the visible seqno are the writers (after their apply),
                            recovery and keyspace deletion (MIR call-site scan against an allow-list)
  tree-counters/<fn>        the counters handed to every lsm-tree are the database's shared seqno counter and the
                            snapshot tracker's visible-seqno counter
M/C (z3, symbolic schedule over the *extracted* step order of WriteBatch::commit):
  schedule/fjall-only       committer ‖ reader(snapshot; read a; read b): no interleaving shows a torn batch
  schedule/with-tree-version-change   same plus one lsm-tree version change (contract E5: s' = S.next(); V.fetch_max(s'+1))
Native replay: pause between the per-item applies (hook), snapshot reads from the main thread, major compaction as the
version change.
"""
import z3, time
from ..core import ret_is_err, ret_is_ok, obj_name
from ..symex import Obj, EnumV, Ref, Cell, deref, bv
from . import common as C
from . import writepath as W

ALLOWED_VISIBLE_WRITERS = {
    'keyspace::<impl>::insert', 'keyspace::<impl>::remove', 'keyspace::<impl>::remove_weak', 'keyspace::<impl>::clear',
    'batch::<impl>::commit', 'db::<impl>::recover', 'meta_keyspace::<impl>::remove_keyspace',
    'snapshot_tracker::<impl>::publish', 'snapshot_tracker::<impl>::set',
}


def check_atomic_publish(ctx, n):
    ob = ctx.ob(f'atomic-publish/batch{n}', f'WriteBatch::commit ({n} items over arbitrary keyspaces): single seqno, publish after the last apply and before the journal lock is released', [C.WRITERS['batch']])
    ex, paths, recs = W.run_op(ctx, 'batch', n_items=n, value_types=None)
    if C.incomplete(paths):
        ob.status = 'undecided'; ob.detail = 'executor: ' + str(C.incomplete(paths)[0].notes[-1:]); return ob, None
    bad = []
    sample = None
    for r in recs:
        if not r.ok:
            continue
        p = r.p
        ob.reach += 1
        if len(r.nexts) != 1:
            bad.append((p, f'{len(r.nexts)} seqnos drawn for one batch')); continue
        s = r.nexts[0].res
        if any(ctx.sat(p.pc + [t.args['seqno'] != s], ob)[0] != z3.unsat for t in r.tree):
            bad.append((p, 'items of one batch are applied with different seqnos')); continue
        if len(r.tree) != n:
            bad.append((p, f'{len(r.tree)} applies for {n} items')); continue
        pubs = r.publish
        if len(pubs) != 1:
            bad.append((p, f'{len(pubs)} publishes')); continue
        if pubs[0].idx < r.tree[-1].idx:
            bad.append((p, 'the batch is published before all of its items are applied')); continue
        if ctx.sat(p.pc + [pubs[0].args['val'] != s + 1], ob)[0] != z3.unsat:
            bad.append((p, 'publishes something else than batch seqno + 1')); continue
        ul = [e for e in r.unlocks if e.idx > r.locks[0].idx] if r.locks else []
        if not ul or pubs[0].idx > ul[0].idx:
            bad.append((p, 'the journal lock is released before the batch is published')); continue
        sample = r
    if ob.reach == 0:
        ob.status = 'undecided'; ob.detail = 'vacuous'
    elif not bad:
        ob.status = 'discharged'; ob.sample = {'ok_paths': ob.reach}
    else:
        p, why = bad[0]
        ctx.candidate(ob, 'batch/not-published-atomically', f'batch: {why}; events: ' + ' · '.join(e.kind for e in p.events)[:200],
                      confirm=lambda: native_torn_any(ctx, [False, 'writer']))
    return ob, sample


def check_visible_writers(ctx):
    ob = ctx.ob('visible-writers', 'only the writers (after apply), recovery and keyspace deletion raise the visible seqno', ['*'])
    found = {}
    for f in ctx.prog.fns.values():
        for _bb, (stmts, term) in f.blocks.items():
            if term[0] == 'call':
                c = term[2]
                if c.endswith('SnapshotTracker::publish') or c.endswith('SnapshotTracker::set') or \
                        ('SequenceNumberCounter::fetch_max' in c or 'SequenceNumberCounter::set' in c):
                    base = f.key.split('::{closure')[0]
                    found.setdefault(base, []).append(c.rsplit('::', 1)[-1])
    ob.reach = len(found)
    # counters other than the visible one are also raised with fetch_max (the seqno counter during recovery, keyspace ids)
    extra_ok = {'recovery::recover_sealed_memtables', 'recover_sealed_memtables', 'recovery::recover_keyspaces', 'recover_keyspaces'}
    unknown = [k for k in found if k not in ALLOWED_VISIBLE_WRITERS and k not in extra_ok]
    ob.sample = {'sites': found}
    if not unknown:
        ob.status = 'discharged'
    else:
        ctx.candidate(ob, 'visible-seqno/raised-by-unexpected-function', f'visible/sequence counters are raised in {unknown}', confirm=lambda: native_torn(ctx, version_change=False))
    return ob


def check_tree_counters(ctx):
    for name, pat in (('Keyspace::create_new', r'^keyspace::<impl>::create_new$'),):
        ob = ctx.ob(f'tree-counters/{name}', f'{name}: lsm_tree::Config::new receives the shared seqno counter and the tracker\'s visible-seqno counter', [pat])
        ex, paths = ctx.run(pat, cache_key='tc.' + name, loop_bound=2, no_inline=[r'apply_to_base_config$'])
        bad = []
        for p in paths:
            for e in p.events:
                if e.kind == 'CALL' and e.args.get('callee', '').endswith('Config::new'):
                    ob.reach += 1
                    a = e.args['args']
                    from ..contract import counter_obj
                    c1 = counter_obj(ex, p.st, a[1]) if len(a) > 2 else None
                    c2 = counter_obj(ex, p.st, a[2]) if len(a) > 2 else None
                    n1 = c1.name if isinstance(c1, Obj) else ''
                    n2 = c2.name if isinstance(c2, Obj) else ''
                    if not ('supervisor' in n1 and n1.rstrip('→').endswith('.seqno') and 'snapshot_tracker' not in n1):
                        bad.append((p, f'seqno counter handed to the tree is {n1}'))
                    if 'snapshot_tracker' not in n2:
                        bad.append((p, f'visible counter handed to the tree is {n2}'))
        if ob.reach == 0:
            ob.status = 'undecided'; ob.detail = 'vacuous'
        elif not bad:
            ob.status = 'discharged'; ob.sample = {'sites': ob.reach}
        else:
            ctx.candidate(ob, f'{name}/wrong-counter-to-tree', bad[0][1], confirm=lambda: native_torn(ctx, version_change=False))


def schedule_model(steps, with_worker):
    """committer steps (extracted) ‖ reader [SNAP, READ_A, READ_B] ‖ optional tree version change [VNEXT, VBUMP]"""
    n = len(steps)
    lens = [n, 3, 2 if with_worker else 0]
    T = sum(lens)
    s = z3.Solver()
    sched = [z3.Int(f'sched{i}') for i in range(T)]
    pc = [[z3.Int(f'pc{t}_{i}') for i in range(T + 1)] for t in range(3)]
    S = [z3.Int(f'S{i}') for i in range(T + 1)]; V = [z3.Int(f'V{i}') for i in range(T + 1)]
    bseq = [z3.Int(f'bseq{i}') for i in range(T + 1)]
    applied = [[z3.Bool(f'app{k}_{i}') for i in range(T + 1)] for k in range(2)]
    snap = [z3.Int(f'snap{i}') for i in range(T + 1)]
    vs = [z3.Int(f'vs{i}') for i in range(T + 1)]
    seen = [[z3.Bool(f'seen{k}_{i}') for i in range(T + 1)] for k in range(2)]
    s.add(S[0] == 5, V[0] == 5, bseq[0] == -1, snap[0] == -1, vs[0] == -1)
    for t in range(3):
        s.add(pc[t][0] == 0)
    for k in range(2):
        s.add(applied[k][0] == False, seen[k][0] == False)
    apply_idx = [j for j, k in enumerate(steps) if k == 'APPLY']
    for i in range(T):
        s.add(z3.Or(*[sched[i] == t for t in range(3) if lens[t] > 0]))
        for t in range(3):
            me = sched[i] == t
            s.add(z3.Implies(me, pc[t][i] < lens[t]))
            s.add(pc[t][i + 1] == z3.If(me, pc[t][i] + 1, pc[t][i]))

        def at(t, j):
            return z3.And(sched[i] == t, pc[t][i] == j)
        nxt = z3.Or(*[at(0, j) for j, k in enumerate(steps) if k == 'NEXT'])
        pub = z3.Or(*[at(0, j) for j, k in enumerate(steps) if k == 'PUBLISH']) if 'PUBLISH' in steps else z3.BoolVal(False)
        vnext = at(2, 0) if with_worker else z3.BoolVal(False)
        vbump = at(2, 1) if with_worker else z3.BoolVal(False)
        s.add(S[i + 1] == z3.If(z3.Or(nxt, vnext), S[i] + 1, S[i]))
        s.add(bseq[i + 1] == z3.If(nxt, S[i], bseq[i]))
        s.add(vs[i + 1] == z3.If(vnext, S[i], vs[i]))
        s.add(V[i + 1] == z3.If(pub, z3.If(bseq[i] + 1 > V[i], bseq[i] + 1, V[i]),
                                 z3.If(vbump, z3.If(vs[i] + 1 > V[i], vs[i] + 1, V[i]), V[i])))
        for k in range(2):
            a = at(0, apply_idx[k]) if k < len(apply_idx) else z3.BoolVal(False)
            s.add(applied[k][i + 1] == z3.Or(applied[k][i], a))
        s.add(snap[i + 1] == z3.If(at(1, 0), V[i], snap[i]))
        for k in range(2):
            s.add(seen[k][i + 1] == z3.If(at(1, 1 + k), z3.And(applied[k][i], bseq[i] >= 0, bseq[i] < snap[i]), seen[k][i]))
    for t in range(3):
        s.add(pc[t][T] == lens[t])
    s.add(seen[0][T] != seen[1][T])
    return s, sched


def check_schedules(ctx, sample):
    if sample is None:
        return
    r = sample
    order = [e for e in r.p.events if e in r.locks or e in r.nexts or e in r.appends or e in r.tree or e in r.publish or e in r.unlocks]
    steps = []
    for e in order:
        k = 'LOCK' if e in r.locks else 'NEXT' if e in r.nexts else 'APPEND' if e in r.appends else 'APPLY' if e in r.tree else 'PUBLISH' if e in r.publish else 'UNLOCK'
        if k == 'APPEND' and steps and steps[-1] == 'APPEND':
            continue
        steps.append(k)
    for with_worker in (False, True):
        oid = 'schedule/with-tree-version-change' if with_worker else 'schedule/fjall-only'
        ob = ctx.ob(oid, ('committer ‖ snapshot reader' + (' ‖ one lsm-tree version change (E5)' if with_worker else '')) +
                    ': no interleaving lets one snapshot see part of a batch (steps extracted from WriteBatch::commit: ' + ' · '.join(steps) + ')', [C.WRITERS['batch']])
        t0 = time.time()
        s, sched = schedule_model(steps, with_worker)
        res = s.check()
        ctx.solver_s += time.time() - t0; ctx.queries += 1; ob.queries += 1; ob.reach = 1
        if res == z3.unsat:
            ob.unsat += 1; ob.status = 'discharged'; ob.sample = {'steps': steps, 'threads': 3 if with_worker else 2}
        elif res == z3.sat:
            ob.sat += 1
            m = s.model()
            names = {0: 'committer', 1: 'reader', 2: 'tree-version-change'}
            sch = [names[m.eval(x).as_long()] for x in sched]
            role = 'batch/visible-seqno-raised-by-tree-version-change' if with_worker else 'batch/torn-visibility-in-fjall-steps'
            ctx.candidate(ob, role, f'schedule {sch} over committer steps {steps} shows one item of a batch to a snapshot without the other',
                          confirm=lambda ww=with_worker: native_torn(ctx, version_change=ww))
        else:
            ob.status = 'undecided'; ob.detail = 'solver: unknown'


def native_torn(ctx, version_change):
    """B commits a two-keyspace batch and is parked between the two applies; meanwhile (version_change =)
       False      nothing else happens
       True       the main thread runs a major compaction of a third keyspace (an lsm-tree version change)
       'writer'   another thread inserts into a third keyspace (must block on the journal lock until the batch is published)
       'ingest'   another thread bulk-ingests into a third keyspace (must block on the journal lock as well)
       'clear'    another thread clears a third keyspace
    then the main thread takes ONE snapshot and reads both keys of the batch."""
    K = '6b31'
    L = ['dir $DIR/db', 'open workers=0', 'ks a', 'ks b', 'ks c', f'insert c {K} 31', 'insert c 6b32 32', 'rotate c', 'worker_drain',
         f'insert c {K} 33', 'rotate c', 'worker_drain', 'ks d', 'arm_pause batch.between_applies', f'spawn B batch2 a {K} 76 b {K} 76',
         'wait_parked batch.between_applies 5000']
    other = {'writer': f'spawn_free W insert c 6b39 39', 'ingest': 'spawn_free W ingest1 d 6b39 39', 'clear': 'spawn_free W clear d'}.get(version_change)
    if version_change == 'ingest':
        # the ingestion is parked between its journal-lock acquisition and the tree ingestion; then the batch starts
        L = L[:L.index('arm_pause batch.between_applies')] + ['arm_pause ingestion.before_finish', 'spawn W ingest1 d 6b39 39', 'wait_parked ingestion.before_finish 3000',
                                                             'arm_pause batch.between_applies', f'spawn B batch2 a {K} 76 b {K} 76', 'wait_parked batch.between_applies 1500',
                                                             'release ingestion.before_finish', 'join W', 'wait_parked batch.between_applies 5000']
        other = None
    elif version_change is True:
        L.append('major_compact c')
    elif other:
        L += [other, 'join_timeout W 1500']
    L += [f'snapget2 a {K} b {K}', 'release batch.between_applies', 'join B'] + (['join_timeout W 5000'] if other else []) + [f'snapget2 a {K} b {K}', 'close']
    tag = 'torn-' + ('vc' if version_change is True else (version_change or 'plain'))
    spath, out = ctx.run_scenario('\n'.join(L) + '\n', tag=tag)
    rs = [(c, r) for _i, c, r in out]
    if any(c == 'CRASH' for c, _r in rs):
        return True, spath, 'crash: ' + rs[-1][1][-200:]
    parked = [r for c, r in rs if c == 'wait_parked']
    if not parked or not parked[-1].startswith('ok'):
        return False, spath, f'committer did not park between the applies ({parked})'
    reads = [r for c, r in rs if c == 'snapget2']
    if not reads:
        return False, spath, 'no reads'
    a, b = reads[0].split('|')
    if (a == 'None') != (b == 'None'):
        who = {True: 'a major compaction of another keyspace', 'writer': 'an insert into another keyspace by another thread', 'ingest': 'a bulk ingestion into another keyspace by another thread',
               'clear': 'a clear of another keyspace by another thread'}.get(version_change, 'nothing else')
        return True, spath, f'one snapshot taken while the batch was half applied (and {who} completed) read a={a} b={b} (must be both or neither)'
    if len(reads) > 1 and reads[1] != 'Some("76")|Some("76")':
        return True, spath, f'after the commit returned a snapshot read {reads[1]}'
    return False, spath, 'held natively'


def native_torn_any(ctx, modes):
    last = (False, None, 'not run')
    for m in modes:
        last = native_torn(ctx, m)
        if last[0]:
            return last
    return last


def check_ingest_lock(ctx):
    """an ingestion is a tree version change issued by a foreground call: it draws a seqno and raises the visible seqno (E5).  It must do so
    while holding the journal lock, so that it cannot land between the applies of a batch (the writers hold that lock from seqno to publish)."""
    pat = r'^ingestion::<impl>::finish$'
    ob = ctx.ob('ingest/under-journal-lock', 'Ingestion::finish: the lsm-tree ingestion (seqno + visible-seqno raise) runs while the journal lock is held', [pat])
    ex, paths = ctx.run(pat, cache_key='c06.ingest', loop_bound=2, no_inline=[r'SnapshotTracker::gc$'])
    bad = []
    for p in paths:
        fin = [e for e in p.events if e.kind == 'CALL' and e.args.get('callee', '').endswith('AnyIngestion::finish')]
        if not fin:
            continue
        ob.reach += 1
        locks = [e for e in p.events if e.kind == 'LOCK' and 'journal' in obj_name(e) and e.idx < fin[0].idx]
        unl = [e for e in p.events if e.kind == 'UNLOCK' and 'journal' in obj_name(e)]
        if not locks:
            bad.append((p, 'the ingestion is registered without taking the journal lock'))
        elif any(locks[-1].idx < u.idx < fin[0].idx for u in unl):
            bad.append((p, 'the journal lock is released before the ingestion is registered: its visible-seqno raise can land between the applies of a concurrent batch'))
    if ob.reach == 0:
        ob.status = 'undecided'; ob.detail = 'vacuous'
    elif not bad:
        ob.status = 'discharged'; ob.sample = {'paths': ob.reach}
    else:
        ctx.candidate(ob, 'ingestion/version-change-outside-journal-lock', bad[0][1], confirm=lambda: native_torn(ctx, 'ingest'))


def run(ctx):
    ctx.assumptions += [
        'E5/E6/E7: every lsm-tree version change (flush registration, compaction, clear, ingestion) draws seqno.next() from the shared counter and raises the visible seqno to it + 1, on the calling thread, without the journal lock',
        'E2: a read at instant t sees exactly the applied versions with seqno < t',
        'schedules at event granularity (E10); 1 batch of 2 items over 2 keyspaces, 1 reader, at most 1 version change',
    ]
    ob, sample = check_atomic_publish(ctx, 2)
    if ctx.tier == 'thorough':
        check_atomic_publish(ctx, 3)
    check_visible_writers(ctx)
    check_tree_counters(ctx)
    check_ingest_lock(ctx)
    check_schedules(ctx, sample)
    # commit order = seqno order only if the batch's seqno is drawn inside the journal critical section that also applies and publishes it (C14's obligation, part of this property too):
    # a batch that draws its seqno first and queues for the lock afterwards is applied while the visible seqno is already past it
    from . import c14
    c14.check_critical_section(ctx, 'batch')
    # every tree of the database (new, recovered, meta) must be wired to the same two counters in the same roles (shared obligations, see wiring.py)
    from . import wiring
    wiring.check_all(ctx)
    for o in ctx.obligations:
        ctx.samples.append(o.as_dict())
    return ctx.finish()


MUTANTS = [
    {'name': 'ingestion does not hold the journal lock', 'edits': [('src/ingestion.rs', "let _journal_lock = self.keyspace.supervisor.journal.get_writer();", "drop(self.keyspace.supervisor.journal.get_writer());")]},
    {'name': 'batch commit frees the journal lock before applying', 'edits': [('src/batch/mod.rs', "        // TODO: maybe we can use a stack alloc hashset/vec here, such as smallset", "        drop(journal_writer);\n        let journal_writer = ();")]},
    {'name': 'publish before the apply loop', 'edits': [('src/batch/mod.rs', """        let mut batch_size = 0u64;
""", """        let mut batch_size = 0u64;
        self.db.supervisor.snapshot_tracker.publish(batch_seqno);
""")]},
    {'name': 'a fresh seqno per item', 'edits': [('src/batch/mod.rs', "ValueType::Value => item.keyspace.tree.insert(item.key, item.value, batch_seqno),", "ValueType::Value => item.keyspace.tree.insert(item.key, item.value, self.db.supervisor.seqno.next()),")]},
    {'name': 'publish inside the loop after each item', 'edits': [('src/batch/mod.rs', """            batch_size += item_size;
""", """            batch_size += item_size;
            self.db.supervisor.snapshot_tracker.publish(batch_seqno);
""")]},
    {'name': 'keyspace trees get a private visible counter', 'edits': [('src/keyspace/mod.rs', """            db.supervisor.seqno.clone(),
            db.supervisor.snapshot_tracker.get_ref(),
        )
        .use_descriptor_table(db.config.descriptor_table.clone())""", """            db.supervisor.snapshot_tracker.get_ref(),
            db.supervisor.snapshot_tracker.get_ref(),
        )
        .use_descriptor_table(db.config.descriptor_table.clone())""")]},
]
