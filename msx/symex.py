"""Symbolic executor for fjall's MIR (engine M).

Executes a function body from the parsed MIR with symbolic arguments.  fjall's own callees are inlined from
their MIR; environment callees (std, lsm-tree, OS) are replaced by the summaries of `contract.py`.  Each
feasible path yields (path condition, ordered event trace, return value, final memory).

Values
    z3 expressions          scalars (Bool, BitVec of the MIR width)
    Obj                     structs / tuples / arrays / opaque environment objects / closures; fields are
                            lazily materialised, typed from the MIR place annotation
    EnumV                   (discriminant: int or 64-bit BV, payload Obj per variant)
    Ref                     pointer to a Cell
Memory is a graph of Cells; forking deep-copies the whole state (aliasing preserved).
"""
import re, copy, itertools, time
import z3
from .mirparse import SCALAR_TYS, split_top, norm_name

# z3 objects must be shared, never deep-copied
for _c in (z3.ExprRef, z3.BoolRef, z3.BitVecRef, z3.BitVecNumRef, z3.ArrayRef, z3.ArithRef, z3.IntNumRef,
           z3.FuncDeclRef, z3.SortRef, z3.BitVecSortRef, z3.ArraySortRef, z3.BoolSortRef):
    _c.__deepcopy__ = lambda self, memo: self

_uid = itertools.count(1)


class ExecError(Exception):
    pass


class Cell:
    __slots__ = ('val',)

    def __init__(self, val=None):
        self.val = val


class Ref:
    __slots__ = ('cell', 'meta')

    def __init__(self, cell, meta=None):
        self.cell = cell
        self.meta = meta      # fat-pointer metadata (slice length) when known

    def __repr__(self):
        return f'&{self.cell.val!r}'


class Obj:
    """struct / tuple / opaque object."""
    __slots__ = ('uid', 'ty', 'name', 'fields', 'kind', 'data')

    def __init__(self, ty, name, kind='opaque'):
        self.uid = next(_uid)
        self.ty = ty or ''
        self.name = name
        self.fields = {}
        self.kind = kind
        self.data = {}        # abstract state owned by contract summaries

    def __repr__(self):
        return f'<{self.name}:{short_ty(self.ty)}#{self.uid}>'


class EnumV:
    __slots__ = ('ty', 'disc', 'payloads', 'name', 'data')

    def __init__(self, ty, disc, name='e'):
        self.ty = ty or ''
        self.disc = disc          # python int or z3 BitVec(64)
        self.payloads = {}        # variant name -> Obj (kind 'variant')
        self.name = name
        self.data = {}

    def __repr__(self):
        return f'Enum[{short_ty(self.ty)}]({self.disc})'


class FnItem:
    __slots__ = ('text',)

    def __init__(self, text):
        self.text = text

    def __repr__(self):
        return f'fn:{self.text[:50]}'


class Ev:
    """one environment event on a path"""
    __slots__ = ('kind', 'obj', 'args', 'res', 'fault', 'stack', 'site', 'cond', 'idx')

    def __init__(self, kind, obj=None, args=None, res=None, fault=None, stack=(), site=None):
        self.kind = kind; self.obj = obj; self.args = args or {}; self.res = res; self.fault = fault
        self.stack = stack; self.site = site; self.cond = None; self.idx = -1

    def __repr__(self):
        o = f' {self.obj.name}' if isinstance(self.obj, Obj) else ''
        a = ' ' + ','.join(f'{k}={fmt_val(v)}' for k, v in self.args.items()) if self.args else ''
        f = f' fault={self.fault}' if self.fault is not None else ''
        r = f' -> {fmt_val(self.res)}' if self.res is not None else ''
        return f'{self.kind}{o}{a}{r}{f}'


def fmt_val(v):
    if isinstance(v, (Obj, EnumV, Ref, FnItem)):
        return repr(v)
    if z3.is_expr(v):
        s = str(z3.simplify(v)) if not z3.is_const(v) else str(v)
        return s if len(s) < 60 else s[:57] + '...'
    if isinstance(v, (list, tuple)):
        return '[' + ','.join(fmt_val(x) for x in v) + ']'
    return repr(v)


def short_ty(ty):
    ty = re.sub(r"'\w+ ?", '', ty or '')
    return ty if len(ty) < 48 else ty[:45] + '...'


# ------------------------------------------------------------------ type helpers
def strip_ref(ty):
    ty = ty.strip()
    m = re.match(r"^&(?:'\w+ )?(?:mut )?(.*)$", ty, re.S)
    if m:
        return m.group(1).strip()
    m = re.match(r'^\*(?:const|mut) (.*)$', ty, re.S)
    if m:
        return m.group(1).strip()
    return None


def is_tuple_ty(ty):
    ty = ty.strip()
    return ty.startswith('(') and ty.endswith(')')


def tuple_elems(ty):
    return split_top(ty.strip()[1:-1])


def generic_args(ty):
    """top-level generic arguments of a path type:  Result<A, B> -> [A, B]"""
    ty = ty.strip()
    i = ty.find('<')
    if i < 0 or not ty.endswith('>'):
        return []
    return split_top(ty[i + 1:-1])


def base_name(ty):
    """last path segment without generics: std::result::Result<..> -> Result"""
    ty = ty.strip()
    while True:
        r = strip_ref(ty)
        if r is None:
            break
        ty = r
    depth, out = 0, []
    for i, c in enumerate(ty):
        if c == '<':
            depth += 1
        elif c == '>' and i and ty[i - 1] != '-':
            depth -= 1
        elif depth == 0:
            out.append(c)
    b = ''.join(out).strip()
    return b.split('::')[-1] if b and not b.startswith(('(', '[', '{')) else b


def strip_turbofish(callee):
    """remove `::<...>` segments (balanced) from a callee path, keeping `<A as B>` heads."""
    out, i, n = [], 0, len(callee)
    while i < n:
        if callee.startswith('::<', i) and not callee.startswith('::<impl ', i):
            depth, j = 0, i + 2
            while j < n:
                c = callee[j]
                if c == '<':
                    depth += 1
                elif c == '>' and callee[j - 1] != '-':
                    depth -= 1
                    if depth == 0:
                        break
                j += 1
            i = j + 1
            continue
        out.append(callee[i]); i += 1
    return ''.join(out)


def parse_qualified(callee):
    """'<A as B>::m' -> (A, B, 'm', rest)   else None"""
    if not callee.startswith('<'):
        return None
    depth = 0
    for i, c in enumerate(callee):
        if c == '<':
            depth += 1
        elif c == '>' and callee[i - 1] != '-':
            depth -= 1
            if depth == 0:
                break
    inner, rest = callee[1:i], callee[i + 1:]
    # split inner at top-level ' as '
    d = 0
    for j in range(len(inner)):
        c = inner[j]
        if c in '<([':
            d += 1
        elif c in ')]' or (c == '>' and inner[j - 1] != '-'):
            d -= 1
        elif d == 0 and inner.startswith(' as ', j):
            return inner[:j].strip(), inner[j + 4:].strip(), rest.lstrip(':'), rest
    return inner.strip(), None, rest.lstrip(':'), rest


BV64 = z3.BitVecSort(64)


def bv(val, width=64):
    return z3.BitVecVal(val, width)


def is_concrete(e):
    return z3.is_bv_value(e) or z3.is_true(e) or z3.is_false(e)


# ------------------------------------------------------------------ state
class Frame:
    __slots__ = ('fn', 'locals', 'bb', 'visits', 'self_ty', 'generics')

    def __init__(self, fn):
        self.fn = fn; self.locals = {}; self.bb = 'bb0'; self.visits = {}; self.self_ty = None; self.generics = {}


class State:
    def __init__(self):
        self.frames = []
        self.pc = []            # list of z3 Bool
        self.events = []
        self.faults = []        # (kind, z3 Bool, event index)
        self.notes = []         # 'LOOP_BOUND', 'HAVOC:..', 'DEPTH', ...
        self.globals = {}       # shared abstract environment objects
        self.status = 'running'
        self.ret = None
        self.fresh = itertools.count()

    def clone(self):
        s = State.__new__(State)
        memo = {}
        s.frames = copy.deepcopy(self.frames, memo)
        s.events = copy.deepcopy(self.events, memo)
        s.globals = copy.deepcopy(self.globals, memo)
        s.ret = copy.deepcopy(self.ret, memo)
        s.pc = list(self.pc); s.faults = list(self.faults); s.notes = list(self.notes)
        s.status = self.status
        s.fresh = itertools.count(next(self.fresh))
        return s, memo

    def emit(self, ev):
        ev.idx = len(self.events)
        ev.stack = tuple(f.fn.key for f in self.frames)
        self.events.append(ev)
        return ev


class Path:
    """result of one feasible execution path"""

    def __init__(self, st):
        self.pc = st.pc; self.events = st.events; self.ret = st.ret; self.status = st.status
        self.faults = st.faults; self.notes = st.notes; self.st = st

    def ev(self, *kinds):
        return [e for e in self.events if e.kind in kinds]


# ------------------------------------------------------------------ executor
class Executor:
    def __init__(self, program, srcinfo, contract, loop_bound=2, max_depth=12, max_paths=4000, no_inline=(),
                 timeout_s=120):
        self.prog = program
        self.src = srcinfo
        self.contract = contract
        self.loop_bound = loop_bound
        self.max_depth = max_depth
        self.max_paths = max_paths
        self.no_inline = [re.compile(p) for p in no_inline]
        self.timeout_s = timeout_s
        self.stats = {'solver_calls': 0, 'solver_s': 0.0, 'forks': 0, 'havoc': {}, 'inlined': {}, 'summarised': {}}
        self._index_fns()
        self._solver = z3.Solver()
        self.droppy_cache = {}

    # ---------- function resolution
    def _index_fns(self):
        self.fn_trait_raw = {}
        self.fn_index = {}     # (type, trait|None, method) -> [Fn]
        self.free_index = {}   # last segment(s) -> [Fn]
        for f in self.prog.fns.values():
            name = f.name
            if '{closure' in name.rsplit('::', 1)[-1] or '::{closure' in name:
                continue
            m = re.match(r'^(.*?)<impl at (src/[^:]+):(\d+):(\d+): (\d+):(\d+)>::(.+)$', name)
            if m:
                modp, file, line, col, method = m.group(1), m.group(2), int(m.group(3)), int(m.group(4)), m.group(7)
                hdr = self.src.impls.get((file, line))
                if hdr is None:
                    hdr = self._derive_header(file, line, col, int(m.group(6)))
                if hdr is None:
                    continue
                trait, ty = hdr
                self.fn_index.setdefault((ty, trait, method), []).append(f)
                raw = self.src.impl_raw.get((file, line))
                self.fn_trait_raw[f.name] = raw[0] if raw else None
            else:
                segs = name.split('::')
                for k in range(1, len(segs) + 1):
                    self.free_index.setdefault('::'.join(segs[-k:]), []).append(f)

    def _derive_header(self, file, line, col, col2):
        try:
            lines = open(f'{self.src.repo}/{file}').read().split('\n')
        except Exception:
            return None
        trait = lines[line - 1][col - 1:col2 - 1].strip()
        for l in lines[line - 1:line + 30]:
            m = re.search(r'\b(?:struct|enum)\s+(\w+)', l)
            if m:
                return (trait.split('::')[-1], m.group(1))
        return None

    def resolve(self, callee, frame):
        """callee text at a call site -> Fn or None"""
        c = callee
        if frame is not None and frame.self_ty and 'Self' in c:
            c = re.sub(r'\bSelf\b', frame.self_ty, c)
        c0 = strip_turbofish(c)
        q = parse_qualified(c0)
        if q:
            selfty, trait, method, _rest = q
            method = method.split('::')[0]
            tyname = base_name(selfty)
            traitname = base_name(trait) if trait else None
            cands = self.fn_index.get((tyname, traitname, method), [])
            cands = self._disambiguate(cands, selfty)
            if len(cands) > 1 and trait and generic_args(trait):
                want = [base_name(g) for g in generic_args(trait)]
                c2 = [f for f in cands if self.fn_trait_raw.get(f.name) and
                      [base_name(g) for g in generic_args(self.fn_trait_raw[f.name])] == want]
                if c2:
                    cands = c2
                if len(cands) > 1:
                    # same last segment (io::Error vs lsm_tree::Error): compare whole paths by suffix
                    def segs(t):
                        return [x for x in re.sub(r'<.*', '', t.strip().lstrip('&')).split('::') if x]
                    wantp = [segs(g) for g in generic_args(trait)]
                    c3 = []
                    for f in cands:
                        raw = self.fn_trait_raw.get(f.name)
                        if not raw:
                            continue
                        havep = [segs(g) for g in generic_args(raw)]
                        if len(havep) == len(wantp) and all(a[-min(len(a), len(b)):] == b[-min(len(a), len(b)):] for a, b in zip(havep, wantp)):
                            c3.append(f)
                    if c3:
                        cands = c3
            if len(cands) == 1:
                return cands[0], None
            if not cands and traitname:
                # trait default method, e.g. Readable::len
                d = self.free_index.get(f'{traitname}::{method}', [])
                if len(d) == 1:
                    return d[0], selfty
            return None, None
        segs = c0.split('::')
        if len(segs) >= 2:
            tyname, method = segs[-2], segs[-1]
            cands = self.fn_index.get((tyname, None, method), [])
            cands = self._disambiguate(cands, '::'.join(segs[:-1]))
            if len(cands) == 1:
                return cands[0], None
        d = self.free_index.get(c0, [])
        if len(d) == 1:
            return d[0], None
        return None, None

    @staticmethod
    def _disambiguate(cands, typath):
        hint = [s for s in re.sub(r'<.*', '', typath).split('::')[:-1] if s]
        if hint and hint[0] in ('lsm_tree', 'std', 'core', 'alloc', 'dashmap', 'flume', 'byteview', 'xxhash_rust', 'lz4_flex', 'log', 'tempfile'):
            return []       # a dependency's item that merely shares its name with one of fjall's
        if len(cands) <= 1:
            return cands
        if hint:
            c2 = [f for f in cands if f.name.split('<impl')[0].rstrip(':').split('::')[-len(hint):] == hint]
            if c2:
                return c2
        return cands

    # ---------- fresh values
    def fresh(self, st, ty, hint='v'):
        ty = (ty or '').strip()
        n = next(st.fresh)
        nm = f'{hint}!{n}'
        if ty == 'bool':
            return z3.Bool(nm)
        if ty in SCALAR_TYS:
            return z3.BitVec(nm, SCALAR_TYS[ty])
        if ty in ('f32', 'f64'):
            return z3.BitVec(nm, 32 if ty == 'f32' else 64)
        if ty == '()' or ty == '':
            return self.unit() if ty == '()' else Obj('', hint)
        if ty == '!':
            return Obj('!', hint)
        r = strip_ref(ty)
        if r is not None:
            return Ref(Cell(self.fresh(st, r, hint + '*')))
        if is_tuple_ty(ty):
            o = Obj(ty, hint, 'tuple')
            return o
        vs = self.src.enum_variants(ty)
        if vs is not None and not ty.startswith('['):
            e = EnumV(ty, z3.BitVec(f'disc_{nm}', 64), hint)
            st.pc.append(z3.Or(*[e.disc == bv(d) for _v, d in vs]))
            return e
        return Obj(ty, hint)

    @staticmethod
    def unit():
        return Obj('()', 'unit', 'tuple')

    def mk_enum(self, ty, variant, payload=None, name='e'):
        vs = self.src.enum_variants(ty)
        disc = None
        if vs:
            for v, d in vs:
                if v == variant:
                    disc = d
        if disc is None:
            disc = {'None': 0, 'Some': 1, 'Ok': 0, 'Err': 1, 'Continue': 0, 'Break': 1}.get(variant, 0)
        e = EnumV(ty, disc, name)
        o = Obj(ty + '::' + variant, variant, 'variant')
        for i, v in enumerate(payload or []):
            o.fields[i] = Cell(v)
        e.payloads[variant] = o
        return e

    def mk_result(self, st, ty, fault, ok=None, err=None):
        """Result whose discriminant is the fault Bool"""
        e = EnumV(ty, z3.If(fault, bv(1), bv(0)), 'res')
        ga = generic_args(ty)
        okty = ga[0] if ga else '()'
        errty = ga[1] if len(ga) > 1 else 'error::Error'
        o = Obj(ty + '::Ok', 'Ok', 'variant'); o.fields[0] = Cell(ok if ok is not None else self.fresh(st, okty, 'ok'))
        x = Obj(ty + '::Err', 'Err', 'variant'); x.fields[0] = Cell(err if err is not None else self.fresh(st, errty, 'err'))
        e.payloads['Ok'] = o; e.payloads['Err'] = x
        return e

    # ---------- solver
    def feasible(self, pc, extra=None):
        t0 = time.time()
        s = self._solver
        s.push()
        try:
            s.add(*pc)
            if extra is not None:
                s.add(extra)
            r = s.check()
        finally:
            s.pop()
        self.stats['solver_calls'] += 1
        self.stats['solver_s'] += time.time() - t0
        return r != z3.unsat

    def valid(self, pc, claim):
        """pc ⟹ claim ?"""
        return not self.feasible(pc, z3.Not(claim))

    # ---------- places
    def field_name(self, ty, idx):
        names = self.src.struct_fields(ty) if ty else None
        if names and idx < len(names):
            return names[idx]
        return str(idx)

    def place_cell(self, st, fr, pl, create=True):
        k = pl[0]
        if k == 'local':
            c = fr.locals.get(pl[1])
            if c is None:
                c = Cell(None); fr.locals[pl[1]] = c
            return c
        if k == 'deref':
            v = self.read_place(st, fr, pl[1])
            if isinstance(v, Ref):
                return v.cell
            if isinstance(v, Obj):
                # Box<T> / raw pointer-like opaque: pointee is a pseudo-field
                c = v.fields.get('*')
                if c is None:
                    inner = None
                    ga = generic_args(v.ty)
                    c = Cell(self.fresh(st, ga[0] if ga else '', v.name + '*')); v.fields['*'] = c
                return c
            raise ExecError(f'deref of {v!r} in {fr.fn.key}')
        if k == 'field':
            base_pl, idx, fty = pl[1], pl[2], pl[3]
            if base_pl[0] == 'downcast':
                ecell = self.place_cell(st, fr, base_pl[1])
                ev = ecell.val
                if ev is None:
                    ev = self._materialise(st, fr, base_pl[1], ecell)
                if isinstance(ev, Obj):
                    ev = self.to_enum(st, ev); ecell.val = ev
                if not isinstance(ev, EnumV):
                    raise ExecError(f'downcast of {ev!r}')
                var = base_pl[2]
                o = ev.payloads.get(var)
                if o is None:
                    o = Obj(ev.ty + '::' + var, f'{ev.name}.{var}', 'variant'); ev.payloads[var] = o
                c = o.fields.get(idx)
                if c is None:
                    c = Cell(self.fresh(st, fty, f'{ev.name}.{var}.{idx}')); o.fields[idx] = c
                return c
            bcell = self.place_cell(st, fr, base_pl)
            bv_ = bcell.val
            if bv_ is None:
                bv_ = self._materialise(st, fr, base_pl, bcell)
            hops = 0
            while isinstance(bv_, Ref) and hops < 3:      # a summary handed over one reference level too many (&&T where &T is expected): see through it
                bv_ = bv_.cell.val; hops += 1
            if isinstance(bv_, Obj):
                c = bv_.fields.get(idx)
                if c is None:
                    fname = self.field_name(bv_.ty, idx) if bv_.kind in ('opaque', 'struct') else str(idx)
                    c = Cell(self.fresh(st, fty, f'{bv_.name}.{fname}')); bv_.fields[idx] = c
                return c
            if isinstance(bv_, EnumV):
                # field of a single-variant enum-like? (shouldn't happen)
                raise ExecError(f'field of enum {bv_!r} without downcast')
            raise ExecError(f'field {idx} of {bv_!r} in {fr.fn.key}')
        if k in ('index', 'cindex'):
            bcell = self.place_cell(st, fr, pl[1])
            bv_ = bcell.val
            if bv_ is None:
                bv_ = self._materialise(st, fr, pl[1], bcell)
            if k == 'cindex':
                key = ('i', pl[2]) if not pl[3] else ('r', pl[2])
            else:
                iv = self.read_place(st, fr, ('local', pl[2]))
                iv = z3.simplify(iv) if z3.is_expr(iv) else iv
                key = ('i', iv.as_long()) if z3.is_bv_value(iv) else ('s', str(iv))
            if isinstance(bv_, Obj):
                c = bv_.fields.get(key)
                if c is None:
                    ety = ''
                    m = re.match(r'^\[(.*?)(?:; \d+)?\]$', bv_.ty.strip())
                    if m:
                        ety = m.group(1)
                    c = Cell(self.fresh(st, ety, f'{bv_.name}[{key[1]}]')); bv_.fields[key] = c
                return c
            raise ExecError(f'index of {bv_!r}')
        raise ExecError(f'place {pl}')

    def place_ty(self, fr, pl):
        k = pl[0]
        if k == 'local':
            return fr.fn.locals.get(pl[1], '')
        if k == 'field':
            return pl[3]
        if k == 'deref':
            t = self.place_ty(fr, pl[1])
            r = strip_ref(t)
            if r is not None:
                return r
            ga = generic_args(t)
            return ga[0] if ga else ''
        if k in ('index', 'cindex'):
            t = self.place_ty(fr, pl[1])
            m = re.match(r'^\[(.*?)(?:; \d+)?\]$', t.strip())
            return m.group(1) if m else ''
        return ''

    def _materialise(self, st, fr, pl, cell):
        ty = self.place_ty(fr, pl)
        hint = fr.fn.debug.get(pl[1], pl[1]) if pl[0] == 'local' else 'p'
        v = self.fresh(st, ty, hint)
        cell.val = v
        return v

    def read_place(self, st, fr, pl):
        c = self.place_cell(st, fr, pl)
        if c.val is None:
            self._materialise(st, fr, pl, c)
        return c.val

    def to_enum(self, st, o):
        """lazily view an opaque Obj as an enum"""
        e = o.data.get('as_enum')
        if e is None:
            e = EnumV(o.ty, z3.BitVec(f'disc_{o.name}!{next(st.fresh)}', 64), o.name)
            vs = self.src.enum_variants(o.ty)
            if vs:
                st.pc.append(z3.Or(*[e.disc == bv(d) for _v, d in vs]))
            o.data['as_enum'] = e
        return e

    # ---------- operands / rvalues
    def const(self, st, text, fr=None):
        c = text.strip()
        if c == 'true':
            return z3.BoolVal(True)
        if c == 'false':
            return z3.BoolVal(False)
        if c == '()':
            return self.unit()
        m = re.fullmatch(r'(-?[\d_]+)_(u8|u16|u32|u64|usize|u128|i8|i16|i32|i64|isize|i128)', c)
        if m:
            return z3.BitVecVal(int(m.group(1).replace('_', '')), SCALAR_TYS[m.group(2)])
        m = re.fullmatch(r'(-?[\d._eE+-]+)(f32|f64)', c)
        if m:
            o = Obj(m.group(2), 'const:' + c); o.data['float'] = m.group(1)
            return o
        m = re.fullmatch(r'"(.*)"', c, re.S)
        if m:
            o = Obj('str', 'str:' + m.group(1)[:40], 'str'); o.data['str'] = m.group(1)
            return Ref(Cell(o))
        m = re.fullmatch(r'b"(.*)"', c, re.S)
        if m:
            o = Obj('[u8]', 'bstr:' + m.group(1)[:40], 'bytes'); o.data['bytes'] = m.group(1)
            return Ref(Cell(o))
        m = re.fullmatch(r"'(.)'", c)
        if m:
            return z3.BitVecVal(ord(m.group(1)), 32)
        m = re.fullmatch(r'ZeroSized: (.*)', c, re.S)
        if m:
            cm = re.fullmatch(r'\{closure@([^}]+)\}', m.group(1).strip())
            if cm:
                o = Obj(m.group(1), 'closure@' + cm.group(1).split('/')[-1], 'closure'); o.data['loc'] = cm.group(1)
                return o
            if re.match(r'^(fn\(|for<)', m.group(1).strip()) is None and '{' not in m.group(1) and re.search(r'::[a-z_]\w*(::<.*>)?$', m.group(1).strip()):
                return FnItem(m.group(1).strip())
            return Obj(m.group(1), 'zst')
        # promoted constants of the current function: evaluate their body
        pm = re.search(r'::promoted\[(\d+)\]$', c)
        if pm and fr is not None:
            base = fr.fn.name
            base = re.sub(r'::\{closure#\d+\}$', '', base) if (base + f'::promoted[{pm.group(1)}]') not in self.prog.const_bodies else base
            body = self.prog.const_bodies.get(fr.fn.name + f'::promoted[{pm.group(1)}]') or self.prog.const_bodies.get(base + f'::promoted[{pm.group(1)}]')
            if body is not None:
                outs = list(self.call_fn(st, body, []))
                if len(outs) == 1 and outs[0][0] is st and outs[0][1] is not None:
                    return outs[0][1]
        if re.fullmatch(r'[\w:]+', c):
            cb = [f for k, f in self.prog.const_bodies.items() if k == c or k.endswith('::' + c) or c.endswith('::' + k)]
            if len(cb) == 1:
                outs = list(self.call_fn(st, cb[0], []))
                if len(outs) == 1 and outs[0][0] is st and outs[0][1] is not None:
                    return outs[0][1]
            cv = [v for k, v in self.prog.const_values.items() if k == c or k.endswith('::' + c) or c.endswith('::' + k)]
            if len(cv) == 1 and cv[0] != c:
                return self.const(st, cv[0], fr)
        # named constants:  journal::writer::PRE_ALLOCATED_BYTES, file::MAGIC_BYTES, promoted refs ...
        o = Obj('', 'const:' + c[:60], 'const'); o.data['const'] = c
        known = self.contract.const_value(self, st, c)
        if known is not None:
            return known
        if re.fullmatch(r'[\w:]+', c):
            kc = self.src.const_lookup(c)
            if kc is not None and kc[0] in SCALAR_TYS:
                return z3.BitVecVal(kc[1], SCALAR_TYS[kc[0]])
        return o

    def operand(self, st, fr, op):
        k = op[0]
        if k in ('copy', 'move'):
            return self.read_place(st, fr, op[1])
        if k == 'const':
            return self.const(st, op[1], fr)
        if k == 'fnitem':
            return FnItem(op[1])
        raise ExecError(f'operand {op}')

    def operand_ty(self, fr, op):
        if op[0] in ('copy', 'move'):
            return self.place_ty(fr, op[1])
        if op[0] == 'const':
            m = re.search(r'_(u8|u16|u32|u64|usize|u128|i8|i16|i32|i64|isize|i128)$', op[1])
            if m:
                return m.group(1)
            if op[1] in ('true', 'false'):
                return 'bool'
        return ''

    def binop(self, st, fr, op, a, b, aty):
        signed = aty.startswith('i')
        if not (z3.is_expr(a) and z3.is_expr(b)):
            # comparison of opaque things (e.g. pointers): uninterpreted
            if op in ('Eq', 'Ne', 'Lt', 'Le', 'Gt', 'Ge'):
                if op in ('Eq', 'Ne') and isinstance(a, (Obj, EnumV, Ref)) and a is b:
                    return z3.BoolVal(op == 'Eq')
                return z3.Bool(f'cmp!{next(st.fresh)}')
            raise ExecError(f'binop {op} on {a!r},{b!r}')
        if z3.is_bool(a) and z3.is_bool(b):
            f = {'Eq': lambda: a == b, 'Ne': lambda: a != b, 'BitAnd': lambda: z3.And(a, b), 'BitOr': lambda: z3.Or(a, b),
                 'BitXor': lambda: z3.Xor(a, b)}
            return f[op]()
        if a.size() != b.size():
            if op in ('Shl', 'Shr', 'ShlUnchecked', 'ShrUnchecked'):
                b = z3.ZeroExt(a.size() - b.size(), b) if b.size() < a.size() else z3.Extract(a.size() - 1, 0, b)
            else:
                raise ExecError(f'width mismatch {op} {a.size()} {b.size()} in {fr.fn.key}')
        if op in ('Add', 'AddUnchecked'):
            return a + b
        if op in ('Sub', 'SubUnchecked'):
            return a - b
        if op in ('Mul', 'MulUnchecked'):
            return a * b
        if op == 'Div':
            return a / b if signed else z3.UDiv(a, b)
        if op == 'Rem':
            return z3.SRem(a, b) if signed else z3.URem(a, b)
        if op == 'Eq':
            return a == b
        if op == 'Ne':
            return a != b
        if op == 'Lt':
            return a < b if signed else z3.ULT(a, b)
        if op == 'Le':
            return a <= b if signed else z3.ULE(a, b)
        if op == 'Gt':
            return a > b if signed else z3.UGT(a, b)
        if op == 'Ge':
            return a >= b if signed else z3.UGE(a, b)
        if op == 'BitAnd':
            return a & b
        if op == 'BitOr':
            return a | b
        if op == 'BitXor':
            return a ^ b
        if op in ('Shl', 'ShlUnchecked'):
            return a << b
        if op in ('Shr', 'ShrUnchecked'):
            return a >> b if signed else z3.LShR(a, b)
        if op in ('AddWithOverflow', 'SubWithOverflow', 'MulWithOverflow'):
            w = a.size()
            if op == 'AddWithOverflow':
                r = a + b
                ov = z3.Not(z3.BVAddNoOverflow(a, b, signed)) if not signed else z3.Or(z3.Not(z3.BVAddNoOverflow(a, b, True)), z3.Not(z3.BVAddNoUnderflow(a, b)))
            elif op == 'SubWithOverflow':
                r = a - b
                ov = z3.Not(z3.BVSubNoUnderflow(a, b, signed)) if not signed else z3.Or(z3.Not(z3.BVSubNoOverflow(a, b)), z3.Not(z3.BVSubNoUnderflow(a, b, True)))
            else:
                r = a * b
                ov = z3.Not(z3.BVMulNoOverflow(a, b, signed))
            t = Obj('(int, bool)', 'ovf', 'tuple'); t.fields[0] = Cell(r); t.fields[1] = Cell(ov)
            return t
        if op == 'Cmp':
            lt = a < b if signed else z3.ULT(a, b)
            return EnumV('std::cmp::Ordering', z3.If(lt, bv(-1), z3.If(a == b, bv(0), bv(1))), 'ord')
        raise ExecError(f'binop {op}')

    def cast(self, st, fr, kind, v, ty, src_ty):
        ty = ty.strip()
        if kind == 'IntToInt':
            if z3.is_bool(v):
                v = z3.If(v, z3.BitVecVal(1, 8), z3.BitVecVal(0, 8)); src_ty = 'u8'
            if isinstance(v, EnumV):
                v = v.disc if not isinstance(v.disc, int) else bv(v.disc)
                src_ty = 'i64'
            if not z3.is_bv(v):
                return self.fresh(st, ty, 'cast')
            w = SCALAR_TYS.get(ty)
            if w is None:
                return v
            if w == v.size():
                return v
            if w < v.size():
                return z3.Extract(w - 1, 0, v)
            return z3.SignExt(w - v.size(), v) if src_ty.startswith('i') else z3.ZeroExt(w - v.size(), v)
        if kind.startswith('PointerCoercion') or kind in ('PtrToPtr', 'Transmute', 'FnPtrToPtr'):
            return v
        return self.fresh(st, ty, 'cast')

    def rvalue(self, st, fr, rv, dst_ty):
        k = rv[0]
        if k == 'use':
            return self.operand(st, fr, rv[1])
        if k in ('ref', 'rawptr'):
            pl = rv[2]
            c = self.place_cell(st, fr, pl)
            if c.val is None:
                self._materialise(st, fr, pl, c)
            # &*r  where r: Ref with metadata keeps metadata
            if pl[0] == 'deref':
                inner = self.read_place(st, fr, pl[1])
                if isinstance(inner, Ref):
                    return Ref(c, inner.meta)
            return Ref(c)
        if k == 'disc':
            c = self.place_cell(st, fr, rv[1])
            v = c.val
            if v is None:
                v = self._materialise(st, fr, rv[1], c)
            if isinstance(v, Obj):
                v = self.to_enum(st, v); c.val = v
            if isinstance(v, EnumV):
                return bv(v.disc) if isinstance(v.disc, int) else v.disc
            raise ExecError(f'discriminant of {v!r} in {fr.fn.key}')
        if k == 'binop':
            a = self.operand(st, fr, rv[2]); b = self.operand(st, fr, rv[3])
            return self.binop(st, fr, rv[1], a, b, self.operand_ty(fr, rv[2]))
        if k == 'unop':
            a = self.operand(st, fr, rv[2])
            if rv[1] == 'Not':
                return z3.Not(a) if z3.is_bool(a) else ~a
            if rv[1] == 'Neg':
                return -a
        if k == 'cast':
            v = self.operand(st, fr, rv[2])
            return self.cast(st, fr, rv[1], v, rv[3], self.operand_ty(fr, rv[2]))
        if k == 'aggr_tuple':
            o = Obj(dst_ty, 'tup', 'tuple')
            for i, op in enumerate(rv[1]):
                o.fields[i] = Cell(self.operand(st, fr, op))
            return o
        if k == 'aggr_array':
            o = Obj(dst_ty, 'arr', 'array')
            for i, op in enumerate(rv[1]):
                o.fields[('i', i)] = Cell(self.operand(st, fr, op))
            o.data['len'] = len(rv[1])
            return o
        if k == 'repeat':
            o = Obj(dst_ty, 'arr', 'array')
            v = self.operand(st, fr, rv[1])
            try:
                n = int(re.sub(r'_?usize', '', rv[2].replace('const ', '')).strip())
            except ValueError:
                n = None
            if n is not None and n <= 64:
                for i in range(n):
                    o.fields[('i', i)] = Cell(v)
                o.data['len'] = n
            return o
        if k == 'closure':
            o = Obj(dst_ty, 'closure@' + rv[1].split('/')[-1], 'closure')
            o.data['loc'] = rv[1]
            for i, (n, op) in enumerate(rv[2]):
                o.fields[i] = Cell(self.operand(st, fr, op))
            return o
        if k == 'aggr_adt':
            return self.aggregate(st, fr, rv[1], rv[2], dst_ty)
        if k == 'ptrmeta':
            v = self.operand(st, fr, rv[1])
            if isinstance(v, Ref) and v.meta is not None:
                return v.meta
            if isinstance(v, Ref) and isinstance(v.cell.val, Obj):
                ln = self.contract.length_of(self, st, v.cell.val)
                if ln is not None:
                    return ln
            return z3.BitVec(f'len!{next(st.fresh)}', 64)
        if k == 'len':
            v = self.read_place(st, fr, rv[1])
            if isinstance(v, Obj):
                ln = self.contract.length_of(self, st, v)
                if ln is not None:
                    return ln
            return z3.BitVec(f'len!{next(st.fresh)}', 64)
        raise ExecError(f'rvalue {rv}')

    def aggregate(self, st, fr, path, fields, dst_ty):
        """struct / enum-variant construction"""
        ty = dst_ty or path
        vs = self.src.enum_variants(ty) if ty else None
        p0 = strip_turbofish(path)
        last = p0.split('::')[-1]
        if vs is not None and any(v == last for v, _ in vs):
            vals = []
            e = self.mk_enum(ty, last, None, last)
            o = e.payloads[last]
            for i, (n, op) in enumerate(fields):
                o.fields[i] = Cell(self.operand(st, fr, op))
            return e
        # plain struct
        o = Obj(ty, base_name(ty) or last, 'struct')
        for i, (n, op) in enumerate(fields):
            o.fields[i] = Cell(self.operand(st, fr, op))
        return o

    # ---------- running
    def run(self, fn, args=None, setup=None, st=None):
        """execute `fn`; returns list[Path].  args: list of values or None (fresh symbolic)."""
        st = st or State()
        self.deadline = time.time() + self.timeout_s
        self.paths = []
        fr = Frame(fn)
        for i, a in enumerate(fn.args):
            if args is not None and i < len(args) and args[i] is not None:
                v = args[i]
            else:
                v = self.fresh(st, fn.locals[a], fn.debug.get(a, a))
            fr.locals[a] = Cell(v)
        st.frames.append(fr)
        if setup:
            setup(self, st, fr)
        out = []
        for s2, ret in self.exec_frame(st, 0):
            s2.ret = ret
            if s2.status == 'running':
                s2.status = 'returned'
            out.append(Path(s2))
        return out

    def over_budget(self):
        return time.time() > self.deadline

    def call_fn(self, st, fn, args, self_ty=None):
        """inline `fn` (generator of (state, retval))"""
        depth = len(st.frames)
        if depth >= self.max_depth:
            st.notes.append('DEPTH:' + fn.key)
            yield st, self.fresh(st, fn.ret, 'deep')
            return
        fr = Frame(fn)
        fr.self_ty = self_ty
        for i, a in enumerate(fn.args):
            fr.locals[a] = Cell(args[i] if i < len(args) else None)
        st.frames.append(fr)
        self.stats['inlined'][fn.key] = self.stats['inlined'].get(fn.key, 0) + 1
        for s2, ret in self.exec_frame(st, depth):
            if s2.status == 'running':
                s2.frames.pop()
            yield s2, ret

    def exec_frame(self, st, depth):
        """run the frame at index `depth` of st.frames to completion; yields (state, retval) per path.
        Implemented with an explicit worklist (forks) so that Python recursion only happens across calls."""
        work = [st]
        while work:
            st = work.pop()
            if self.over_budget():
                st.status = 'timeout'; st.notes.append('TIMEOUT')
                yield st, None
                continue
            # run until return or fork
            for outcome in self.run_to_return(st, depth, work):
                yield outcome

    def run_to_return(self, st, depth, work):
        """generator: advances st; on switch forks push clones on `work`; calls may yield several
        continuation states (each continues independently via recursion on this generator)."""
        while True:
            fr = st.frames[depth]
            fn = fr.fn
            n = fr.visits.get(fr.bb, 0) + 1
            fr.visits[fr.bb] = n
            if n > self.loop_bound + 1:
                st.notes.append(f'LOOP_BOUND:{fn.key}:{fr.bb}')
                st.status = 'loop_bound'
                yield st, None
                return
            stmts, term = fn.blocks[fr.bb]
            try:
                for pl, rv in stmts:
                    val = self.rvalue(st, fr, rv, self.place_ty(fr, pl))
                    self.place_cell(st, fr, pl).val = val
            except ExecError as e:
                st.notes.append(f'EXEC_ERROR:{fn.key}:{fr.bb}:{e}')
                st.status = 'error'
                yield st, None
                return
            k = term[0]
            try:
                if k == 'return':
                    c = fr.locals.get('_0')
                    ret = c.val if c is not None and c.val is not None else (self.fresh(st, fn.ret, 'ret') if fn.ret != '()' else self.unit())
                    yield st, ret
                    return
                if k == 'goto':
                    fr.bb = term[1]; continue
                if k == 'unreachable':
                    st.status = 'unreachable'
                    return     # infeasible by construction: drop silently
                if k == 'resume':
                    st.status = 'unwind'
                    return
                if k == 'assert':
                    v = self.operand(st, fr, term[1])
                    cond = v if term[2] else z3.Not(v)
                    if z3.is_bool(cond):
                        c = z3.simplify(cond)
                        if z3.is_false(c) or not self.feasible(st.pc, c):
                            st.emit(Ev('PANIC', args={'msg': term[3]}, site=(fn.key, fr.bb))); st.status = 'panic'
                            yield st, None
                            return
                        if not z3.is_true(c):
                            if self.feasible(st.pc, z3.Not(c)):
                                s2, _ = st.clone()
                                s2.pc.append(z3.Not(c)); s2.emit(Ev('PANIC', args={'msg': term[3]}, site=(fn.key, fr.bb))); s2.status = 'panic'
                                yield s2, None
                            st.pc.append(c)
                    fr.bb = term[4]; continue
                if k == 'switch':
                    v = self.operand(st, fr, term[1])
                    if isinstance(v, EnumV):
                        v = bv(v.disc) if isinstance(v.disc, int) else v.disc
                    branches = []
                    negs = []
                    for kv, bb in term[2]:
                        if z3.is_bool(v):
                            cond = v if kv != 0 else z3.Not(v)
                        else:
                            cond = (v == z3.BitVecVal(kv, v.size()))
                        branches.append((cond, bb)); negs.append(z3.Not(cond))
                    if term[3]:
                        branches.append((z3.And(*negs) if negs else z3.BoolVal(True), term[3]))
                    live = []
                    for cond, bb in branches:
                        c = z3.simplify(cond)
                        if z3.is_false(c):
                            continue
                        tb = fn.blocks[bb]
                        if tb[1][0] == 'unreachable' and not tb[0]:
                            continue
                        if z3.is_true(c):
                            live = [(None, bb)]; break
                        if self.feasible(st.pc, c):
                            live.append((c, bb))
                    if not live:
                        st.status = 'infeasible'
                        return
                    if len(live) > 1:
                        self.stats['forks'] += len(live) - 1
                    for c, bb in live[1:]:
                        s2, _ = st.clone()
                        s2.pc.append(c); s2.frames[depth].bb = bb
                        work.append(s2)
                    c, bb = live[0]
                    if c is not None:
                        st.pc.append(c)
                    fr.bb = bb
                    continue
                if k == 'drop':
                    outs = list(self.drop_place(st, depth, term[1]))
                    if len(outs) == 1 and outs[0] is st:
                        st.frames[depth].bb = term[2]; continue
                    for s2 in outs:
                        if s2.status != 'running':
                            yield s2, None
                            continue
                        s2.frames[depth].bb = term[2]
                        if s2 is not st:
                            work.append(s2)
                    if st in outs and st.status == 'running':
                        continue
                    return
                if k == 'call':
                    dst, callee, argops, ret_bb = term[1], term[2], term[3], term[4]
                    args = [self.operand(st, fr, a) for a in argops]
                    dst_ty = self.place_ty(fr, dst) if dst else ''
                    conts = list(self.do_call(st, depth, callee, args, dst_ty, argops))
                    first = True
                    for s2, res in conts:
                        if s2.status != 'running':
                            yield s2, None
                            continue
                        if ret_bb is None:
                            s2.status = 'diverged'; s2.notes.append('DIVERGE:' + callee[:80])
                            yield s2, None
                            continue
                        f2 = s2.frames[depth]
                        if dst is not None:
                            if res is None:
                                res = self.fresh(s2, dst_ty, 'ret')
                            self.place_cell(s2, f2, dst).val = res
                        f2.bb = ret_bb
                        if s2 is st:
                            continue
                        work.append(s2)
                    if any(s2 is st and s2.status == 'running' and ret_bb is not None for s2, _ in conts):
                        continue
                    return
            except ExecError as e:
                st.notes.append(f'EXEC_ERROR:{fn.key}:{fr.bb}:{e}')
                st.status = 'error'
                yield st, None
                return
            raise ExecError(f'terminator {term}')

    # ---------- calls
    def do_call(self, st, depth, callee, args, dst_ty, argops=None):
        """generator of (state, result).  The caller's frame is st.frames[depth]."""
        fr = st.frames[depth]
        c0 = strip_turbofish(callee)
        if fr.self_ty and re.search(r'\bSelf\b', c0):
            c0 = re.sub(r'\bSelf\b', fr.self_ty, c0)
            callee = re.sub(r'\bSelf\b', fr.self_ty, callee)
        # 1. contract
        summ = self.contract.lookup(c0, callee)
        if summ is not None and self.contract.is_generic(c0) and not any(p.search(c0) for p in self.no_inline):
            fn_, sty_ = self.resolve(callee, fr)
            if fn_ is not None:
                yield from self.call_fn(st, fn_, args, sty_)
                return
        if summ is not None:
            self.stats['summarised'][c0] = self.stats['summarised'].get(c0, 0) + 1
            call = CallInfo(callee, c0, args, dst_ty, fr, depth, argops)
            r = summ(self, st, call)
            if r is not NotImplemented:
                if isinstance(r, list):
                    for item in r:
                        yield item
                elif hasattr(r, '__next__'):
                    yield from r
                else:
                    yield st, r
                return
        # 2. fjall's own function
        if not any(p.search(c0) for p in self.no_inline):
            fn, self_ty = self.resolve(callee, fr)
            if fn is not None:
                yield from self.call_fn(st, fn, args, self_ty)
                return
        # 3. havoc
        self.stats['havoc'][c0] = self.stats['havoc'].get(c0, 0) + 1
        ev = st.emit(Ev('CALL', args={'callee': c0, 'args': args}, site=(fr.fn.key, fr.bb)))
        res = self.fresh(st, dst_ty, 'hv')
        ev.res = res
        yield st, res

    def call_closure(self, st, clo, args):
        """call a closure Obj / fn item with explicit args (closure env passed by value or by ref as MIR expects)"""
        if isinstance(clo, Ref):
            inner = clo.cell.val
            if isinstance(inner, Obj) and inner.kind == 'closure':
                clo_obj = inner
            elif isinstance(inner, Ref):
                yield from self.call_closure(st, inner, args); return
            else:
                clo_obj = inner
        else:
            clo_obj = clo
        if isinstance(clo_obj, FnItem):
            depth = len(st.frames) - 1
            yield from self.do_call(st, depth, clo_obj.text, args, '')
            return
        if isinstance(clo_obj, Obj) and clo_obj.kind == 'closure':
            fn = self.prog.closures.get(clo_obj.data['loc'])
            if fn is None:
                st.notes.append('NO_CLOSURE_BODY:' + clo_obj.data['loc'])
                yield st, None
                return
            # first param is the env: by value, &env or &mut env
            envty = fn.locals[fn.args[0]]
            env = clo_obj if not envty.lstrip().startswith('&') else Ref(Cell(clo_obj))
            yield from self.call_fn(st, fn, [env] + list(args))
            return
        st.notes.append(f'HAVOC_CLOSURE:{clo_obj!r}')
        yield st, None

    # ---------- drops
    def is_droppy(self, ty):
        """does dropping a value of this type have an effect we model?"""
        b = base_name(ty)
        if b in self.droppy_cache:
            return self.droppy_cache[b]
        self.droppy_cache[b] = False
        r = False
        if b in ('MutexGuard', 'RwLockReadGuard', 'RwLockWriteGuard') or b in getattr(self, 'drop_events', ()):
            r = True
        elif (b, 'Drop', 'drop') in self.fn_index:
            r = True
        else:
            fts = self.src.struct_field_types(ty if '::' in ty else b)
            if fts:
                for ft in fts:
                    ft0 = re.sub(r'\b(Arc|Rc|Weak)<.*?>', '', ft)
                    for name in re.findall(r'[A-Z]\w+', ft0):
                        if name != b and self.is_droppy(name):
                            r = True
        self.droppy_cache[b] = r
        return r

    def drop_place(self, st, depth, pl):
        fr = st.frames[depth]
        ty = self.place_ty(fr, pl)
        generic_param = bool(re.fullmatch(r'[A-Z]\w?|impl .*', ty.strip()))
        if generic_param:
            # a value of a generic parameter type: its drop glue is that of the runtime value (closures passed as F)
            c = self.place_cell(st, fr, pl)
            if isinstance(c.val, Obj) and c.val.kind == 'closure':
                yield from self.drop_value(st, c.val, c.val.ty)
                return
            yield st
            return
        if not self.is_droppy(ty) and base_name(ty) not in ('Option', 'Result', 'Box', 'Vec') and not ty.strip().startswith('{closure'):
            yield st
            return
        c = self.place_cell(st, fr, pl)
        v = c.val
        if v is None:
            if not self.is_droppy(ty):
                yield st
                return
            v = self._materialise(st, fr, pl, c)
        if ty.strip().startswith('{closure') and not (isinstance(v, Obj) and v.kind == 'closure'):
            yield st
            return
        yield from self.drop_value(st, v, ty)

    def drop_value(self, st, v, ty):
        b = base_name(ty)
        if isinstance(v, EnumV):
            # Option<T>/Result<T,E> holding droppy payloads: drop the payload of the live variant
            ga = generic_args(ty)
            if b in ('Option', 'Result') and any(self.is_droppy(g) for g in ga):
                conts = []
                cases = [('Some', 1, ga[0])] if b == 'Option' else [('Ok', 0, ga[0]), ('Err', 1, ga[1] if len(ga) > 1 else '')]
                for var, d, pty in cases:
                    if not self.is_droppy(pty):
                        continue
                    o = v.payloads.get(var)
                    disc = v.disc
                    if isinstance(disc, int):
                        if disc == d and o is not None and 0 in o.fields:
                            yield from self.drop_value(st, o.fields[0].val, pty)
                            return
                        continue
                    # symbolic: fork
                    cond = disc == bv(d)
                    if self.feasible(st.pc, cond):
                        if self.feasible(st.pc, z3.Not(cond)):
                            s2, memo = st.clone()
                            s2.pc.append(cond)
                            v2 = memo.get(id(v))
                            o2 = v2.payloads.get(var) if v2 is not None else None
                            if o2 is not None and 0 in o2.fields:
                                yield from self.drop_value(s2, o2.fields[0].val, pty)
                            else:
                                yield s2
                            st.pc.append(z3.Not(cond))
                        else:
                            if o is not None and 0 in o.fields:
                                yield from self.drop_value(st, o.fields[0].val, pty)
                                return
                yield st
                return
            yield st
            return
        if not isinstance(v, Obj):
            yield st
            return
        if v.data.get('dropped'):
            yield st
            return
        if b in getattr(self, 'drop_events', ()):
            st.emit(Ev('DROP', obj=v, args={'ty': b}))
        if v.kind == 'closure':
            # drop glue of a closure: its by-value captures
            v.data['dropped'] = True
            cur = [st]
            for i in sorted(k for k in v.fields if isinstance(k, int)):
                nxt = []
                for s3 in cur:
                    v3 = v if s3 is st else self._find_obj(s3, v.uid)
                    cv = v3.fields[i].val if v3 is not None and i in v3.fields else None
                    if isinstance(cv, (Obj, EnumV)) and not isinstance(cv, Ref) and self.is_droppy(cv.ty):
                        nxt.extend(self.drop_value(s3, cv, cv.ty))
                    else:
                        nxt.append(s3)
                cur = nxt
            yield from cur
            return
        if b in ('MutexGuard', 'RwLockReadGuard', 'RwLockWriteGuard'):
            self.contract.drop_guard(self, st, v, b)
            v.data['dropped'] = True
            yield st
            return
        if b == 'Box':
            c = v.fields.get('*')
            ga = generic_args(ty)
            if c is not None and c.val is not None and ga and self.is_droppy(ga[0]):
                yield from self.drop_value(st, c.val, ga[0])
                return
            yield st
            return
        cands = self.fn_index.get((b, 'Drop', 'drop'), [])
        states = [st]
        if len(cands) == 1:
            v.data['dropped'] = True
            states = []
            for s2, _r in self.call_fn(st, cands[0], [Ref(Cell(v)) if True else v]):
                states.append(s2)
            # NB: after a fork inside Drop::drop, `v` in the clones is a copy; field drops below use per-state lookup
        fts = self.src.struct_field_types(v.ty if '::' in v.ty else b) or []
        droppy_fields = [(i, ft) for i, ft in enumerate(fts) if self.is_droppy(re.sub(r'\b(Arc|Rc|Weak)<.*?>', '', ft)) or
                         any(self.is_droppy(n) for n in re.findall(r'[A-Z]\w+', re.sub(r'\b(Arc|Rc|Weak)<.*?>', '', ft)))]
        if not droppy_fields:
            yield from states
            return
        for s2 in states:
            if s2.status != 'running':
                yield s2
                continue
            vv = v if s2 is st else self._find_obj(s2, v.uid)
            if vv is None:
                yield s2
                continue
            cur = [s2]
            for i, ft in droppy_fields:
                nxt = []
                for s3 in cur:
                    v3 = vv if s3 is s2 else self._find_obj(s3, v.uid)
                    if v3 is None:
                        nxt.append(s3); continue
                    c = v3.fields.get(i)
                    if c is None or c.val is None:
                        # never touched: materialise so that its drop is visible
                        c = Cell(self.fresh(s3, ft, f'{v3.name}.{self.field_name(v3.ty, i)}')); v3.fields[i] = c
                    nxt.extend(self.drop_value(s3, c.val, ft))
                cur = nxt
            yield from cur

    def _find_obj(self, st, uid):
        seen = set()

        def walk(v):
            if id(v) in seen:
                return None
            seen.add(id(v))
            if isinstance(v, Obj):
                if v.uid == uid:
                    return v
                for c in v.fields.values():
                    r = walk(c.val)
                    if r is not None:
                        return r
                for x in v.data.values():
                    r = walk(x)
                    if r is not None:
                        return r
            elif isinstance(v, Ref):
                return walk(v.cell.val)
            elif isinstance(v, EnumV):
                for o in v.payloads.values():
                    r = walk(o)
                    if r is not None:
                        return r
            elif isinstance(v, (list, tuple)):
                for x in v:
                    r = walk(x)
                    if r is not None:
                        return r
            elif isinstance(v, dict):
                for x in v.values():
                    r = walk(x)
                    if r is not None:
                        return r
            elif isinstance(v, Cell):
                return walk(v.val)
            return None
        for fr in st.frames:
            for c in fr.locals.values():
                r = walk(c.val)
                if r is not None:
                    return r
        for g in st.globals.values():
            r = walk(g)
            if r is not None:
                return r
        for e in st.events:
            r = walk(e.obj) or walk(list(e.args.values())) or walk(e.res)
            if r is not None:
                return r
        return None


class CallInfo:
    __slots__ = ('callee', 'c0', 'args', 'dst_ty', 'frame', 'depth', 'argops')

    def __init__(self, callee, c0, args, dst_ty, frame, depth, argops):
        self.callee = callee; self.c0 = c0; self.args = args; self.dst_ty = dst_ty; self.frame = frame
        self.depth = depth; self.argops = argops

    @property
    def site(self):
        return (self.frame.fn.key, self.frame.bb)


def deref(v):
    """follow Refs down to the pointee value"""
    while isinstance(v, Ref):
        v = v.cell.val
    return v
