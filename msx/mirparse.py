"""Parser for rustc's textual MIR (`-Zunpretty=mir`).

Produces, per function body, typed locals and basic blocks whose statements and
terminators are small tuples (an AST), so that the symbolic executor never has
to look at text again.

Place AST
    ('local', '_N')
    ('deref', place)
    ('field', place, idx:int, ty:str)
    ('downcast', place, variant:str)
    ('index', place, local)            P[_N]
    ('cindex', place, idx:int, from_end:bool)   P[N of M] / P[-N of M]
Operand AST
    ('copy'|'move', place)
    ('const', text, ty_or_None)
Rvalue AST
    ('use', operand)
    ('ref', mutable:bool, place) / ('rawptr', mutable, place)
    ('disc', place)
    ('binop', op, a, b) / ('unop', op, a)
    ('cast', kind, operand, ty)
    ('aggr_tuple', [operands])
    ('aggr_array', [operands]) / ('repeat', operand, count)
    ('aggr_adt', path, variant_or_None, [(fieldname_or_idx, operand)], brace:bool)
    ('closure', loc, [(name, operand)])
    ('ptrmeta', operand) / ('len', place)
    ('unknown', text)
Terminator AST
    ('goto', bb) ('return',) ('unreachable',) ('resume',)
    ('switch', operand, [(int, bb)], otherwise_bb_or_None)
    ('drop', place, bb)
    ('assert', operand, expected:bool, msg, bb)
    ('call', dst_place_or_None, callee:str, [operands], ret_bb_or_None)
"""
import re

SCALAR_TYS = {'bool': 1, 'u8': 8, 'u16': 16, 'u32': 32, 'u64': 64, 'usize': 64, 'u128': 128,
              'i8': 8, 'i16': 16, 'i32': 32, 'i64': 64, 'isize': 64, 'i128': 128, 'char': 32}

OPEN = '([{<'
CLOSE = ')]}'


def split_top(s, sep=','):
    """Split at top-level separators, aware of () [] {} <> nesting ('->' and '=>' are not closers)."""
    out, depth, cur, i, n = [], 0, [], 0, len(s)
    while i < n:
        c = s[i]
        if c in OPEN:
            depth += 1
        elif c in CLOSE:
            depth -= 1
        elif c == '>' and i > 0 and s[i - 1] not in '-=':
            depth -= 1
        elif c == '"':
            j = i + 1
            while j < n and s[j] != '"':
                j += 2 if s[j] == '\\' else 1
            cur.append(s[i:j + 1]); i = j + 1
            continue
        if c == sep and depth == 0:
            out.append(''.join(cur).strip()); cur = []
        else:
            cur.append(c)
        i += 1
    last = ''.join(cur).strip()
    if last:
        out.append(last)
    return out


def find_matching_open(s, close_idx):
    """index of the '(' matching the ')' at close_idx (only parentheses counted, strings skipped)."""
    depth, i = 0, close_idx
    while i >= 0:
        c = s[i]
        if c == ')':
            depth += 1
        elif c == '(':
            depth -= 1
            if depth == 0:
                return i
        i -= 1
    raise ValueError('unbalanced: ' + s)


# ------------------------------------------------------------------ places
def parse_place(s):
    s = s.strip()
    if re.fullmatch(r'_\d+', s):
        return ('local', s)
    # index suffix  P[_N] / P[3 of 4] / P[-1 of 4]
    if s.endswith(']') and not s.startswith('['):
        # find matching '['
        depth = 0
        for i in range(len(s) - 1, -1, -1):
            if s[i] == ']':
                depth += 1
            elif s[i] == '[':
                depth -= 1
                if depth == 0:
                    break
        base, idx = s[:i], s[i + 1:-1]
        m = re.fullmatch(r'(-?)(\d+) of \d+', idx)
        if m:
            return ('cindex', parse_place(base), int(m.group(2)), m.group(1) == '-')
        if re.fullmatch(r'_\d+', idx):
            return ('index', parse_place(base), idx)
        return ('subslice', parse_place(base), idx)
    if s.startswith('(*') and s.endswith(')') and _balanced(s[1:-1]):
        return ('deref', parse_place(s[2:-1]))
    if s.startswith('(') and s.endswith(')'):
        inner = s[1:-1]
        # (P as Variant)
        m = re.fullmatch(r'(.+) as (\w+)', inner)
        if m and _balanced(m.group(1)) and ':' not in _strip_nested(m.group(2)):
            # make sure this is a downcast and not a field projection with type containing ' as '
            if not re.search(r'\.\d+: ', _top_level_tail(inner)):
                return ('downcast', parse_place(m.group(1)), m.group(2))
        # (P.N: Ty)   -- find top-level '.N: ' from the left of the type; the place part is balanced
        pos = _find_field_split(inner)
        if pos is not None:
            base, idx, ty = pos
            return ('field', parse_place(base), idx, ty)
    raise ValueError('place? ' + s)


def _balanced(s):
    d = 0
    for c in s:
        if c in '(':
            d += 1
        elif c == ')':
            d -= 1
            if d < 0:
                return False
    return d == 0


def _strip_nested(s):
    return s


def _top_level_tail(s):
    """text after the last top-level ')' — used to disambiguate downcast vs field."""
    d = 0
    last = -1
    for i, c in enumerate(s):
        if c == '(':
            d += 1
        elif c == ')':
            d -= 1
            if d == 0:
                last = i
    return s[last + 1:] if last >= 0 else s


def _find_field_split(inner):
    """inner = 'BASE.N: TYPE' where BASE is a place (balanced parens or _N)."""
    if inner.startswith('('):
        d = 0
        for i, c in enumerate(inner):
            if c == '(':
                d += 1
            elif c == ')':
                d -= 1
                if d == 0:
                    break
        base, rest = inner[:i + 1], inner[i + 1:]
    else:
        m = re.match(r'(_\d+)', inner)
        if not m:
            return None
        base, rest = m.group(1), inner[m.end():]
    m = re.match(r'\.(\d+): (.*)$', rest, re.S)
    if not m:
        return None
    return base, int(m.group(1)), m.group(2)


# ------------------------------------------------------------------ operands
def parse_operand(s):
    s = s.strip()
    if s.startswith('no_retag '):
        s = s[9:]
    if s.startswith('copy '):
        return ('copy', parse_place(s[5:]))
    if s.startswith('move '):
        return ('move', parse_place(s[5:]))
    if s.startswith('const '):
        return ('const', s[6:].strip())
    if re.match(r'^[A-Za-z<]', s) and not s.startswith(('copy', 'move')):
        # zero-sized fn item passed as an argument (e.g. `map(Guard)`, `map_err(Into::into)`)
        return ('fnitem', s)
    raise ValueError('operand? ' + s)


BINOPS = {'Add', 'Sub', 'Mul', 'Div', 'Rem', 'Eq', 'Ne', 'Lt', 'Le', 'Gt', 'Ge', 'BitAnd', 'BitOr', 'BitXor',
          'Shl', 'Shr', 'Offset', 'AddWithOverflow', 'SubWithOverflow', 'MulWithOverflow', 'Cmp',
          'AddUnchecked', 'SubUnchecked', 'MulUnchecked', 'ShlUnchecked', 'ShrUnchecked'}
UNOPS = {'Not', 'Neg', 'PtrMetadata'}


def parse_rvalue(s):
    s = s.strip()
    if s.startswith(('copy ', 'move ', 'const ', 'no_retag ')):
        # cast?   "copy _5 as u64 (IntToInt)"
        m = re.fullmatch(r'(.+) as (.+?) \((\w+(?:\(.*\))?)\)', s, re.S)
        if m:
            try:
                return ('cast', m.group(3), parse_operand(m.group(1)), m.group(2))
            except ValueError:
                pass
        return ('use', parse_operand(s))
    s = s.replace('(fake) ', '')
    if s.startswith('&raw const '):
        return ('rawptr', False, parse_place(s[11:]))
    if s.startswith('&raw mut '):
        return ('rawptr', True, parse_place(s[9:]))
    if s.startswith('&mut '):
        return ('ref', True, parse_place(s[5:]))
    if s.startswith('&fake shallow '):
        return ('ref', False, parse_place(s[14:]))
    if s.startswith('&'):
        return ('ref', False, parse_place(s[1:]))
    m = re.fullmatch(r'discriminant\((.+)\)', s)
    if m:
        return ('disc', parse_place(m.group(1)))
    m = re.fullmatch(r'(\w+)\((.*)\)', s, re.S)
    if m and m.group(1) in BINOPS:
        a, b = split_top(m.group(2))
        return ('binop', m.group(1), parse_operand(a), parse_operand(b))
    if m and m.group(1) in UNOPS:
        if m.group(1) == 'PtrMetadata':
            return ('ptrmeta', parse_operand(m.group(2)))
        return ('unop', m.group(1), parse_operand(m.group(2)))
    if m and m.group(1) == 'Len':
        return ('len', parse_place(m.group(2)))
    # closure / coroutine aggregate
    m = re.fullmatch(r'\{closure@([^}]+)\}(?: \{(.*)\})?', s, re.S)
    if m:
        caps = []
        if m.group(2) and m.group(2).strip():
            for part in split_top(m.group(2)):
                n, o = part.split(': ', 1)
                caps.append((n.strip(), parse_operand(o)))
        return ('closure', m.group(1), caps)
    # array
    if s.startswith('[') and s.endswith(']'):
        inner = s[1:-1]
        parts = split_top(inner, ';')
        if len(parts) == 2:
            return ('repeat', parse_operand(parts[0]), parts[1])
        return ('aggr_array', [parse_operand(x) for x in split_top(inner)])
    # tuple
    if s.startswith('(') and s.endswith(')') and _balanced(s[1:-1]):
        inner = s[1:-1].strip()
        if inner == '':
            return ('aggr_tuple', [])
        parts = split_top(inner)
        try:
            return ('aggr_tuple', [parse_operand(x) for x in parts])
        except ValueError:
            pass
    # struct-like aggregate:  Path { a: op, b: op }   /  Path::Variant { .. }
    m = re.fullmatch(r'(.+?) \{ (.*) \}', s, re.S)
    if m and not m.group(1).startswith('{'):
        fields = []
        ok = True
        for part in split_top(m.group(2)):
            if ': ' not in part:
                ok = False; break
            n, o = part.split(': ', 1)
            try:
                fields.append((n.strip(), parse_operand(o)))
            except ValueError:
                ok = False; break
        if ok:
            return ('aggr_adt', m.group(1), fields, True)
    # tuple-like:  Path::Variant(op, op)   /  Path(op)
    if s.endswith(')'):
        try:
            oi = find_matching_open(s, len(s) - 1)
            head, inner = s[:oi], s[oi + 1:-1]
            if head and re.search(r'[\w>]$', head):
                ops = [parse_operand(x) for x in split_top(inner)]
                return ('aggr_adt', head, [(i, o) for i, o in enumerate(ops)], False)
        except ValueError:
            pass
    # unit-like:  Path::Variant
    if re.fullmatch(r'[\w:<>\', &\[\]\(\)\*;+=-]+', s):
        return ('aggr_adt', s, [], False)
    return ('unknown', s)


# ------------------------------------------------------------------ terminators
def parse_call_text(t):
    """'DST = CALLEE(ARGS) -> [return: bbN, unwind ...];' or without DST / diverging."""
    m = re.match(r'^(.*\)) -> (?:\[return: (bb\d+)(?:, unwind[^\]]*)?\]|unwind [\w ()]+|(bb\d+));$', t, re.S)
    if not m:
        return None
    body, ret_bb = m.group(1), m.group(2) or m.group(3)
    oi = find_matching_open(body, len(body) - 1)
    argstr, head = body[oi + 1:-1], body[:oi]
    dst = None
    dm = re.match(r'^(_\d+|\(.+?\)) = (.+)$', head, re.S)
    callee = head
    if dm:
        try:
            dst = parse_place(dm.group(1)); callee = dm.group(2)
        except ValueError:
            dst = None; callee = head
    args = [parse_operand(a) for a in split_top(argstr)] if argstr.strip() else []
    return ('call', dst, callee.strip(), args, ret_bb)


def parse_terminator(t):
    t = t.strip()
    if t == 'return;':
        return ('return',)
    if t.startswith('goto -> '):
        return ('goto', t[8:-1])
    if t.startswith('unreachable'):
        return ('unreachable',)
    if t.startswith('resume') or t.startswith('terminate') or t.startswith('abort'):
        return ('resume',)
    m = re.match(r'^switchInt\((.+)\) -> \[(.+)\];$', t, re.S)
    if m:
        cases, other = [], None
        for tg in split_top(m.group(2)):
            k, bb = tg.split(': ')
            if k == 'otherwise':
                other = bb
            else:
                cases.append((int(k), bb))
        return ('switch', parse_operand(m.group(1)), cases, other)
    m = re.match(r'^drop\((.+)\) -> \[return: (bb\d+)(?:, unwind[^\]]*)?\];$', t, re.S)
    if m:
        return ('drop', parse_place(m.group(1)), m.group(2))
    m = re.match(r'^assert\((!?)(.+?), "(.*)".*\) -> \[success: (bb\d+)(?:, unwind[^\]]*)?\];$', t, re.S)
    if m:
        return ('assert', parse_operand(m.group(2)), m.group(1) != '!', m.group(3), m.group(4))
    m = re.match(r'^falseEdge -> \[real: (bb\d+).*\];$', t)
    if m:
        return ('goto', m.group(1))
    m = re.match(r'^falseUnwind -> \[real: (bb\d+).*\];$', t)
    if m:
        return ('goto', m.group(1))
    c = parse_call_text(t)
    if c:
        return c
    raise ValueError('terminator? ' + t)


# ------------------------------------------------------------------ functions
class Fn:
    __slots__ = ('name', 'key', 'args', 'ret', 'locals', 'blocks', 'debug', 'src', 'nlines')

    def __init__(self, name):
        self.name = name
        self.args = []
        self.locals = {}
        self.blocks = {}
        self.debug = {}   # local -> source-level name

    def __repr__(self):
        return f'<Fn {self.name}>'


def norm_name(n):
    """strip source positions out of impl paths:  keyspace::<impl at src/..:189:1: 189:14>::insert → keyspace::<impl>::insert"""
    n = re.sub(r'<impl at [^>]*>', '<impl>', n)
    return n


def parse_fn(text):
    head_end = text.index('{\n')
    head = text[:head_end].strip()
    m = re.match(r'^fn (.+?)\((.*)\) -> (.+)$', head, re.S)
    if not m:
        # e.g.  "fn foo(_1: T) -> U" always has '->' in MIR dumps; constants/statics are skipped by caller
        raise ValueError('fn head? ' + head[:100])
    # the name may itself contain '(' (closure types in generics) — take the shortest name such that the arg
    # list parses: the arg list is the last balanced (...) before ' -> '
    arrow = head.rindex(') -> ')
    oi = find_matching_open(head, arrow)
    name = head[3:oi]
    argstr = head[oi + 1:arrow]
    f = Fn(name)
    f.ret = head[arrow + 5:].strip()
    for part in split_top(argstr):
        if ': ' in part:
            n, t = part.split(': ', 1)
            n = n.strip()
            if n.startswith('mut '):
                n = n[4:]
            f.args.append(n); f.locals[n] = t.strip()
    body = text[head_end + 2:]
    for lm in re.finditer(r'^\s+let (?:mut )?(_\d+): (.+);$', body, re.M):
        f.locals[lm.group(1)] = lm.group(2)
    for dm in re.finditer(r'^\s+debug (\w+) => (_\d+);$', body, re.M):
        f.debug[dm.group(2)] = dm.group(1)
    for bm in re.finditer(r'^    (bb\d+)(?: \(cleanup\))?: \{\n(.*?)^    \}', body, re.M | re.S):
        raw = bm.group(2)
        # statements can span lines only for long string constants; join continuation lines
        lines = []
        for l in raw.split('\n'):
            if not l.strip():
                continue
            if l.startswith('        ') and not l.startswith('         '):
                lines.append(l.strip())
            else:
                if lines:
                    lines[-1] += '\n' + l
                else:
                    lines.append(l.strip())
        stmts = []
        for s in lines[:-1]:
            if s.startswith(('StorageLive', 'StorageDead', 'nop', 'ConstEvalCounter', 'PlaceMention', 'FakeRead',
                             'AscribeUserType', 'Retag', 'Coverage', 'BackwardIncompatibleDropHint')):
                continue
            mm = re.match(r'^(.+?) = (.+);$', s, re.S)
            if not mm:
                if s.startswith('Deinit') or s.startswith('SetDiscriminant') or s.startswith('Assume') or s.startswith('assume'):
                    continue
                raise ValueError('stmt? ' + s)
            stmts.append((parse_place(mm.group(1)), parse_rvalue(mm.group(2))))
        f.blocks[bm.group(1)] = (stmts, parse_terminator(lines[-1]))
    return f


def split_const_bodies(mir):
    """yield (name, type, text_or_value) for `const NAME: TY = { body }` / `const NAME: TY = const V;` items"""
    for m in re.finditer(r'^const (.+) = (\{\n|const .*;$)', mir, re.M):
        head, rest = m.group(1), m.group(2)
        # split NAME: TY at the first top-level ': ' (impl paths contain ': ' inside <...>)
        depth, cut = 0, -1
        for i, c in enumerate(head):
            if c == '<':
                depth += 1
            elif c == '>' and i and head[i - 1] != '-':
                depth -= 1
            elif depth == 0 and head.startswith(': ', i):
                cut = i; break
        if cut < 0:
            continue
        name, ty = head[:cut], head[cut + 2:]
        if rest.startswith('const '):
            yield name, ty, ('value', rest[6:-1].strip())
        else:
            end = mir.find('\n}\n', m.end())
            if end < 0:
                continue
            yield name, ty, ('body', mir[m.end() - 2:end + 3])


def parse_const_body(name, ty, body_text):
    """a const body is a function without arguments returning `ty`"""
    fake = f'fn {name}() -> {ty} ' + body_text
    return parse_fn(fake)


def split_bodies(mir):
    """yield the text of every `fn` body (promoted[...] bodies and statics are dropped)."""
    heads = [m.start() for m in re.finditer(r'^(?:fn |const |static |promoted\[|// MIR FOR CTFE)', mir, re.M)]
    heads.append(len(mir))
    for i in range(len(heads) - 1):
        t = mir[heads[i]:heads[i + 1]]
        if not t.startswith('fn '):
            continue
        end = t.find('\n}\n')
        if end < 0:
            continue
        yield t[:end + 3]


class Program:
    def __init__(self, mir):
        self.fns = {}        # full name -> Fn
        self.by_norm = {}    # normalised name -> [Fn]
        self.closures = {}   # closure location string -> Fn
        self.errors = []
        self.const_bodies = {}   # name -> Fn (no args)
        self.const_values = {}   # name -> text
        for name, ty, (kind, payload) in split_const_bodies(mir):
            if kind == 'value':
                self.const_values[name] = payload
            else:
                try:
                    f = parse_const_body(name, ty, payload)
                    f.key = norm_name(f.name)
                    self.const_bodies[name] = f
                except Exception as e:
                    self.errors.append((name[:100], 'const: ' + repr(e)))
        import hashlib
        self.hashes = {}
        for t in split_bodies(mir):
            try:
                f = parse_fn(t)
            except Exception as e:  # record, keep going: an unparsable body is simply not executable
                self.errors.append((t[:120].split('\n')[0], repr(e)))
                continue
            f.key = norm_name(f.name)
            f.nlines = t.count('\n')
            self.fns[f.name] = f
            self.by_norm.setdefault(f.key, []).append(f)
            self.hashes[f.name] = hashlib.sha256(re.sub(r'src/[\w/]+\.rs:\d+:\d+: \d+:\d+', 'LOC', t).encode()).hexdigest()[:12]
            if f.args and f.locals[f.args[0]].lstrip('&mut ').lstrip('&').startswith('{closure@'):
                cm = re.search(r'\{closure@([^}]+)\}', f.locals[f.args[0]])
                if cm and '{closure#' in f.name.rsplit('::', 1)[-1]:
                    self.closures[cm.group(1)] = f

    def find(self, pattern):
        """unique function whose normalised name matches regex `pattern`."""
        c = [f for f in self.fns.values() if re.search(pattern, f.key)]
        if len(c) != 1:
            raise KeyError(f'{pattern}: {len(c)} matches: {[f.key for f in c][:8]}')
        return c[0]

    def find_all(self, pattern):
        return [f for f in self.fns.values() if re.search(pattern, f.key)]


if __name__ == '__main__':
    import sys, time
    from . import mirdump
    t0 = time.time()
    mir, info = mirdump.get_mir()
    p = Program(mir)
    print(len(p.fns), 'fns parsed in', round(time.time() - t0, 1), 's;', len(p.errors), 'errors;', len(p.closures), 'closures')
    for e in p.errors[:20]:
        print('  ERR', e)
    import collections
    unk = collections.Counter()
    for f in p.fns.values():
        for stmts, term in f.blocks.values():
            for pl, rv in stmts:
                if rv[0] == 'unknown':
                    unk[rv[1][:80]] += 1
    print(len(unk), 'unknown rvalues')
    for k, v in unk.most_common(30):
        print('  ', v, k)
