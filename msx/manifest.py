"""writes /verif/MANIFEST.json from the table below (kept in one place so it is always valid and current)"""
import json, os, subprocess

VERIF = os.path.dirname(os.path.dirname(os.path.abspath(__file__)))

CHECKS = {
    'C13': dict(
        category='model_checking',
        text='Symbolic execution of the MIR of every writer (insert/remove/remove_weak/clear/WriteBatch::commit, Database::persist, '
             'worker loop) with one Bool fault variable per journal write/flush/sync; z3 decides for all paths and fault positions '
             'that a fault implies Err + poison, and that the poison flag gates every effect under the journal lock. Bounded: batch '
             '<= 2 (quick) / 3 (thorough) items. Counterexamples are replayed natively with a fault injector before being reported.',
        design_ref='DESIGN.md §5 C13',
        note='Trusted: environment contract F1-F3/E1 (std BufWriter/File/Mutex, lsm-tree insert/remove/clear as stubs), MIR dump of the '
             'nightly toolchain, z3. Outside: failures inside lsm-tree, more than one fault per call, memory-model effects.',
        technique='MIR symbolic execution + z3 validity queries over fault variables; native fault-injection replay',
    ),
}

NOT_YET = {}

ALL = [f'C{i:02d}' for i in range(1, 19)]


def hook_commits():
    try:
        out = subprocess.check_output(['git', '-C', '/repo', 'log', '--format=%H %s'], text=True)
        return [l.split()[0] for l in out.split('\n') if l and ('verif hook' in l)]
    except Exception:
        return []


def build():
    checks = []
    for pid in ALL:
        c = CHECKS.get(pid)
        if not c:
            continue
        checks.append({
            'property_id': pid,
            'quick_cmd': f'./check {pid} --tier quick',
            'thorough_cmd': f'./check {pid} --tier thorough',
            'evidence_file': f'/verif/evidence/{pid}.json',
            'replay_cmd_template': f'./check {pid} --replay {{path}}',
            'engine': c.get('engine', 'msx (MIR symbolic executor + z3)'),
            'level_claimed': {'category': c['category'], 'text': c['text'], 'design_ref': c['design_ref']},
            'level_note': c['note'],
            'technique': c['technique'],
        })
    na = [{'property_id': p, 'reason': NOT_YET.get(p, 'check under construction in this session (see DESIGN.md §5); not claimed yet')}
          for p in ALL if p not in CHECKS]
    m = {
        'version': 1,
        'setup_cmd': './setup.sh',
        'hooks': {
            'guard': 'cfg(fjall_verif)',
            'enable': 'RUSTFLAGS="--cfg fjall_verif" (native replay driver /verif/replay built against /repo); Kani harnesses use cfg(kani)',
            'baseline_off_cmd': 'cd /repo && cargo nextest run --workspace --no-fail-fast --tool-config-file pb:/w/lib/nextest.toml --profile pb --test-threads 8 --offline || cargo test --workspace --no-fail-fast --offline',
            'source_commits': hook_commits(),
            'add_only': True,
        },
        'engines': [
            {'name': 'msx', 'path': '/verif/msx', 'serves_properties': sorted(CHECKS),
             'kind_free_text': 'symbolic executor for rustc MIR (regenerated from /repo on every run) with an environment contract; z3 decides obligations; bounded composition models in z3'},
            {'name': 'replay', 'path': '/verif/replay', 'serves_properties': sorted(CHECKS),
             'kind_free_text': 'native scenario interpreter over the real crate (cfg fjall_verif hooks) used to confirm every solver counterexample'},
        ],
        'checks': checks,
        'not_applicable': na,
        'notes': 'Every VIOLATION is a solver counterexample that reproduced natively. KNOWN-FINDING lines come from /verif/known_findings.json.',
    }
    with open(os.path.join(VERIF, 'MANIFEST.json'), 'w') as fh:
        json.dump(m, fh, indent=1)
    return m


if __name__ == '__main__':
    m = build()
    print(len(m['checks']), 'checks;', len(m['not_applicable']), 'not applicable')
