"""writes /verif/MANIFEST.json from the table below (kept in one place so it is always valid and current)"""
import json, os, subprocess

VERIF = os.path.dirname(os.path.dirname(os.path.abspath(__file__)))

CHECKS = {
    'C02': dict(
        category='model_checking',
        text='MIR symbolic execution of every writer (insert / remove / remove_weak / clear / WriteBatch::commit): z3 decides on every acknowledged path that the complete journal unit is appended and - unless manual persist - '
             'flushed to the OS before the first memtable apply and before Ok, all under one hold of the journal lock, and that the unit carries the seqno, keyspace id, kind, key and value of the call; that batches and transactions '
             'are created with durability Some(Buffer) by default; of recover_journals over a symbolic directory (3 entries, symbolic ids, symbolic *.jnl flags; the sort is modelled by one continuation per feasible order): '
             'active = highest id, sealed = the rest ascending; of Database::recover (keyspaces, then sealed journals in that order, then the active journal) and Writer::rotate (new journal = old id + 1). '
             'The torn-tail obligation of C03 (every cut offset of one journal shape) and the evict rule of C10 are decided here as well; the per-record replay rule and the counters are decided in C04 / C11. Counterexamples are replayed natively: 37+ process-crash images (directory copied while the process lives) over workloads '
             'with single writes, batches, clears, keyspace creation/deletion, rotation, flush, compaction, journal rotation and eviction; each image must reopen and equal the acknowledged state. Added: recovery must not panic on a well-formed journal; a batch of two items over two keyspaces is replayed item by item (a verdict for one item does not decide the other); the directory listing may be ordered by file name only if that equals the id order (file-name order modelled); replays with 12 live journal files and with a half-flushed batch.',
        design_ref='DESIGN.md §5 C02',
        note='Trusted: F1/F2 (BufWriter::flush hands bytes to the OS in order; a process crash keeps them), E1. Outside: a crash in the middle of a system call issued inside lsm-tree (table/manifest writes), '
             'thread schedules finer than lock events, > 3 journal files in the directory scan.',
        technique='MIR symbolic execution + z3 (event-order and dataflow validity queries, symbolic sort); native process-crash image replay',
    ),
    'C13': dict(
        category='model_checking',
        text='Symbolic execution of the MIR of every writer (insert/remove/remove_weak/clear/WriteBatch::commit, Database::persist, '
             'worker loop) with one Bool fault variable per journal write/flush/sync; z3 decides for all paths and fault positions '
             'that a fault implies Err + poison, and that the poison flag gates every effect under the journal lock. Bounded: batch '
             '<= 2 (quick) / 3 (thorough) items. Counterexamples are replayed natively with a fault injector before being reported. Added: worker_tick hands every journal failure (rotation, position query, maintenance, flush, compaction) on to the worker loop.',
        design_ref='DESIGN.md §5 C13',
        note='Trusted: environment contract F1-F3/E1 (std BufWriter/File/Mutex, lsm-tree insert/remove/clear as stubs), MIR dump of the '
             'nightly toolchain, z3. Outside: failures inside lsm-tree, more than one fault per call, memory-model effects.',
        technique='MIR symbolic execution + z3 validity queries over fault variables; native fault-injection replay',
    ),
    'C05': dict(
        category='model_checking',
        text='MIR symbolic execution of every read method of Snapshot / BaseTransaction / both write transactions and of Keyspace::{iter,range,prefix}: '
             'z3 decides that each tree read uses exactly the view\'s instant and that returned iterators own a registered nonce; every path of every '
             'view-consuming function closes its tracker registration exactly once; each SnapshotTracker operation is one inductive step from an arbitrary '
             'state satisfying the tracker invariant (3 DashMap slots, 2 ghost holders, 64-bit instants); a batch becomes visible in one step (obligation shared with C06). Counterexamples are replayed natively '
             '(frozen-view oracle, open-snapshot counts, GC + flush + major compaction battery). Added: the counter-wiring obligations (the snapshot tracker must own the visible-seqno counter, not the allocation counter) with a replay of a snapshot taken while a batch is between its applies after a reopen.',
        design_ref='DESIGN.md §5 C05',
        note='Trusted: contract E2/E3/E5 for lsm-tree (reads at an instant, GC watermark rule, SuperVersion retention), F3/F4 (locks, DashMap as a bounded map). '
             'Outside: thread schedules below event granularity, lsm-tree iterator internals, more than 3 distinct open instants.',
        technique='MIR symbolic execution + z3 (dataflow validity queries, inductive invariant steps); native replay',
    ),
    'C07': dict(
        category='model_checking',
        text='MIR symbolic execution of every read/write method of the optimistic write transaction (z3: the recorded read covers what was read, under the right '
             'keyspace id; every write records its conflict key), of ConflictManager::has_conflict against its set-theoretic specification for symbolic reads of every '
             'shape and bound kind (<= 2 reads x <= 2 keys, abstract key order), and of Oracle::with_commit (validation range ts > instant, no effect on conflict, '
             'registration after apply under one mutex, pruning vs GC watermark), and of the single-operation helpers of OptimisticTxKeyspace (they commit through the oracle, never write to the inner keyspace directly). Counterexamples are replayed natively as SSI histories incl. helper histories. Added: has_conflict over two keyspace entries per table with symbolic ids; the oracle mutex is held continuously from validation to registration (replay: first committer parked inside its apply, second commits meanwhile).',
        design_ref='DESIGN.md §5 C07',
        note='Trusted: contract for BTreeMap/BTreeSet (incl. the range panic rule), lsm-tree reads, Mutex. Outside: histories longer than the bounded shapes, '
             'schedules finer than the oracle mutex, lsm-tree prefix_to_range.',
        technique='MIR symbolic execution + z3 equivalence with a reference specification; native SSI replay',
    ),
    'C01': dict(
        category='model_checking',
        text='MIR symbolic execution of every write (insert/remove/remove_weak/clear/batch commit) and read entry point of a keyspace, of Iter/Guard and of the '
             'maintenance workers; z3 decides on all paths that the caller\'s key/value/kind reach this handle\'s tree exactly once with the one seqno drawn, that the '
             'write is published before the call returns, that reads pass the key unchanged at SeqNo::MAX and forward to the same-named tree method, and that maintenance '
             'hands the tree the tracker\'s GC watermark; batch items that can belong to one keyspace are applied in the order given (symbolic sort model for reorderings); a bulk ingestion holds the journal lock across the tree ingestion. lsm-tree itself is covered by contract E1-E8 only. Counterexamples are replayed natively against a sorted reference map. Added after the second seeding round: the counter-wiring obligations (every tree - new, recovered, meta - is configured with the database\'s seqno counter and the snapshot tracker\'s visible-seqno counter, in that order; identity of the shared cells on the object graph) and reference-map programs that clear / ingest / flush right after a reopen and that remove an overwritten, flushed key through a batch.',
        design_ref='DESIGN.md §5 C01',
        note='Trusted: lsm-tree implements an MVCC ordered map (E1-E8), conversions preserve byte identity. Outside: lsm-tree internals (tables, merge, blob separation), '
             'key/value sizes, configurations other than through the contract, concurrency (C14).',
        technique='MIR symbolic execution + z3 dataflow validity queries; native reference-model replay',
    ),
    'C06': dict(
        category='model_checking',
        text='MIR symbolic execution of WriteBatch::commit (single seqno, publish after the last apply and before unlock), call-site scan of every function that raises the '
             'visible seqno, dataflow of the counters handed to lsm-tree, and a z3 model with a symbolic schedule over the step order extracted from commit: committer ‖ snapshot reader '
             '(must be unsat) and committer ‖ reader ‖ one lsm-tree version change per contract E5 (sat: known finding, replayed natively with a pause between the per-item applies). Added: the batch\'s seqno is drawn inside the journal critical section (C14\'s obligation); the counter-wiring obligations.',
        design_ref='DESIGN.md §5 C06',
        note='Trusted: E2/E5 for lsm-tree, event-granularity atomicity (E10). Outside: batches of more than 3 items, more than one version change, memory-model effects.',
        technique='MIR symbolic execution + z3 bounded schedule model; native two-thread replay through pause hooks',
    ),
    'C14': dict(
        category='model_checking',
        text='MIR symbolic execution of every writer: z3/path analysis shows seqno draw, journal appends, tree apply and publish inside one critical section of the journal mutex; '
             'rotation protocol and ingestion locking; a z3 model with a symbolic schedule of two writers (steps extracted from insert) and a reader proves every interleaving linearizable '
             '(with a vacuity twin without the mutex that must be satisfiable). Liveness of write stalls is not applicable; its safety part is decided: no writer enters the stall / maintenance code while holding the journal lock. Added: the held->acquired relation over all locks taken by writers, worker tick, keyspace create/delete, persist, ingestion, rotation and drop is acyclic (deadlock replay); a Compact request is run, not re-queued, when the pool has one worker (replay with one real worker thread).',
        design_ref='DESIGN.md §5 C14',
        note='Trusted: Mutex mutual exclusion, sequential consistency at event granularity, lsm-tree memtable linearizability (E10). Outside: liveness, more than 2 writers + 1 reader, hardware memory ordering.',
        technique='MIR symbolic execution + z3 bounded schedule model; native two-thread replay',
    ),
    'C16': dict(
        category='model_checking',
        text='MIR symbolic execution of all six policy codecs (encode then decode over symbolic entries, read/write widths and kinds matched segment by segment), of '
             'CreateOptions::encode_kvs followed by from_kvs over a symbolic key-value store keyed by the option-name constants (every settable field must come back, kv-separation '
             'present and absent), of Database::keyspace on an existing name (create_options never evaluated), of apply_to_base_config (field -> same-named tree setter), and of the create path being atomic under the dictionary lock (shared with C12). '
             'Counterexamples are replayed natively: create with non-default options, reopen passing other options, compare the options in force. Added: the replay compares the tree\'s own configuration with the keyspace\'s, at creation and after reopen; deterministic create race.',
        design_ref='DESIGN.md §5 C16',
        note='Trusted: lsm-tree policy types are vectors; strategy get_name/get_config return constructor parameters (contract, exercised natively). Outside: policy vectors longer than 3, '
             'bit-level f32 formatting (compared bitwise), behaviour that depends on an option.',
        technique='MIR symbolic execution with symbolic byte-segment buffers + z3 equality queries; native reopen replay',
    ),
    'C17': dict(
        category='model_checking',
        text='MIR symbolic execution of FormatVersion::parse_file_header over every byte string of length 0..6 (bytes symbolic, z3 decides Some(v) iff "FJL"+v, v in 1..=3), '
             'of check_version (accepts exactly V3), of Database::recover and create_new (ordering of version check, directory lock, journal recovery/creation, marker write+sync, '
             'directory fsyncs; a refused open performs no mutating call), of the lock-guard sharing in keyspace handles, and of the Drop impls (wait for the thread counter without a blocking send into the bounded worker queue, '
             'clear cyclic holders after the workers stopped, journal sync). Counterexamples are replayed natively: marker contents from the model (with and without a lock file), second open while handles live, '
             'directory fingerprint, drop on another thread while a worker is parked inside a memtable rotation. Added: queue model F7 (flume): the wait loop of drop admits a worker that is blocked sending into the full worker queue (found and repaired: d17a866); a closing worker drops its state before it counts itself down (found and repaired: 03163db); the first journal file is created exclusively; replays: drop with a blocked worker, drop with a worker parked after its count-down, drop with a queued sealed journal, directory without version marker.',
        design_ref='DESIGN.md §5 C17',
        note='Not applicable (assumed, F2/F3): that the OS file lock really excludes another process/handle and that joined threads have stopped. Marker longer than 6 bytes behaves like its prefix.',
        technique='MIR symbolic execution over symbolic byte arrays + z3; event-order obligations; native replay',
    ),
    'C18': dict(
        category='model_checking',
        text='MIR symbolic execution (the assigner and factories are uninterpreted callables, handle identity through Arc clones): Database::keyspace and recover_keyspaces '
             'install exactly assigner(this keyspace\'s name); the builder stores the assigner; from_kvs never yields a factory; apply_to_base_config forwards the factory to the tree; recovery (active and sealed journal loops over a symbolic recovered state) never re-applies a record whose seqno is covered by the keyspace\'s tables (a filter rewrites an item under its seqno), plus the ghost flushed-mark obligation behind the known finding. '
             'Counterexamples are replayed natively with a key-deterministic filter assigned to one of two keyspaces, before and after reopen. Added: the filter battery also runs with key-value separated keyspaces.',
        design_ref='DESIGN.md §5 C18',
        note='Not applicable to this technique (clause): verdict semantics - kept items untouched, removed/replaced items stay so - are decided inside lsm-tree\'s compaction stream '
             '(contract E5); they are exercised by the native battery only.',
        technique='MIR symbolic execution (dataflow / handle identity) + z3 path feasibility; native filter battery',
    ),
    'C09': dict(
        category='model_checking',
        text='MIR symbolic execution of the journal writer (persist for each mode from an arbitrary dirty-flag state, dirty-flag invariant of every appending method, rotate ordering), '
             'of Database::persist, batch durability and the automatic persist of the single-operation writers; a z3 cursor model (appended >= OS-visible >= durable) composes the '
             'extracted persist paths into every program of <= 4 steps over {write, persist(mode)} and proves that a write acknowledged before an Ok sync-level persist is durable. '
             'Translator validation: the real journal I/O trace of every writer (trace hook) must equal the journal-event projection of a symbolic path. Counterexamples are replayed natively: power-loss images are built from an strace log of the real run (bytes written before the last fsync/fdatasync of each journal), for workloads with single writes, batches with their own durability, clears and forced journal rotation. Added: persist of both transactional wrappers forwards mode and result; a transaction\'s durability reaches the batch it commits (power-loss replay of transactions with explicit durability on both databases); the torn-tail obligation of C03 (data persisted after a repair must not be cut away by the next recovery). The durable-length hook no longer flushes the journal buffer (it had hidden missing dirty flags in native replays).',
        design_ref='DESIGN.md §5 C09',
        note='Trusted: F1/F2 (BufWriter/flush/fsync contract). Outside: what fsync does on the device, durability of lsm-tree table files, directory-entry durability beyond the order of fsync_directory calls.',
        technique='MIR symbolic execution + z3 bounded cursor model; native power-loss replay from strace',
    ),
    'C03': dict(
        category='model_checking',
        text='Writer and reader are both executed from MIR at byte level: Writer::write_raw/write_batch/write_clear produce the journal image (keys/values of concrete length, '
             'symbolic content, checksum = uninterpreted collision-free function of the item bytes); JournalBatchReader::next -> JournalReader::next -> Entry::decode_from run over '
             'that image for EVERY end offset and both tails (EOF / pre-allocated zeros). z3 decides that exactly the complete units are emitted with identical contents, no error, '
             'truncation to the last complete unit, and that a unit appended after the repair is read back. Plus framing of each unit, one-batch-per-transaction, and the batch being applied and published under one hold of the journal lock (no rotation can land inside it). '
             'Counterexamples are replayed natively by cutting a real journal at the byte offset. Added: the cut obligation also runs on the dev-profile MIR (debug assertions compiled in: an assertion on bytes of a torn record must not fire - this found the debug_assert repaired in b3b3307); two-item-batch replay rule of C04; replay of a batch of which only one keyspace was flushed before the crash.',
        design_ref='DESIGN.md §5 C03',
        note='Trusted: F5 (xxh3 as collision-free uninterpreted function), Read/Seek/set_len contract of BufReader<File>. Outside: > 3 units x 2 items, keys > 2 / values > 2 bytes, '
             'journal compression on, non-zero garbage after a torn record.',
        technique='MIR symbolic execution of writer and reader over a byte-level symbolic file + z3 (UF checksum); native cut-image replay',
    ),
    'C15': dict(
        category='model_checking',
        text='Byte-level MIR execution of the journal writer and reader (as for C03): every unit shape (all value kinds, clear, batches) written by the real writer is read back with '
             'identical seqno / keyspace ids / kinds / keys / values; for EVERY byte position of a journal of complete units and EVERY other value of that byte, z3 decides that opening '
             'fails or yields an identical prefix (checksum modelled as collision-free); the writer\'s compression choice depends only on threshold and length and the reader only on the stored tag. '
             'The solver finds the bytes outside the checksum (Start.seqno): known finding, replayed natively by flipping the byte in a real journal. '
             'Thorough tier adds five Kani/CBMC proof harnesses over the compiled entry codec (marker round trips, trailer damage, item round trip with key/value <= 2 bytes, arbitrary marker bytes). Added: a Start marker is accepted for every item count (replay: batch of 70 000 items); both recovery loops propagate a reader error (replay: altered byte in a sealed journal).',
        design_ref='DESIGN.md §5 C15',
        note='fjall\'s own logic around LZ4 (what is stored under the Lz4 tag vs. what the reader decompresses, for every value length and compressed length) IS decided (compression/lz4-coherent; '
             'native replay builds a value whose LZ4 image is exactly as long as the value). Not applicable (clause): bit-exactness of the lz4_flex codec itself (whole-buffer loops; assumed F6). '
             'Outside: keys > 2 / values > 2 bytes, more than one altered byte, checksum collisions (F5).',
        technique='MIR symbolic execution of writer and reader over a byte-level symbolic file + z3; native byte-flip replay',
    ),
    'C04': dict(
        category='model_checking',
        text='The MIR of Database::recover (active journal) and of recover_sealed_memtables (sealed journals) is executed over a symbolic recovered state: 2 keyspaces with symbolic ids and persisted seqnos, '
             'a journal of <= 2 batches with symbolic seqnos, keyspace ids and value kinds. z3 decides on every successful path that the tree writes are exactly - in journal order, with unchanged key, value, kind and the batch seqno - '
             'the records whose keyspace resolves and whose batch is not already covered by that keyspace\'s tables (persisted seqno >= batch seqno), that clears follow the same rule, that every batch was consumed, '
             'and for sealed journals that a memtable is sealed iff data landed in it and the journal is re-registered with the highest applied seqno per keyspace. '
             'Counterexamples are replayed natively: 24 reference-map programs with reopen cycles (all C01 battery programs, ingestion over journaled keys, ingestion after clear, deleted keyspaces, kv separation, unflushed sealed memtables). Added: two-item-batch replay obligations (active and sealed journal), recovery panics count as violations, the LZ4 coherence obligation of C15, programs with a half-flushed batch.',
        design_ref='DESIGN.md §5 C04',
        note='Trusted: E8/E2 (tables report their highest seqno; the highest seqno of a key wins), journal reader by contract (bytes: C03/C15). Outside: lsm-tree table/version recovery, recover_keyspaces directory scan (stubbed), > 2 keyspaces / 2 batches.',
        technique='MIR symbolic execution of both recovery loops over a symbolic journal/keyspace state + z3; native reopen replay against a reference map',
    ),
    'C08': dict(
        category='model_checking',
        text='MIR symbolic execution of every method of BaseTransaction as one step from an arbitrary transaction state (ephemeral memtables for this and another keyspace, symbolic private counter): z3 decides that writes append exactly one entry '
             '(caller\'s key/value, kind, seqno = counter) to this keyspace\'s ephemeral memtable and increase the counter, with no effect outside; that point reads consult the own entry first (SeqNo::MAX, tombstone -> absent) and otherwise the tree at the '
             'snapshot instant; that scans hand the tree this keyspace\'s ephemeral memtable bounded by the current counter; that fetch_update / update_fetch / take apply f once to get() and write / return as documented; that commit submits one batch '
             'holding the newest entry of every key (2+2 entries in the quick tier; 3+2, a run of 4 in one keyspace, and three keyspaces in the thorough tier; symbolic key equalities) with the transaction\'s durability; that rollback has no effect; and that the single-writer database takes its mutex before opening the snapshot and releases it after the commit. '
             'Counterexamples are replayed natively against an overlay-map model of transactions (36 programs x endings on both databases, reads from outside before/after, reopen) and a two-thread read-modify-write race.',
        design_ref='DESIGN.md §5 C08',
        note='Trusted: E2 for lsm_tree::Memtable (highest seqno of a key wins; iteration by key then seqno descending; tree scans merge the ephemeral memtable up to the bound), counter starts at 2^63. '
             'Outside: schedules of competing single-writer transactions finer than the mutex, more than 4 entries per keyspace / 5 in total in the commit loop, lsm-tree merge internals.',
        technique='MIR symbolic execution (one inductive step per method from an arbitrary state) + z3; native overlay-model replay',
    ),
    'C10': dict(
        category='model_checking',
        text='MIR symbolic execution of JournalManager::maintenance from an arbitrary queue (2 sealed journals x 2 watermarks; lsn, deleted flag and persisted seqno of every keyspace symbolic): z3 decides that each unlink removes the '
             'oldest queued journal and only when every watermark is satisfied (keyspace deleted, or persisted seqno present and >= lsn), that queue and byte counter follow, and that a failed unlink changes nothing; '
             'of build_seqno_map (one watermark per keyspace with memtable data = its highest memtable seqno), rotate_journal (sealed file queued with those watermarks), the straggler list, and the worker flush tick '
             '(watermark capture and rotation under one hold of the journal lock; maintenance after the flush). Recovery re-registration of sealed journals is decided in C04. '
             'Counterexamples are replayed natively: journal rotation forced at every flush tick, 7 multi-keyspace programs with lagging / deleted / cleared keyspaces; a process-crash image after every maintenance step must recover every acknowledged write; journal count returns to 1. Added: maintenance reclaims every evictable journal (a deleted keyspace never pins one), the sealed-journal recovery registers watermarks for exactly the replayed keyspaces with the highest applied seqno (incl. two item batches; a panic counts), journal order on recovery incl. file-name order, a stepwise program with two sealed memtables at rotation and one with 12 live journals.',
        design_ref='DESIGN.md §5 C10',
        note='Trusted: E8 (FIFO flush, persisted seqno = highest seqno in tables), C14 (apply under the journal lock), F2 (remove_file). Outside: > 2 queued journals / 2 watermarks, schedules finer than lock events, directory-entry durability of the unlink.',
        technique='MIR symbolic execution from an arbitrary (invariant-free) queue state + z3 validity queries; native crash-image replay',
    ),
    'C11': dict(
        category='model_checking',
        text='The MIR of Database::recover is executed over a symbolic recovered state: 2 keyspaces with symbolic ids and symbolic persisted/highest seqnos (meta keyspace included), '
             'a journal of <= 2 batches whose seqnos and keyspace ids are symbolic 64-bit values (ids may or may not resolve; batches may be replayed or skipped). z3 decides on every '
             'successful path that the next seqno exceeds the seqno of every batch read and the highest seqno of every tree, and that the visible seqno equals the next seqno. '
             'Counterexamples are replayed natively: 9 pre-reopen histories (journal only, tables only, both, ingested, cleared, tombstones only, deleted keyspace, several marks) through two reopens, '
             'comparing the counter with the highest seqno any tree reported and reading back writes made after the reopen. Added: the counter-wiring obligations and histories with four bulk-loaded keyspaces in both load orders.',
        design_ref='DESIGN.md §5 C11',
        note='Trusted: E8 (lsm-tree reports the maximum seqno of memtables+tables), journal reader by contract (bytes: C03/C15). Outside: > 2 keyspaces / 2 batches per journal, the sealed-journal '
             'loop of recover_sealed_memtables (same statements; checked separately as part of C04), lsm-tree read path (a higher seqno wins: E2).',
        technique='MIR symbolic execution of recovery over a symbolic journal/keyspace state + z3 (64-bit bit-vectors); native reopen replay',
    ),
    'C12': dict(
        category='model_checking',
        text='MIR symbolic execution: every writer touches only its own handle\'s tree and journals under that keyspace\'s id (batch: item i -> keyspace i); writes through a deleted handle return '
             'KeyspaceDeleted before any lock/journal/tree effect; delete_keyspace flags the handle only after the meta keyspace removal succeeded; MetaKeyspace::remove_keyspace ingests tombstones for the '
             'id->name key and all stored configuration keys and removes the name; Database::recover (symbolic journal and keyspace ids, as C11) applies a record only to the tree of the keyspace whose id it carries, '
             'never applies unresolvable records, and leaves the keyspace id counter above every id that occurs in a record of the active or of a sealed journal; delete_keyspace removes only the handle\'s own keyspace (ids compared); Database::keyspace looks up and registers a new name under one hold of the dictionary lock; recover_keyspaces over a symbolic directory recovers each resolvable directory under its own id / stored name / folder and raises the id counter above them. Counterexamples are replayed natively with create/write/delete/re-create/reopen histories. Added: a deleted keyspace never pins a sealed journal (and through its watermark its own files): reclaim rule of C10 with a native replay; deterministic create race through a pause point before the dictionary lock.',
        design_ref='DESIGN.md §5 C12',
        note='Trusted: HashMap/RwLock contract, lsm-tree ingestion as event stub, file removal on last handle drop (F2). Outside: recover_keyspaces directory scan (stubbed in the recover harness), > 2 keyspaces.',
        technique='MIR symbolic execution + z3 (handle identity, symbolic ids); native lifecycle replay',
    ),
}

NOT_YET = {}

ALL = [f'C{i:02d}' for i in range(1, 19)]


def hook_commits():
    try:
        out = subprocess.check_output(['git', '-C', '/repo', 'log', '--format=%H %s'], text=True)
        return [l.split()[0] for l in out.split('\n') if l and ('verif hook' in l)]
    except Exception:
        return []


def build():
    checks = []
    for pid in ALL:
        c = CHECKS.get(pid)
        if not c:
            continue
        checks.append({
            'property_id': pid,
            'quick_cmd': f'./check {pid} --tier quick',
            'thorough_cmd': f'./check {pid} --tier thorough',
            'evidence_file': f'/verif/evidence/{pid}.json',
            'replay_cmd_template': f'./check {pid} --replay {{path}}',
            'engine': c.get('engine', 'msx (MIR symbolic executor + z3)'),
            'level_claimed': {'category': c['category'], 'text': c['text'], 'design_ref': c['design_ref']},
            'level_note': c['note'],
            'technique': c['technique'],
        })
    na = [{'property_id': p, 'reason': NOT_YET.get(p, 'check under construction in this session (see DESIGN.md §5); not claimed yet')}
          for p in ALL if p not in CHECKS]
    m = {
        'version': 1,
        'setup_cmd': './setup.sh',
        'hooks': {
            'guard': 'cfg(fjall_verif)',
            'enable': 'RUSTFLAGS="--cfg fjall_verif" (native replay driver /verif/replay built against /repo); Kani harnesses use cfg(kani)',
            'baseline_off_cmd': 'cd /repo && cargo nextest run --workspace --no-fail-fast --tool-config-file pb:/w/lib/nextest.toml --profile pb --test-threads 8 --offline || cargo test --workspace --no-fail-fast --offline',
            'source_commits': hook_commits(),
            'add_only': True,
        },
        'engines': [
            {'name': 'msx', 'path': '/verif/msx', 'serves_properties': sorted(CHECKS),
             'kind_free_text': 'symbolic executor for rustc MIR (regenerated from /repo on every run) with an environment contract; z3 decides obligations; bounded composition models in z3'},
            {'name': 'replay', 'path': '/verif/replay', 'serves_properties': sorted(CHECKS),
             'kind_free_text': 'native scenario interpreter over the real crate (cfg fjall_verif hooks) used to confirm every solver counterexample'},
        ],
        'checks': checks,
        'not_applicable': na,
        'notes': 'Every VIOLATION is a solver counterexample that reproduced natively. KNOWN-FINDING lines come from /verif/known_findings.json.',
    }
    with open(os.path.join(VERIF, 'MANIFEST.json'), 'w') as fh:
        json.dump(m, fh, indent=1)
    return m


if __name__ == '__main__':
    m = build()
    print(len(m['checks']), 'checks;', len(m['not_applicable']), 'not applicable')
