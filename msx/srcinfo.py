"""Source-derived tables the MIR text does not carry: struct field names (MIR projects by index),
enum variant names/discriminants (MIR switches on numbers), and `impl` headers (MIR names impl blocks by
source position).  Parsed with small regexes from /repo/src and from the pinned lsm-tree sources; regenerated
on every run."""
import os, re, glob

DEFAULT_FEATURES = {'lz4'}


def strip_comments(src):
    src = re.sub(r'//[^\n]*', '', src)
    src = re.sub(r'/\*.*?\*/', '', src, flags=re.S)
    return src


def _split_fields(body):
    """split a struct/enum body at top-level commas"""
    out, depth, cur = [], 0, []
    for c in body:
        if c in '([{<':
            depth += 1
        elif c in ')]}>':
            depth -= 1
        if c == ',' and depth == 0:
            out.append(''.join(cur).strip()); cur = []
        else:
            cur.append(c)
    t = ''.join(cur).strip()
    if t:
        out.append(t)
    return out


def _cfg_enabled(attrs):
    for a in attrs:
        m = re.search(r'cfg\(feature\s*=\s*"(\w+)"\)', a)
        if m and m.group(1) not in DEFAULT_FEATURES:
            return False
        m = re.search(r'cfg\(not\(feature\s*=\s*"(\w+)"\)\)', a)
        if m and m.group(1) in DEFAULT_FEATURES:
            return False
        if re.search(r'cfg\(test\)', a) or re.search(r'cfg\((fjall_verif|kani)\)', a):
            return False
    return True


def _take_attrs(item):
    attrs = []
    while True:
        item = item.lstrip()
        m = re.match(r'#\[(.*?)\]\s*', item, re.S)
        if not m:
            break
        # balanced brackets inside attribute
        depth, i = 0, 1
        for i, c in enumerate(item):
            if c == '[':
                depth += 1
            elif c == ']':
                depth -= 1
                if depth == 0:
                    break
        attrs.append(item[:i + 1]); item = item[i + 1:]
    return attrs, item.strip()


class SrcInfo:
    def __init__(self, repo='/repo', lsm_dir=None):
        self.field_types = {}
        self.impl_raw = {}
        self.consts = {}
        self.structs = {}   # 'mod::path::Name' -> [field names]  (tuple structs: ['0','1',..])
        self.enums = {}     # 'mod::path::Name' -> [(variant, discr)]
        self.impls = {}     # ('src/..rs', line) -> (trait_or_None, type_name)
        self.repo = repo
        self._scan_tree(os.path.join(repo, 'src'), '')
        if lsm_dir is None:
            c = sorted(glob.glob(os.path.expanduser('~/.cargo/registry/src/*/lsm-tree-3.*')))
            lsm_dir = c[-1] if c else None
        self.lsm_dir = lsm_dir
        if lsm_dir:
            self._scan_tree(os.path.join(lsm_dir, 'src'), 'lsm_tree', impls=False)
        self._std()

    def _std(self):
        e = self.enums
        e['std::Option'] = [('None', 0), ('Some', 1)]
        e['std::Result'] = [('Ok', 0), ('Err', 1)]
        e['std::ControlFlow'] = [('Continue', 0), ('Break', 1)]
        e['std::Bound'] = [('Included', 0), ('Excluded', 1), ('Unbounded', 2)]
        e['std::Cow'] = [('Borrowed', 0), ('Owned', 1)]
        e['std::Ordering'] = [('Less', -1), ('Equal', 0), ('Greater', 1)]
        e['std::Entry'] = [('Vacant', 0), ('Occupied', 1)]

    def _scan_tree(self, root, prefix, impls=True):
        for dirpath, _d, files in os.walk(root):
            for fn in files:
                if not fn.endswith('.rs'):
                    continue
                p = os.path.join(dirpath, fn)
                rel = os.path.relpath(p, root)
                mod = rel[:-3].replace(os.sep, '::')
                if mod.endswith('::mod'):
                    mod = mod[:-5]
                if mod in ('lib', 'mod'):
                    mod = ''
                full = '::'.join(x for x in (prefix, mod) if x)
                try:
                    raw = open(p).read()
                except Exception:
                    continue
                self._scan_file(raw, full, os.path.join('src', rel) if impls else None)

    def _scan_file(self, raw, mod, relpath):
        src = strip_comments(raw)
        for m in re.finditer(r'\bstruct\s+(\w+)\s*(<[^{;(]*>)?\s*(\([^;]*\)\s*;|\{)', src):
            name = m.group(1)
            if m.group(3).startswith('('):
                tys = _split_fields(m.group(3)[1:m.group(3).rindex(')')])
                n = len(tys)
                self.structs[f'{mod}::{name}' if mod else name] = [str(i) for i in range(n)]
                self.field_types[f'{mod}::{name}' if mod else name] = [re.sub(r'^pub(\([^)]*\))?\s+', '', ' '.join(t.split())) for t in tys]
                continue
            body = self._brace_body(src, m.end() - 1)
            fields, ftypes = [], []
            for item in _split_fields(body):
                attrs, item = _take_attrs(item)
                if not item or not _cfg_enabled(attrs):
                    continue
                fm = re.match(r'(?:pub(?:\([^)]*\))?\s+)?(\w+)\s*:\s*(.*)$', item, re.S)
                if fm:
                    fields.append(fm.group(1)); ftypes.append(' '.join(fm.group(2).split()))
            self.structs[f'{mod}::{name}' if mod else name] = fields
            self.field_types[f'{mod}::{name}' if mod else name] = ftypes
        for m in re.finditer(r'\benum\s+(\w+)\s*(<[^{]*>)?\s*\{', src):
            name = m.group(1)
            body = self._brace_body(src, m.end() - 1)
            variants, nxt = [], 0
            for item in _split_fields(body):
                attrs, item = _take_attrs(item)
                if not item or not _cfg_enabled(attrs):
                    continue
                vm = re.match(r'(\w+)', item)
                if not vm:
                    continue
                dm = re.search(r'=\s*(-?\d+)\s*$', item)
                if dm and '{' not in item and '(' not in item:
                    nxt = int(dm.group(1))
                variants.append((vm.group(1), nxt)); nxt += 1
            self.enums[f'{mod}::{name}' if mod else name] = variants
        for m in re.finditer(r'\bconst\s+([A-Z_][A-Z0-9_]*)\s*:\s*([\w:]+)\s*=\s*([^;]+);', src):
            val = self._eval_const(m.group(3))
            if val is not None:
                self.consts[f'{mod}::{m.group(1)}' if mod else m.group(1)] = (m.group(2), val)
        if relpath:
            for i, line in enumerate(raw.split('\n'), 1):
                m = re.match(r'\s*(?:unsafe\s+)?impl\b\s*(<.*?>)?\s*(.*?)\s*(\{|where|$)', line)
                if m and line.lstrip().startswith(('impl', 'unsafe impl')):
                    rest = self._strip_generic_prefix(line.lstrip()[line.lstrip().index('impl') + 4:])
                    rest = rest.split('{')[0].split(' where')[0].strip()
                    if ' for ' in rest:
                        tr, ty = rest.split(' for ', 1)
                    else:
                        tr, ty = None, rest
                    self.impls[(relpath, i)] = (self._tyname(tr) if tr else None, self._tyname(ty))
                    self.impl_raw[(relpath, i)] = (tr.strip() if tr else None, ty.strip())
            # derive(..) on structs/enums: impl position is the derive attribute; handled by caller via fallbacks

    @staticmethod
    def _eval_const(expr):
        e = expr.strip().replace('_', '')
        e = re.sub(r'(?<=\d)(u8|u16|u32|u64|usize|i32|i64)\b', '', e)
        if re.fullmatch(r'[\d\s*+\-/()]+', e):
            try:
                return int(eval(e.replace('/', '//')))
            except Exception:
                return None
        return None

    def const_lookup(self, path):
        segs = path.strip().split('::')
        c = [k for k in self.consts if k.split('::')[-len(segs):] == segs]
        if len(c) == 1:
            return self.consts[c[0]]
        c = [k for k in self.consts if k.split('::')[-1] == segs[-1] and not k.startswith('lsm_tree')]
        if len(c) == 1:
            return self.consts[c[0]]
        return None

    @staticmethod
    def _strip_generic_prefix(s):
        s = s.strip()
        if s.startswith('<'):
            depth = 0
            for i, c in enumerate(s):
                if c == '<':
                    depth += 1
                elif c == '>' and s[i - 1] != '-':
                    depth -= 1
                    if depth == 0:
                        return s[i + 1:].strip()
        return s

    @staticmethod
    def _tyname(t):
        t = t.strip()
        t = re.sub(r'<.*>', '', t)          # generics
        t = t.lstrip('&').strip()
        return t.split('::')[-1].strip()

    @staticmethod
    def _brace_body(src, open_idx):
        depth = 0
        for i in range(open_idx, len(src)):
            if src[i] == '{':
                depth += 1
            elif src[i] == '}':
                depth -= 1
                if depth == 0:
                    return src[open_idx + 1:i]
        return src[open_idx + 1:]

    # ---- lookups by (possibly trimmed) MIR type path
    @staticmethod
    def _base(ty):
        ty = ty.strip()
        while ty.startswith('&'):
            ty = ty[1:].lstrip()
            if ty.startswith('mut '):
                ty = ty[4:]
            if ty.startswith("'"):
                ty = ty.split(' ', 1)[1] if ' ' in ty else ty
        # cut generics
        depth, out = 0, []
        for i, c in enumerate(ty):
            if c == '<':
                depth += 1
            elif c == '>' and i and ty[i - 1] != '-':
                depth -= 1
            elif depth == 0:
                out.append(c)
        return ''.join(out).replace('::::', '::').strip(':').strip()

    def _lookup(self, table, ty):
        b = self._base(ty)
        if not b or not re.match(r'^[\w:]+$', b):
            return None
        segs = b.split('::')
        if segs[0] in ('std', 'core', 'alloc'):
            segs = ['std', segs[-1]]
        if segs[0] == 'lsm_tree' and len(segs) >= 2:
            cands = [k for k in table if k.startswith('lsm_tree') and k.split('::')[-1] == segs[-1]]
        else:
            cands = [k for k in table if k.split('::')[-len(segs):] == segs]
        if len(cands) == 1:
            return table[cands[0]]
        if len(cands) > 1:
            # prefer fjall's own (not lsm_tree::) and the shortest path
            own = [k for k in cands if not k.startswith('lsm_tree')]
            if len(own) == 1:
                return table[own[0]]
            if len(segs) == 1:
                std = [k for k in cands if k.startswith('std::')]
                if std:
                    return table[std[0]]
            # identical definitions are fine
            vals = {repr(table[k]) for k in (own or cands)}
            if len(vals) == 1:
                return table[(own or cands)[0]]
            return None
        if len(segs) == 1:
            k = 'std::' + segs[0]
            return table.get(k)
        return None

    def struct_fields(self, ty):
        return self._lookup(self.structs, ty)

    def struct_field_types(self, ty):
        return self._lookup(self.field_types, ty)

    def enum_variants(self, ty):
        return self._lookup(self.enums, ty)

    def is_enum(self, ty):
        return self.enum_variants(ty) is not None


if __name__ == '__main__':
    s = SrcInfo()
    print(len(s.structs), 'structs', len(s.enums), 'enums', len(s.impls), 'impls')
    for t in ['keyspace::KeyspaceInner', 'KeyspaceInner', 'journal::writer::Writer', 'Writer', 'supervisor::SupervisorInner',
              'keyspace::options::CreateOptions', 'Keyspace', 'item::Item', 'db::DatabaseInner']:
        print(t, s.struct_fields(t))
    for t in ['journal::entry::Entry', 'PersistMode', 'lsm_tree::ValueType', 'ValueType', 'Option<u8>', 'std::result::Result<(), error::Error>',
              'Tag', 'WorkerMessage', 'CompressionType', 'error::Error', 'Bound<&lsm_tree::Slice>', 'AnyTree', 'conflict_manager::Read']:
        print(t, s.enum_variants(t))
    print(list(s.impls.items())[:8])
