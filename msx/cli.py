"""check driver:  python3-vt -m msx.cli <Cxx> [--tier quick|thorough]"""
import sys, os, importlib, argparse, traceback
from .core import Ctx


def main():
    ap = argparse.ArgumentParser()
    ap.add_argument('prop')
    ap.add_argument('--tier', default=os.environ.get('VERIF_TIER', 'quick'))
    ap.add_argument('--replay', default=None)
    a = ap.parse_args()
    prop = a.prop.upper()
    seed = int(os.environ.get('VERIF_SEED', '0') or 0)
    if a.replay:
        from .core import build_replay
        import subprocess
        sys.exit(subprocess.call([build_replay(), a.replay]))
    ctx = Ctx(prop, a.tier if a.tier in ('quick', 'thorough') else 'quick', seed)
    try:
        mod = importlib.import_module(f'.props.{prop.lower()}', 'msx')
    except ModuleNotFoundError:
        print(f'no check for {prop}')
        sys.exit(2)
    try:
        rc = mod.run(ctx)
    except Exception:
        traceback.print_exc()
        print(f'[{prop}] INFRASTRUCTURE ERROR (no verdict)')
        sys.exit(2)
    sys.exit(rc)


if __name__ == '__main__':
    main()
