"""Sensitivity mutants: one-line edits applied to a scratch copy of /repo; the property's own check is run
against the scratch tree and must turn red (VIOLATION, or at least an UNCONFIRMED candidate for obligations whose
native replay is not implemented).  This is the vacuity guard of engine M and a regression list for the encoder.

usage:  python3-vt -m msx.mutants C13 [name-substring]      (prints a table; exit 0)
"""
import os, sys, subprocess, shutil, importlib, json, time, hashlib
from . import mirdump

CACHE = mirdump.CACHE


def apply_edit(root, file, old, new, count=1):
    p = os.path.join(root, file)
    s = open(p).read()
    if s.count(old) < 1:
        raise RuntimeError(f'mutant anchor not found in {file}: {old[:60]!r}')
    s = s.replace(old, new, count)
    open(p, 'w').write(s)


def run_mutant(prop, mutant, keep=False, tier='quick', base='/repo'):
    name = mutant['name']
    tag = hashlib.sha256((prop + name).encode()).hexdigest()[:8]
    root = os.path.join(CACHE, 'mutants', f'{prop}-{tag}')
    shutil.rmtree(root, ignore_errors=True)
    os.makedirs(root, exist_ok=True)
    subprocess.check_call(['rsync', '-a', '--exclude', 'target', '--exclude', '.git', base.rstrip('/') + '/', root + '/'])
    try:
        for e in mutant['edits']:
            apply_edit(root, *e)
    except RuntimeError as ex_:
        shutil.rmtree(root, ignore_errors=True)
        return {'name': name, 'verdict': 'infra-error', 'rc': -1, 'wall_s': 0.0, 'lines': [str(ex_)[:200]]}, ''
    evdir = os.path.join(root, '_evidence')
    # every mutant gets its own build directory for the replay driver: parallel mutants must never run each other's binary
    rt = os.path.join(CACHE, 'mutants', 'replay-target-' + tag)
    env = dict(os.environ, VERIF_REPO=root, VERIF_EVIDENCE_DIR=evdir, VERIF_REPLAY_TARGET=rt)
    t0 = time.time()
    verif = os.path.dirname(os.path.dirname(os.path.abspath(__file__)))
    p = subprocess.run(['python3-vt', '-m', 'msx.cli', prop, '--tier', tier], cwd=verif, env=env, stdout=subprocess.PIPE, stderr=subprocess.STDOUT, text=True)
    out = p.stdout
    verdict = 'missed'
    if 'VIOLATION property=' + prop in out:
        verdict = 'caught'
    elif 'UNCONFIRMED property=' + prop in out:
        verdict = 'candidate-unconfirmed'
    elif p.returncode not in (0, 1):
        verdict = 'infra-error'
    res = {'name': name, 'verdict': verdict, 'rc': p.returncode, 'wall_s': round(time.time() - t0, 1),
           'lines': [l for l in out.split('\n') if l.startswith(('VIOLATION', 'UNCONFIRMED', '  obligation', '[' + prop))][:6]}
    shutil.rmtree(rt, ignore_errors=True)
    shutil.rmtree(os.path.join(CACHE, 'replay-crate-' + hashlib.sha256(os.path.realpath(root).encode()).hexdigest()[:10]), ignore_errors=True)
    if not keep:
        shutil.rmtree(root, ignore_errors=True)
        shutil.rmtree(os.path.join(CACHE, 'mutants', 'cache-' + tag), ignore_errors=True)
    return res, out


def run_all(prop, only=None, jobs=4, tier='quick'):
    mod = importlib.import_module(f'.props.{prop.lower()}', 'msx')
    muts = [m for m in getattr(mod, 'MUTANTS', []) if only is None or only in m['name']]
    from concurrent.futures import ThreadPoolExecutor
    with ThreadPoolExecutor(max_workers=jobs) as ex:
        results = list(ex.map(lambda m: run_mutant(prop, m, tier=tier)[0], muts))
    return results


if __name__ == '__main__':
    prop = sys.argv[1].upper()
    only = sys.argv[2] if len(sys.argv) > 2 else None
    for r in run_all(prop, only):
        print(f"{r['verdict']:22s} {r['wall_s']:6.1f}s  {r['name']}")
        for l in r['lines']:
            print('      ', l[:200])
